#!/usr/bin/env python3
"""
Differential check for the SRC / callout / registry / component-id / value
table code of peltool.

    /venv/bin/python diffcheck.py <pristine_root> <patched_root>

Every suite is run in a fresh interpreter (once per tree, with and without
-O, with and without a fake ``pel_registry`` package on the path) and the
recorded observations (return values, exceptions, stdout, stderr, stream
positions, object attributes, module caches) are compared case by case.

Prints "IDENTICAL (<n> cases)" and exits 0 when everything matches, exits 1
otherwise.
"""
import json
import os
import random
import shutil
import subprocess
import sys
import tempfile

HERE = os.path.abspath(__file__)

# --------------------------------------------------------------------------
# binary builders (shared by the parent and the drivers)
# --------------------------------------------------------------------------


def be(value, size):
    return int(value).to_bytes(size, "big")


def text(value, size):
    raw = value if isinstance(value, bytes) else value.encode("latin-1")
    return raw[:size].ljust(size, b"\0")


def fru_identity(rng, flags=None, comp=None, pn=None, lie=0):
    if flags is None:
        flags = rng.choice([0x08, 0x02, 0x0C, 0x0D, 0x0F, 0x01, 0x04, 0x00,
                            0x0A, 0x03, 0x09, 0x06])
    if comp is None:
        comp = rng.choice([0x10, 0x20, 0x30, 0x40, 0x90, 0xA0, 0xB0, 0xC0,
                           0xE0, 0x50, 0x00, 0xF0])
    body = b""
    if flags & 0x0A:
        if pn is None:
            pn = rng.choice(["BMC0001", "BMC0002", "BMC0008", "BMC9999",
                             "01AB234", "PN\0\0", "", "FSPSP04", "BADJSON",
                             "RAISES", "EMPTY", "NULLJS"])
        body += text(pn, 8)
    if flags & 0x04:
        body += text(rng.choice(["2E2D", "AB", "", "6B58"]), 4)
    if flags & 0x01:
        body += text(rng.choice(["YL10JK123456", "SN1", ""]), 12)
    size = (4 + len(body) + lie) & 0xFF
    return b"ID" + be(size, 1) + be(comp | flags, 1) + body


def pce_identity(rng, size=None, name=None):
    if name is None:
        name = rng.choice([b"pce0", b"enclosure-a\0", b"\0\0\0\0", b"pce-name",
                           b"name with spaces"] if rng.random() < 0.93 else
                          [b"x", b"", b"odd"])
    mt = text(rng.choice(["9105-22A", "", "8335-GTH", "MT"]), 8)
    sn = text(rng.choice(["13ABCDE", "", "SERIALNUMBER"]), 12)
    if size is None:
        size = 24 + len(name)
    return b"PE" + be(size & 0xFF, 1) + be(rng.randrange(256), 1) + mt + sn \
        + name


def mru(rng, count=None, size=None):
    if count is None:
        count = rng.choice([0, 1, 2, 3, 5, 15])
    body = b"".join(be(rng.choice([0x48, 0x4D, 0x4C, 0]), 4) +
                    be(rng.getrandbits(32), 4) for _ in range(count))
    if size is None:
        size = 8 + len(body)
    return b"MR" + be(size & 0xFF, 1) + be((rng.randrange(16) << 4) | count, 1) \
        + be(rng.getrandbits(32), 4) + body


def callout(rng, parts=None, loc=None, size_delta=0, sloppy=None):
    if sloppy is None:
        sloppy = rng.random() < 0.1
    if loc is None:
        loc = rng.choice([b"", b"U78DA.ND0.1234567-P0\0\0\0\0",
                          b"Ufcs-P0-C15\0", b"\0\0\0\0", b"P1\0\0"]
                         if not sloppy else [b"P1", b"\xc3", b"Ufcs-P0"])
    if parts is None:
        parts = rng.choice(["f", "f", "fp", "fm", "fpm", "p", "m", "",
                            "pf", "mf", "pm"] if not sloppy else
                           ["ff", "fx", "xf", "x", "fpmf"])
    body = b""
    for part in parts:
        if part == "f":
            body += fru_identity(rng)
        elif part == "p":
            body += pce_identity(rng)
        elif part == "m":
            body += mru(rng)
        else:
            body += bytes(rng.randrange(256) for _ in range(rng.choice([2, 4, 6])))
    size = (4 + len(loc) + len(body) + size_delta) & 0xFF
    prio = rng.choice([0x48, 0x4D, 0x41, 0x42, 0x43, 0x4C, 0x00, 0x58])
    return be(size, 1) + be(rng.randrange(256), 1) + be(prio, 1) + \
        be(len(loc), 1) + loc + body


def callout_section(rng, count=None, length_delta=0, sloppy=None):
    if count is None:
        count = rng.choice([0, 1, 1, 2, 3, 4])
    body = b"".join(callout(rng, sloppy=sloppy,
                            size_delta=0 if sloppy is False else
                            rng.choice([0] * 12 + [-4, 4, 1]))
                    for _ in range(count))
    words = (4 + len(body) + 3) // 4 + length_delta
    return be(0xC0, 1) + be(rng.randrange(256), 1) + be(max(words, 0) & 0xFFFF, 2) \
        + body


REFCODES = ["BD8D2030", "BD8D2031", "BD8D2032", "BD8D2033", "BD8D2034",
            "BD8D2035", "BD702036", "11002030", "110015F0", "BC8A0403",
            "BC8A0404", "BC8A0405", "BDE50010", "BDE50011", "B7001234",
            "BD8D9999", "BD8D2037", "BD8D2038", "BD8D2039", "BD8D203A",
            "BD", "", "BD8D20", "bd8d2030", "BD8D203B", "BD8D203C"]


GOOD_REFCODES = ["BD8D2030", "BD8D2031", "BD8D2035", "11002030", "BC8A0403",
                 "BC8A0404", "BDE50010", "BDE50011", "B7001234", "BD8D9999",
                 "BD702036", "BD8D2039"]


def src_body(rng, refcode=None, flags=None, word_count=None, callouts=None,
             words=None):
    if refcode is None:
        refcode = rng.choice(REFCODES if rng.random() < 0.3 else GOOD_REFCODES)
    if flags is None:
        flags = rng.choice([0x00, 0x01, 0x01, 0x01, 0x81, 0x10, 0x04, 0x9F,
                            0xFF, 0x02])
    if word_count is None:
        word_count = rng.choice([9, 9, 9, 9, 6, 2, 1, 0, 3, 8])
    if words is None:
        words = [rng.choice([0, 0xFFFFFFFF, rng.getrandbits(32),
                             0x23000000 | rng.randrange(256),
                             rng.getrandbits(32) & 0x23000000])
                 for _ in range(8)]
    raw = be(2, 1) + be(flags, 1) + be(rng.randrange(256), 1) + \
        be(word_count, 1) + be(rng.getrandbits(16), 2)
    tail = b"".join(be(w, 4) for w in words) + text(refcode, 32).replace(b"\0", b" ")
    if flags & 0x01:
        tail += callout_section(rng) if callouts is None else callouts
    return raw + be((8 + len(tail)) & 0xFFFF, 2) + tail


def section(sid, body, version=1, subtype=0, comp=0x1000, length=None):
    if length is None:
        length = 8 + len(body)
    return text(sid, 2) + be(length & 0xFFFF, 2) + be(version, 1) + \
        be(subtype, 1) + be(comp, 2) + body


def full_pel(rng, creator="O", sev=0x40, action=0xA000, srcs=None, extra=True,
             count_delta=0, comp=0x2000):
    if srcs is None:
        srcs = [("PS", src_body(rng))]
        if rng.random() < 0.3:
            srcs.append(("SS", src_body(rng)))
    sections = [section(sid, body, comp=comp) for sid, body in srcs]
    if extra:
        sections.append(section("ZZ", bytes(rng.randrange(256)
                                            for _ in range(rng.choice([4, 16, 21]))),
                                comp=0x3100))
    ts = bytes.fromhex("2024031218402755")
    eid = rng.getrandbits(32)
    ph = ts + ts + text(creator, 1) + b"\0\0" + \
        be((2 + len(sections) + count_delta) & 0xFF, 1) + \
        be(rng.randrange(1, 5000), 4) + be(rng.getrandbits(64), 8) + \
        be(0x50000000 | (eid & 0xFFFFFF), 4) + be(0x50000000 | (eid & 0xFFFFFF), 4)
    uh = be(rng.choice([0x10, 0x8D, 0x62, 0x00]), 1) + be(3, 1) + be(sev, 1) + \
        be(0, 1) + be(0, 4) + be(0, 1) + be(0, 1) + be(action, 2) + be(0x0203, 4)
    return section("PH", ph, comp=comp) + section("UH", uh, comp=comp) + \
        b"".join(sections)


def mutate(rng, data):
    kind = rng.randrange(4)
    raw = bytearray(data)
    if kind == 0 and len(raw) > 1:
        return bytes(raw[:rng.randrange(len(raw))])
    if kind == 1 and raw:
        for _ in range(rng.choice([1, 1, 2, 5])):
            raw[rng.randrange(len(raw))] = rng.randrange(256)
        return bytes(raw)
    if kind == 2 and raw:
        pos = rng.randrange(len(raw))
        raw[pos] ^= 1 << rng.randrange(8)
        return bytes(raw)
    return bytes(raw) + bytes(rng.randrange(256) for _ in range(rng.randrange(1, 9)))


# --------------------------------------------------------------------------
# fake environment written by the parent
# --------------------------------------------------------------------------

REGISTRY = {"PELs": [
    {"Name": "a.b.NoReason", "SRC": {"Words6To9": {}},
     "Documentation": {"Message": "never"}},
    {"Name": "a.b.Plain", "SRC": {"ReasonCode": "0x2030"},
     "Documentation": {"Message": "Plain message", "Description": "d"}},
    {"Name": "a.b.Args", "SRC": {"ReasonCode": "0x2031", "Type": "BD",
                                 "Words6To9": {
                                     "6": {"Description": "Word six",
                                           "AdditionalDataPropSource": "SIX"},
                                     "7": {"AdditionalDataPropSource": "SEVEN"},
                                     "9": {"Description": "Word nine",
                                           "AdditionalDataPropSource": "NINE"}}},
     "Documentation": {"Message": "Args %1 and %2 done",
                       "MessageArgSources": ["SRCWord6", "SRCWord9"]}},
    {"Name": "a.b.Mixed", "SRC": {"ReasonCode": "0x203C"},
     "Documentation": {"Message": "Args %1 and %2 then %1 {} done",
                       "MessageArgSources": ["SRCWord6", "SRCWord9"]}},
    {"Name": "a.b.Braces", "SRC": {"ReasonCode": "0x2032"},
     "Documentation": {"Message": "Braces {0} %1 {oops}",
                       "MessageArgSources": ["SRCWord7"]}},
    {"Name": "a.b.TooFew", "SRC": {"ReasonCode": "0x2033"},
     "Documentation": {"Message": "Needs %1 %2 %3",
                       "MessageArgSources": ["SRCWord8"]}},
    {"Name": "a.b.BadArg", "SRC": {"ReasonCode": "0x2034"},
     "Documentation": {"Message": "Bad %1",
                       "MessageArgSources": ["SRCWordX"]}},
    {"Name": "a.b.Dup", "SRC": {"ReasonCode": "0x2035", "Words6To9": {
        "6": {"Description": "first", "AdditionalDataPropSource": "SAME"},
        "8": {"Description": "second", "AdditionalDataPropSource": "Message"},
        "7": {"Description": "third", "AdditionalDataPropSource": "SAME"}}},
     "Documentation": {"Message": "Dup keys"}},
    {"Name": "a.b.Power", "SRC": {"ReasonCode": "0x2030", "Type": "11"},
     "Documentation": {"Message": "Power message %1",
                       "MessageArgSources": ["SRCWord2"]}},
    {"Name": "a.b.Hostboot", "SRC": {"ReasonCode": "0x0403", "Type": "BC"},
     "Documentation": {"Message": "Hostboot message"}},
    {"Name": "a.b.EmptyMsg", "SRC": {"ReasonCode": "0x0404", "Type": "BC",
                                     "Words6To9": {
                                         "6": {"Description": "x",
                                               "AdditionalDataPropSource": "X"}}},
     "Documentation": {"Message": ""}},
    {"Name": "a.b.NoSource", "SRC": {"ReasonCode": "0x2037", "Words6To9": {
        "6": {"Description": "no prop source"}}},
     "Documentation": {"Message": "No source"}},
    {"Name": "a.b.BadNum", "SRC": {"ReasonCode": "0x2038", "Words6To9": {
        "six": {"Description": "bad", "AdditionalDataPropSource": "B"}}},
     "Documentation": {"Message": "Bad num"}},
    {"Name": "a.b.FarWord", "SRC": {"ReasonCode": "0x2039", "Words6To9": {
        "12": {"Description": "far", "AdditionalDataPropSource": "F"},
        "1": {"Description": "neg", "AdditionalDataPropSource": "N"}}},
     "Documentation": {"Message": "Far word"}},
    {"Name": "a.b.NoMessage", "SRC": {"ReasonCode": "0x203A"},
     "Documentation": {"Description": "no message key"}},
    {"Name": "a.b.NoDoc", "SRC": {"ReasonCode": "0x203B"}},
    {"Name": "a.b.Multi", "SRC": {"ReasonCode": "0x0010 0x0011"},
     "Documentation": {"Message": "Multi %1 %2 %3 %4",
                       "MessageArgSources": ["SRCWord6", "SRCWord7",
                                             "SRCWord8", "SRCWord9"]}},
    {"Name": "a.b.Shadow", "SRC": {"ReasonCode": "0x2030"},
     "Documentation": {"Message": "shadowed, never returned"}},
]}

FAKE_FILES = {
    "pel_registry/__init__.py":
        "import os\n"
        "def get_registry_path():\n"
        "    return os.environ.get('FAKE_REGISTRY', os.path.join("
        "os.path.dirname(__file__), 'message_registry.json'))\n",
    "pel_registry/O_component_ids.json":
        json.dumps({"1000": "bmc common", "2000": "bmc error logging",
                    "E500": "hw-diags", "00AB": "lower", "00ab": "never"}),
    "pel_registry/B_component_ids.json":
        json.dumps({"0100": "hostboot", "2000": "hb-errl"}),
    "pel_registry/odd_component_ids.json.bak":
        json.dumps({"1000": "odd"}),
    "pel_registry/L_component_ids.json":
        json.dumps(["1000", "2000"]),
    "pel_registry/readme.txt": "not a component file\n",
    "plugins/srcparsers/ksrc/__init__.py": "",
    "plugins/srcparsers/ksrc/ksrc.py": "raise SystemExit('ksrc import')\n",
    "plugins/srcparsers/esrc/__init__.py": "",
    "plugins/srcparsers/esrc/esrc.py": "raise ValueError('esrc import')\n",
    "plugins/srcparsers/xsrc/__init__.py": "",
    "plugins/srcparsers/xsrc/xsrc.py":
        "import json\n"
        "calls = []\n"
        "def parseSRCToJson(refcode, *words):\n"
        "    calls.append((refcode, words))\n"
        "    kind = refcode[6:8]\n"
        "    if kind == '30': raise RuntimeError('xsrc failed on ' + refcode[:8])\n"
        "    if kind == '31': return ''\n"
        "    if kind == '32': return 'null'\n"
        "    if kind == '33': return '{not json'\n"
        "    if kind == '34': return None\n"
        "    if kind == '35': raise SystemExit(7)\n"
        "    if kind == '36': return '[1, 2]'\n"
        "    return json.dumps({'refcode': refcode, 'words': list(words),"
        " 'calls': len(calls)})\n",
    "plugins/srcparsers/nsrc/__init__.py": "",
    "plugins/srcparsers/nsrc/nsrc.py": "VALUE = 1\n",
    "plugins/calloutparsers/kcallouts/__init__.py": "",
    "plugins/calloutparsers/kcallouts/kcallouts.py":
        "raise SystemExit('kcallouts import')\n",
    "plugins/calloutparsers/ecallouts/__init__.py": "",
    "plugins/calloutparsers/ecallouts/ecallouts.py":
        "raise ValueError('ecallouts import')\n",
    "plugins/calloutparsers/xcallouts/__init__.py": "",
    "plugins/calloutparsers/xcallouts/xcallouts.py":
        "import json\n"
        "calls = []\n"
        "def getMaintProcDesc(name):\n"
        "    calls.append(name)\n"
        "    if name == 'RAISES': raise RuntimeError('no desc')\n"
        "    if name == 'BADJSON': return '{bad'\n"
        "    if name == 'EMPTY': return ''\n"
        "    if name == 'NULLJS': return 'null'\n"
        "    if name == 'BMC0008': raise SystemExit(9)\n"
        "    return json.dumps([name, len(calls)])\n",
    "plugins/calloutparsers/ncallouts/__init__.py": "",
    "plugins/calloutparsers/ncallouts/ncallouts.py": "VALUE = 1\n",
}


def write_fake_env(base):
    for rel, content in FAKE_FILES.items():
        path = os.path.join(base, rel)
        os.makedirs(os.path.dirname(path), exist_ok=True)
        with open(path, "w") as fd:
            fd.write(content)
    with open(os.path.join(base, "pel_registry", "message_registry.json"), "w") as fd:
        json.dump(REGISTRY, fd)
    with open(os.path.join(base, "bad_registry.json"), "w") as fd:
        fd.write('{"NotPELs": []}')
    with open(os.path.join(base, "broken_registry.json"), "w") as fd:
        fd.write('{"PELs": [')


# --------------------------------------------------------------------------
# driver side
# --------------------------------------------------------------------------

RESULTS = []


def describe(value, depth=0):
    """A stable, type-revealing description of a value."""
    from collections import OrderedDict
    if type(value).__name__ in PUBLIC_ATTRS:
        return ["obj", type(value).__name__, describe_attrs(value, depth + 1)]
    if isinstance(value, OrderedDict):
        return ["OD", [[describe(k), describe(v, depth + 1)] for k, v in value.items()]]
    if isinstance(value, dict):
        return ["dict", [[describe(k), describe(v, depth + 1)] for k, v in value.items()]]
    if isinstance(value, list):
        return ["list", [describe(v, depth + 1) for v in value]]
    if isinstance(value, tuple):
        return ["tuple", [describe(v, depth + 1) for v in value]]
    if isinstance(value, (bytes, bytearray, memoryview)):
        return [type(value).__name__, bytes(value).hex()]
    if value is None or isinstance(value, (bool, int, float, str)):
        return [type(value).__name__, value]
    if type(value).__module__ == "builtins" or depth > 6:
        return [type(value).__name__, repr(value)]
    return ["obj", type(value).__name__, describe_attrs(value, depth + 1)]


PUBLIC_ATTRS = {
    "FRUIdentity": ["type", "size", "flags", "pnOrProcedureID", "ccin", "sn",
                    "flattenedSize"],
    "PCEIdentity": ["type", "flattenedSize", "flags", "machineType",
                    "serialNumber", "pceNameSize", "pceName"],
    "MRUCallout": ["priority", "id"],
    "MRU": ["type", "flattenedSize", "flags", "reserved4B", "mrus"],
    "Callout": ["size", "flags", "priority", "locationCode",
                "locationCodeSize", "fruIdentity", "pceIdentity", "mru"],
    "SRC": ["sectionID", "sectionLen", "versionID", "subType", "componentID",
            "creatorID", "version", "flags", "reserved1B", "wordCount",
            "reserved2B", "size", "hexData", "srcType", "asciiString"],
}


def describe_attrs(obj, depth=0):
    names = PUBLIC_ATTRS.get(type(obj).__name__)
    if names is None:
        return repr(obj)
    out = []
    for name in names:
        if hasattr(obj, name):
            out.append([name, describe(getattr(obj, name), depth)])
        else:
            out.append([name, "<missing>"])
    if type(obj).__name__ == "Callout":
        out.append(["flattenedSize()", describe(obj.flattenedSize())])
    return out


def observe(case_id, func, after=None):
    import contextlib
    import io
    out, err = io.StringIO(), io.StringIO()
    record = {"id": case_id}
    with contextlib.redirect_stdout(out), contextlib.redirect_stderr(err):
        try:
            record["ret"] = describe(func())
        except BaseException as exc:  # noqa - SystemExit etc. are observations
            record["exc"] = [type(exc).__name__, str(exc), describe(list(exc.args))]
        if after is not None:
            try:
                record["after"] = after()
            except BaseException as exc:  # noqa
                record["after_exc"] = [type(exc).__name__, str(exc)]
    record["stdout"] = out.getvalue()
    record["stderr"] = err.getvalue()
    RESULTS.append(record)


def cache_state(src_mod):
    def names(cache):
        return [[k, None if v is None else getattr(v, "__name__", repr(v))]
                for k, v in cache.items()]
    return {"callout": names(src_mod.calloutParsers),
            "src": names(src_mod.srcParsers)}


def make_config(allow_plugins=True, **kw):
    from pel.peltool.config import Config
    config = Config()
    config.allow_plugins = allow_plugins
    for key, value in kw.items():
        setattr(config, key, value)
    return config


def extend_plugin_paths(fake):
    import calloutparsers
    import srcparsers
    srcparsers.__path__.append(os.path.join(fake, "plugins", "srcparsers"))
    calloutparsers.__path__.append(os.path.join(fake, "plugins", "calloutparsers"))


def stream_of(data, as_view=False):
    from pel.datastream import DataStream
    return DataStream(memoryview(data) if as_view else data,
                      byte_order="big", is_signed=False)


def suite_src(fake):
    """SRC.toJSON on hand made and fuzzed SRC section bodies."""
    import pel.peltool.src as src_mod
    extend_plugin_paths(fake)
    rng = random.Random(4711)

    def run(case_id, body, creator, config, comp=0x2000, as_view=False,
            signed=False):
        stream = stream_of(body, as_view)
        if signed:
            stream.is_signed = True
        holder = {}

        def call():
            holder["src"] = src_mod.SRC(stream, 0x5053, len(body) + 8, 1, 1,
                                        comp, creator)
            return holder["src"].toJSON(config)

        def after():
            return {"index": stream.index,
                    "src": describe_attrs(holder["src"]) if "src" in holder else None,
                    "caches": cache_state(src_mod)}
        observe(case_id, call, after)

    creators = ["O", "O", "O", "B", "X", "X", "K", "E", "N", "H", "o", ""]
    n = 0
    # systematic: every refcode x creator with a fixed, complete callout block
    for refcode in REFCODES:
        for creator in ["O", "B", "X", "E", "N"]:
            for plugins in (True, False):
                local = random.Random(n)
                body = src_body(local, refcode=refcode, flags=0x01, word_count=9,
                                callouts=callout_section(local, sloppy=False))
                run("src/sys/%d" % n, body, creator, make_config(plugins))
                n += 1
    # word counts
    for wc in list(range(0, 14)) + [0x7F, 0xFF]:
        body = src_body(random.Random(wc), refcode="BD8D2031", flags=0, word_count=wc)
        run("src/wc/%d" % wc, body, "O", make_config(True))
    # header flag bits
    for flags in range(0, 256, 3):
        body = src_body(random.Random(flags), refcode="BC8A0403", flags=flags)
        run("src/flags/%d" % flags, body, "B", make_config(False))
    # status word bits for every SRC type
    for refcode in ["BD8D2030", "110015F0", "BC8A0403", "B7001234", "  "]:
        for word5 in [0, 0x20000000, 0x02000000, 0x01000000, 0x23000000,
                      0xFFFFFFFF, 0xDCFFFFFF]:
            words = [0x000000E0, 0x2E2D0010, 0, word5, 1, 2, 3, 4]
            body = src_body(random.Random(word5), refcode=refcode, flags=0,
                            words=words)
            run("src/status/%s/%x" % (refcode, word5), body, "O", make_config(True))
    # random well formed
    for i in range(260):
        creator = rng.choice(creators)
        body = src_body(rng)
        run("src/rand/%d" % i, body, creator,
            make_config(rng.random() < 0.7), comp=rng.choice([0x2000, 0x1000, 0x4142, 0xE500, 0]),
            as_view=(i % 37 == 0), signed=(i % 41 == 0))
    # mutated
    for i in range(320):
        creator = rng.choice(creators)
        body = mutate(rng, src_body(rng, flags=rng.choice([0x01, 0x01, 0x81, 0x00])))
        run("src/mut/%d" % i, body, creator, make_config(rng.random() < 0.7))
    # pure noise
    for i in range(80):
        body = bytes(rng.randrange(256) for _ in range(rng.randrange(0, 140)))
        run("src/noise/%d" % i, body, rng.choice(creators), make_config(True))
    # non UTF-8 / odd refcode bytes
    for i, raw in enumerate([b"\xff" * 32, b"BD8D2030" + b"\xc3" * 24,
                             b"\xc3\xa9D8D2030".ljust(32), b"BD8D\x002030".ljust(32, b"\0"),
                             b"B" + b"\0" * 31, b" " * 32, b"\tBD8D2030".ljust(32)]):
        body = src_body(random.Random(i), refcode="X", flags=0)
        body = body[:40] + raw + body[72:]
        run("src/ascii/%d" % i, body, "O", make_config(True))
    # the same SRC object decoded twice, and parse()/helpers called directly
    for i in range(12):
        body = src_body(random.Random(100 + i), refcode="BD8D2031", flags=0x01)
        stream = stream_of(body + body)
        obj = src_mod.SRC(stream, 0x5053, 0, 1, 1, 0x2000, "O")
        observe("src/twice/%d/a" % i, lambda: obj.toJSON(make_config(True)))
        observe("src/twice/%d/b" % i, lambda: obj.toJSON(make_config(True)),
                lambda: {"index": stream.index, "src": describe_attrs(obj)})
    for i, words in enumerate([[], ["1"] * 7, ["00000001"] * 8, ["1"] * 9,
                               [1, 2, 3, 4, 5, 6, 7, 8]]):
        for creator in ["O", "X", "B", "K", "N"]:
            obj = src_mod.SRC(stream_of(b""), 0x5053, 0, 1, 1, 0x2000, creator)
            obj.asciiString = "BDE50010" + " " * 24
            observe("src/parse/%d/%s" % (i, creator), lambda: obj.parse(words),
                    lambda: cache_state(src_mod))
    for creator in ["O", "X", "B", "K", "E", "N", "O"]:
        for proc in ["BMC0001", "BMC0008", "RAISES", "BADJSON", "EMPTY",
                     "NULLJS", "nothere", ""]:
            obj = src_mod.SRC(stream_of(b""), 0x5053, 0, 1, 1, 0x2000, creator)
            from collections import OrderedDict
            target = OrderedDict(Procedure=proc)
            observe("src/proc/%s/%s" % (creator, proc),
                    lambda: (obj.getProcedureDesc(proc, target), target)[1],
                    lambda: cache_state(src_mod))
    observe("src/get_value", lambda: [src_mod.get_value(data, start, end)
                                      for data in (b"\x01\x02\x03", memoryview(b"IDPE"), b"")
                                      for start in range(0, 5) for end in range(0, 4)])
    observe("src/enums", lambda: [[cls.__name__, type(cls).__name__,
                                   [[m.name, m.value, repr(m)] for m in cls]]
                                  for cls in (src_mod.HeaderFlags,
                                              src_mod.ErrorStatusFlags,
                                              src_mod.Flags)])
    observe("src/module", lambda: [type(src_mod.registry).__name__,
                                   len(src_mod.registry.pels),
                                   sorted(n for n in ("registry", "calloutParsers", "srcParsers",
                                                      "get_value", "FRUIdentity", "PCEIdentity",
                                                      "MRUCallout", "MRU", "Callout", "SRC")
                                          if hasattr(src_mod, n))])


def suite_callout(fake):
    """The callout sub structures on their own."""
    import pel.peltool.src as src_mod
    rng = random.Random(1234)

    def run(case_id, cls, data, as_view=False):
        stream = stream_of(data, as_view)
        observe(case_id, lambda: cls(stream), lambda: stream.index)

    for i in range(220):
        run("fru/%d" % i, src_mod.FRUIdentity, fru_identity(rng, lie=rng.choice([0, 0, 3])) + b"tail")
        run("fru/mut/%d" % i, src_mod.FRUIdentity, mutate(rng, fru_identity(rng)))
    for flags in range(256):
        data = b"ID" + be(28, 1) + be(flags, 1) + b"PN345678CCINSERIALNUMBER"
        run("fru/flags/%d" % flags, src_mod.FRUIdentity, data)
        run("fru/flags/short/%d" % flags, src_mod.FRUIdentity, data[:4 + flags % 25])
    for size in list(range(0, 40)) + [255]:
        run("pce/size/%d" % size, src_mod.PCEIdentity,
            pce_identity(rng, size=size, name=b"0123456789abcdef"))
    for i in range(120):
        run("pce/%d" % i, src_mod.PCEIdentity, pce_identity(rng) + b"\x01\x02")
        run("pce/mut/%d" % i, src_mod.PCEIdentity, mutate(rng, pce_identity(rng)))
    for count in range(16):
        run("mru/count/%d" % count, src_mod.MRU, mru(rng, count=count))
        run("mru/short/%d" % count, src_mod.MRU, mru(rng, count=count)[:-3])
    for i in range(100):
        run("mru/mut/%d" % i, src_mod.MRU, mutate(rng, mru(rng)))
    for i in range(300):
        run("callout/%d" % i, src_mod.Callout,
            callout(rng, size_delta=rng.choice([0, 0, 0, -4, 4, 1, 30])) + b"ID\x04\x00",
            as_view=(i % 50 == 0))
        run("callout/mut/%d" % i, src_mod.Callout, mutate(rng, callout(rng)))
    for i in range(80):
        run("callout/noise/%d" % i, src_mod.Callout,
            bytes(rng.randrange(256) for _ in range(rng.randrange(0, 90))))
    for parts in ["fpm", "mpf", "ffp", "ppp", "mmm", "fmfm", "pfpf"]:
        for delta in (0, -8, 8):
            run("callout/parts/%s/%d" % (parts, delta), src_mod.Callout,
                callout(random.Random(len(parts) + delta), parts=parts, size_delta=delta))

    def run_section(case_id, data, creator, plugins):
        from collections import OrderedDict
        stream = stream_of(data)
        obj = src_mod.SRC(stream, 0x5053, 0, 1, 1, 0x2000, creator)
        out = OrderedDict(Existing=1)
        observe(case_id, lambda: (obj.getCallouts(out, make_config(plugins)), out)[1],
                lambda: {"index": stream.index, "out": describe(out)})

    extend_plugin_paths(fake)
    for i in range(260):
        creator = rng.choice(["O", "X", "B", "E", "N", "O"])
        data = callout_section(rng, length_delta=rng.choice([0, 0, 0, -1, 1, 5]))
        run_section("section/%d" % i, data, creator, rng.random() < 0.8)
        run_section("section/mut/%d" % i, mutate(rng, data), creator, True)
    run_section("section/k", callout_section(random.Random(5), count=3), "K", True)
    for i in range(30):
        local = random.Random(900 + i)
        body = callout(local, parts="m", loc=b"") + callout(local, parts="fm") + \
            callout(local, parts="p")
        data = be(0xC0, 1) + b"\0" + be((4 + len(body)) // 4 + (1 if len(body) % 4 else 0), 2) + body
        run_section("section/mru/%d" % i, data, "X", True)


class FakeRegistryEntries:
    """Registries (and malformed ones) for getErrorMessage."""
    SETS = {
        "good": REGISTRY["PELs"],
        "empty": [],
        "src-int": [{"SRC": 5}],
        "src-list": [{"SRC": ["ReasonCode"]}],
        "reason-int": [{"SRC": {"ReasonCode": 5}, "Documentation": {"Message": "m"}}],
        "reason-list": [{"SRC": {"ReasonCode": ["0x2030"]},
                         "Documentation": {"Message": "list", "MessageArgSources": []}}],
        "doc-none": [{"SRC": {"ReasonCode": "0x2030"}, "Documentation": None}],
        "doc-list": [{"SRC": {"ReasonCode": "0x2030"}, "Documentation": ["Message"]}],
        "words-false": [{"SRC": {"ReasonCode": "0x2030", "Words6To9": 0},
                         "Documentation": {"Message": "m", "MessageArgSources": None}}],
        "words-list": [{"SRC": {"ReasonCode": "0x2030", "Words6To9": ["6"]},
                        "Documentation": {"Message": "m"}}],
        "type-none": [{"SRC": {"ReasonCode": "0x2030", "Type": None},
                       "Documentation": {"Message": "m"}}],
        "not-dict": ["PEL"],
        "none-entry": [None],
        "no-src-last": REGISTRY["PELs"] + [{"Name": "a.b.NoSRC",
                                            "Documentation": {"Message": "reached last"}}],
        "late-bad": [{"SRC": {"ReasonCode": "0x9999"}, "Documentation": {}},
                     {"Documentation": {"Message": "no SRC"}}],
        "msg-int": [{"SRC": {"ReasonCode": "0x2030"},
                     "Documentation": {"Message": 5, "MessageArgSources": ["SRCWord6"]}}],
        "args-str": [{"SRC": {"ReasonCode": "0x2030"},
                      "Documentation": {"Message": "%1 %2", "MessageArgSources": "69"}}],
    }


def suite_registry(fake):
    """Registry look-ups and the SRC helpers that consume them."""
    import pel.peltool.registry as reg_mod
    import pel.peltool.src as src_mod
    from collections import OrderedDict
    codes = ["0x2030", "0x2031", "0x0403", "0x0010", "0x0011", "0x9999", "0x",
             "", "2030", "0x203", "0x203A", "0x203B", "x", "0X2030"]
    types = ["BD", "11", "BC", "", "B7", None]
    for name, pels in FakeRegistryEntries.SETS.items():
        reg = reg_mod.Registry.__new__(reg_mod.Registry)
        reg.pels = pels
        for code in codes:
            for src_type in types:
                snapshot = json.dumps(pels, sort_keys=True)
                observe("reg/%s/%s/%s" % (name, code, src_type),
                        lambda: reg.getErrorMessage(code, src_type),
                        lambda: json.dumps(pels, sort_keys=True) == snapshot)
        observe("reg/%s/fresh" % name,
                lambda: [reg.getErrorMessage("0x2030", "BD") is
                         reg.getErrorMessage("0x2030", "BD")])
    for env in [None, os.path.join(fake, "bad_registry.json"),
                os.path.join(fake, "broken_registry.json"),
                os.path.join(fake, "missing.json"), ""]:
        if env is None:
            os.environ.pop("FAKE_REGISTRY", None)
        else:
            os.environ["FAKE_REGISTRY"] = env
        observe("reg/construct/%s" % (os.path.basename(env) if env else env),
                lambda: describe(reg_mod.Registry().pels))
    os.environ.pop("FAKE_REGISTRY", None)
    observe("reg/loadJson/dir", lambda: reg_mod.Registry().loadJson(fake))

    details_list = [
        {}, {"Message": ""}, {"Message": "plain"},
        {"Message": "%1", "MessageArgSources": []},
        {"Message": "no args", "MessageArgSources": ["SRCWord6", "SRCWord7"]},
        {"Message": "%1 %2 %9 %0 %%1 %10", "MessageArgSources": ["SRCWord2", "SRCWord9", "SRCWord5",
                                                                 "SRCWord5", "SRCWord5", "SRCWord5",
                                                                 "SRCWord5", "SRCWord5", "SRCWord5"]},
        {"Message": "{} {1} {0}", "MessageArgSources": ["SRCWord3", "SRCWord4"]},
        {"Message": "{x}", "MessageArgSources": ["SRCWord3"]},
        {"Message": "%1", "MessageArgSources": ["SRCWord0"]},
        {"Message": "%1", "MessageArgSources": ["SRCWord1"]},
        {"Message": "%1", "MessageArgSources": [""]},
        {"Message": "%1", "MessageArgSources": [6]},
        {"Message": "%1", "MessageArgSources": None},
        {"Message": None, "MessageArgSources": ["SRCWord6"]},
        {"Message": "m", "Words6To9": {}},
        {"Message": "m", "Words6To9": None},
        {"Message": "m", "Words6To9": {"6": {}}},
        {"Message": "m", "Words6To9": {"6": {"Description": "d"}}},
        {"Message": "m", "Words6To9": {"6": {"Description": "d", "AdditionalDataPropSource": "A"},
                                       "9": {"Description": "e", "AdditionalDataPropSource": "A"},
                                       "8": {"AdditionalDataPropSource": "skipped"}}},
        {"Message": "m", "Words6To9": {"x": {"Description": "d"}}},
        {"Message": "m", "Words6To9": {"x": {"AdditionalDataPropSource": "A"}}},
        {"Message": "m", "Words6To9": {"10": {"Description": "d", "AdditionalDataPropSource": "A"}}},
        {"Message": "m", "Words6To9": {"11": {"Description": "d"}}},
        {"Message": "m", "Words6To9": {"6": "Description"}},
        {"Message": "m", "Words6To9": {"6": 5}},
        {"Message": "m", "Words6To9": [1]},
        {"Message": "m", "Words6To9": {"7": {"Description": "d", "AdditionalDataPropSource": "Message"}}},
        {"Words6To9": {"6": {"Description": "d", "AdditionalDataPropSource": "A"}}},
    ]
    for i, details in enumerate(details_list):
        for hexdata in ([10, 11, 12, 13, 14, 15, 16, 17], [], [1, 2, 3]):
            obj = src_mod.SRC(stream_of(b""), 0x5053, 0, 1, 1, 0x2000, "O")
            obj.hexData = list(hexdata)
            observe("reg/msg/%d/%d" % (i, len(hexdata)), lambda: obj.buildMessage(details))
            observe("reg/desc/%d/%d" % (i, len(hexdata)), lambda: obj.buildHexwordDescs(details))
    saved = src_mod.registry.pels
    for name, pels in FakeRegistryEntries.SETS.items():
        src_mod.registry.pels = pels
        for code in ["2030", "2031", "2032", "2033", "2034", "2035", "2037",
                     "2038", "2039", "203A", "203B", "0403", "0404", "0010", "", "ZZZZ"]:
            for src_type in ["BD", "11", "BC"]:
                obj = src_mod.SRC(stream_of(b""), 0x5053, 0, 1, 1, 0x2000, "O")
                obj.hexData = [0xE0, 0x10, 0, 0x23000000, 6, 7, 8, 9]
                out = OrderedDict(Before=True)
                observe("reg/details/%s/%s/%s" % (name, code, src_type),
                        lambda: (obj.getErrorDetails(out, code, src_type), out)[1])
    src_mod.registry.pels = saved


def suite_compid(fake):
    """Component id display names, including the lazy file loading."""
    import pel.peltool.comp_id as comp_mod

    def state():
        return {"attempted": comp_mod.attemptedToParseCompIDs,
                "ids": describe(comp_mod.componentIDs),
                "root": comp_mod.pelConfigRootPath}
    observe("comp/initial", state)
    values = [0, 1, 0x41, 0x4100, 0x4142, 0x1000, 0x2000, 0xE500, 0xAB, 0xFFFF,
              0x0100, 0x7A7A, 0x10000, 0x414243, -1, 0x20, 0x2041]
    creators = ["H", "O", "B", "L", "odd", "", "X", "h", "C", "T", "M"]
    for creator in creators:
        for value in values:
            observe("comp/%s/%x" % (creator, value),
                    lambda: comp_mod.getDisplayCompID(value, creator), state)
    observe("comp/again", comp_mod.getAllCreatorsCompIDs, state)
    comp_mod.attemptedToParseCompIDs = False
    observe("comp/reload", comp_mod.getAllCreatorsCompIDs, state)
    comp_mod.componentIDs.clear()
    comp_mod.attemptedToParseCompIDs = False
    observe("comp/cleared", lambda: comp_mod.getDisplayCompID(0x1000, "O"), state)
    # a BMC-like root directory
    for root in [os.path.join(fake, "pel_registry"), os.path.join(fake, "plugins"),
                 os.path.join(fake, "bad_registry.json")]:
        comp_mod.componentIDs.clear()
        comp_mod.attemptedToParseCompIDs = False
        comp_mod.pelConfigRootPath = root
        observe("comp/root/%s" % os.path.basename(root),
                lambda: [comp_mod.getDisplayCompID(v, c) for c in ("O", "B", "L")
                         for v in (0x1000, 0x2000, 0x0100)], state)
    broken = os.path.join(fake, "brokenids")
    os.makedirs(broken, exist_ok=True)
    with open(os.path.join(broken, "A_component_ids.json"), "w") as fd:
        fd.write('{"1000": "a"}')
    with open(os.path.join(broken, "Q_component_ids.json"), "w") as fd:
        fd.write('{"1000": ')
    comp_mod.componentIDs.clear()
    comp_mod.attemptedToParseCompIDs = False
    comp_mod.pelConfigRootPath = broken
    observe("comp/broken/1", lambda: comp_mod.getDisplayCompID(0x1000, "A"), state)
    observe("comp/broken/2", lambda: comp_mod.getDisplayCompID(0x1000, "A"), state)
    observe("comp/unhashable", lambda: comp_mod.getDisplayCompID(0x1000, ["O"]))
    observe("comp/strvalue", lambda: comp_mod.getDisplayCompID("1000", "O"))


def suite_tables(fake):
    """The value tables and enums, as data."""
    import enum
    import pel.peltool.pel_types as types_mod
    import pel.peltool.pel_values as values_mod
    for name in sorted(vars(values_mod)):
        value = getattr(values_mod, name)
        if name.startswith("__") or isinstance(value, type(os)):
            continue
        if isinstance(value, dict):
            observe("tables/values/%s" % name,
                    lambda: [type(value).__name__,
                             [[type(k).__name__, k, type(v).__name__, v]
                              for k, v in value.items()]])
    observe("tables/values/names",
            lambda: sorted(n for n, v in vars(values_mod).items()
                           if isinstance(v, dict) and not n.startswith("__")))
    for name in sorted(vars(types_mod)):
        value = getattr(types_mod, name)
        if isinstance(value, type) and issubclass(value, enum.Enum) and value.__module__ == types_mod.__name__:
            observe("tables/types/%s" % name,
                    lambda: [[b.__name__ for b in value.__mro__ if b.__module__ in ("enum", "builtins")],
                             [[m.name, type(m.value).__name__, m.value, repr(m), str(m),
                               m == m.value, hash(m) == hash(m.name)] for m in value],
                             list(value.__members__)])
    observe("tables/types/lookups",
            lambda: [types_mod.SectionID(0x5053).name, types_mod.SRCType("BD").name,
                     types_mod.SeverityValues(0x51).name,
                     types_mod.TransmissionState(3).name,
                     types_mod.ActionFlagsValues(0x8000).name])
    for bad in (0x9999, "PS", None):
        observe("tables/types/bad/%r" % (bad,), lambda: types_mod.SectionID(bad))
    observe("tables/types/badsrc", lambda: types_mod.SRCType("ZZ"))


def suite_full(fake):
    """Whole PELs through parsePEL / parsePELSummary, many in one process."""
    import pel.peltool.peltool as tool
    import pel.peltool.src as src_mod
    extend_plugin_paths(fake)
    rng = random.Random(99)
    creators = ["O", "O", "B", "X", "H", "E", "N", "M", "K"]
    for i in range(230):
        creator = rng.choice(creators)
        data = full_pel(rng, creator=creator,
                        sev=rng.choice([0x40, 0x00, 0x51, 0x20]),
                        action=rng.choice([0xA000, 0x8000, 0x4000, 0x2000, 0]),
                        count_delta=rng.choice([0, 0, 0, 0, 1, -1]),
                        comp=rng.choice([0x2000, 0x1000, 0x4142, 0xE500]))
        if i % 3 == 2:
            data = mutate(rng, data)
        config = make_config(rng.random() < 0.75, every_pel=(rng.random() < 0.8),
                             serviceable=True)
        stream = stream_of(data)
        observe("full/pel/%d" % i, lambda: tool.parsePEL(stream, config, False),
                lambda: {"index": stream.index, "caches": cache_state(src_mod)})
        stream2 = stream_of(data)
        observe("full/summary/%d" % i, lambda: tool.parsePELSummary(stream2, config),
                lambda: stream2.index)


SUITES = {"src": suite_src, "callout": suite_callout, "registry": suite_registry,
          "compid": suite_compid, "tables": suite_tables, "full": suite_full}


def driver_main(argv):
    suite, fake, out_path = argv
    try:
        SUITES[suite](fake)
    finally:
        with open(out_path, "w") as fd:
            json.dump(RESULTS, fd)


# --------------------------------------------------------------------------
# parent side
# --------------------------------------------------------------------------

def run_driver(root, suite, fake, with_registry, optimize, workdir):
    env = dict(os.environ)
    paths = [os.path.join(root, "modules")]
    if with_registry:
        paths.append(fake)
    env["PYTHONPATH"] = os.pathsep.join(paths)
    env["PYTHONHASHSEED"] = "0"
    env["PYTHONDONTWRITEBYTECODE"] = "1"
    env.pop("FAKE_REGISTRY", None)
    out_path = os.path.join(workdir, "result.json")
    if os.path.exists(out_path):
        os.remove(out_path)
    cmd = [sys.executable] + (["-O"] if optimize else []) + \
        [HERE, "--driver", suite, fake, out_path]
    proc = subprocess.run(cmd, env=env, cwd=workdir, stdout=subprocess.PIPE,
                          stderr=subprocess.PIPE, timeout=900)
    with open(out_path) as fd:
        records = json.load(fd)
    tail = {"id": "%s/<process>" % suite, "rc": proc.returncode,
            "stdout": proc.stdout.decode("utf-8", "replace"),
            "stderr": scrub(proc.stderr.decode("utf-8", "replace"), root)}
    return records + [tail]


def scrub(text_value, root):
    return text_value.replace(root, "<ROOT>")


def cli_cases(fake, workdir):
    """(name, argv tail, needs fresh copy of the PEL directory)"""
    rng = random.Random(2024)
    pel_dir = os.path.join(workdir, "pels_master")
    os.makedirs(pel_dir, exist_ok=True)
    names = []
    for i in range(36):
        creator = rng.choice(["O", "O", "B", "H", "M"])
        data = full_pel(rng, creator=creator, sev=rng.choice([0x40, 0x00, 0x51]),
                        action=rng.choice([0xA000, 0x8000, 0x4000]),
                        comp=rng.choice([0x2000, 0x1000, 0x4142]))
        if i % 4 == 3:
            data = mutate(rng, data)
        name = "%08X_%02d%s" % (0x50000000 + i, i, ".pel" if i % 2 else "")
        with open(os.path.join(pel_dir, name), "wb") as fd:
            fd.write(data)
        names.append(name)
    with open(os.path.join(workdir, "exclude.txt"), "w") as fd:
        fd.write("BD8D2030\nBC8A0403\n")
    cases = []
    for name in names[:14]:
        for extra in ([], ["-P"], ["-x"]):
            cases.append(("file/%s/%s" % (name, "".join(extra)),
                          ["-f", os.path.join("pels", name)] + extra))
    for opts in (["-l"], ["-l", "-E"], ["-l", "-E", "-r"], ["-l", "-N", "-H"],
                 ["-a", "-E"], ["-a", "-E", "-P"], ["-a"], ["-n", "-E"], ["-n"],
                 ["-l", "-E", "-e", ".pel"], ["-l", "-E", "-x"],
                 ["--src", "BD8D"], ["--src", "BC8A0403", "-E"],
                 ["--src-exclude", "exclude.txt", "-E"], ["--plid", "0x50000003"],
                 ["-i", "50000005"], ["--bmc-id", "17"],
                 ["-j", "-E", "-o", "out"], ["-j", "-o", "out", "-c", "-P"],
                 ["-l", "-S", "Unrecoverable", "-O"], ["-a", "-t"]):
        cases.append(("dir/%s" % " ".join(opts), ["-p", "pels"] + opts))
    return pel_dir, cases


def run_cli(root, fake, with_registry, optimize, workdir, pel_dir, argv_tail):
    env = dict(os.environ)
    paths = [os.path.join(root, "modules")]
    if with_registry:
        paths.append(fake)
    env["PYTHONPATH"] = os.pathsep.join(paths)
    env["PYTHONHASHSEED"] = "0"
    env["PYTHONDONTWRITEBYTECODE"] = "1"
    env.pop("FAKE_REGISTRY", None)
    run_dir = os.path.join(workdir, "cli_run")
    if os.path.exists(run_dir):
        shutil.rmtree(run_dir)
    os.makedirs(os.path.join(run_dir, "out"))
    shutil.copytree(pel_dir, os.path.join(run_dir, "pels"))
    shutil.copy(os.path.join(workdir, "exclude.txt"), run_dir)
    tool = os.path.join(root, "modules", "pel", "peltool", "peltool.py")
    cmd = [sys.executable] + (["-O"] if optimize else []) + [tool] + argv_tail
    proc = subprocess.run(cmd, env=env, cwd=run_dir, stdout=subprocess.PIPE,
                          stderr=subprocess.PIPE, timeout=300)
    files = {}
    for base, _, found in os.walk(run_dir):
        for name in found:
            path = os.path.join(base, name)
            with open(path, "rb") as fd:
                files[os.path.relpath(path, run_dir)] = fd.read().hex()
    return {"rc": proc.returncode, "stdout": proc.stdout.hex(),
            "stderr": scrub(proc.stderr.decode("utf-8", "replace"), root),
            "files": sorted(files.items())}


def main(argv):
    if len(argv) >= 2 and argv[1] == "--driver":
        driver_main(argv[2:])
        return 0
    if len(argv) != 3:
        print(__doc__)
        return 2
    pristine, patched = (os.path.abspath(p) for p in argv[1:3])
    workdir = tempfile.mkdtemp(prefix="diffcheck_")
    fake = os.path.join(workdir, "fake")
    write_fake_env(fake)
    total = 0
    differences = []
    try:
        variants = [(True, False), (False, False), (True, True)]
        for suite in SUITES:
            for with_registry, optimize in variants:
                if suite == "tables" and not with_registry:
                    continue
                label = "%s[reg=%d,O=%d]" % (suite, with_registry, optimize)
                left = run_driver(pristine, suite, fake, with_registry, optimize, workdir)
                right = run_driver(patched, suite, fake, with_registry, optimize, workdir)
                if len(left) != len(right):
                    differences.append((label, "number of records", len(left), len(right)))
                for a, b in zip(left, right):
                    total += 1
                    if a != b:
                        differences.append((label, a.get("id"), a, b))
        pel_dir, cases = cli_cases(fake, workdir)
        for with_registry, optimize in [(True, False), (False, True)]:
            for name, tail in cases:
                if not with_registry and not name.startswith("dir/"):
                    continue
                left = run_cli(pristine, fake, with_registry, optimize, workdir, pel_dir, tail)
                right = run_cli(patched, fake, with_registry, optimize, workdir, pel_dir, tail)
                total += 1
                if left != right:
                    differences.append(("cli[reg=%d,O=%d]" % (with_registry, optimize),
                                        name, left, right))
    finally:
        shutil.rmtree(workdir, ignore_errors=True)
    if differences:
        for label, case_id, a, b in differences[:15]:
            print("DIFFERENT %s %s" % (label, case_id))
            print("   pristine: %s" % (json.dumps(a)[:1500],))
            print("   patched : %s" % (json.dumps(b)[:1500],))
        print("DIFFERENT (%d of %d cases)" % (len(differences), total))
        return 1
    print("IDENTICAL (%d cases)" % total)
    return 0


if __name__ == "__main__":
    sys.exit(main(sys.argv))
