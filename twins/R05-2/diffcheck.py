#!/usr/bin/env python3
"""
Differential check for refactorings of modules/pel/peltool/src.py and
modules/pel/peltool/registry.py.

usage: diffcheck.py <pristine_root> <patched_root>

The script
  * generates a deterministic corpus of SRC section bodies, callout
    structures and complete PEL files (well-formed, truncated, corrupted,
    random),
  * generates fake 'pel_registry' packages (good / weird / absent) and fake
    SRC / callout parser plugins,
  * runs an in-process driver (one subprocess per root / registry / python -O
    combination, PYTHONPATH pointing at the root under test) that exercises
    the classes and functions directly and records results, exceptions,
    stdout, stderr, stream positions, object attributes and plugin caches,
  * runs the peltool CLI in many option combinations and records stdout,
    stderr, exit status and the files created / removed,
and compares everything between the two roots.

Exit 0 and "IDENTICAL (<n> cases)" if there is no difference, exit 1 otherwise.
"""
import json
import os
import random
import shutil
import struct
import subprocess
import sys
import tempfile

PY = sys.executable
HERE = os.path.dirname(os.path.abspath(__file__))

# --------------------------------------------------------------------------
# binary builders
# --------------------------------------------------------------------------


def pad(text, size):
    raw = text if isinstance(text, bytes) else text.encode()
    return raw[:size] + b"\0" * (size - len(raw[:size]))


def fru_identity(flags, pn=b"PARTNUM", ccin=b"CCIN", sn=b"SERIALNUMBER",
                 size=None, force=None):
    body = b""
    if flags & 0x0A:
        body += pad(pn, 8)
    if flags & 0x04:
        body += pad(ccin, 4)
    if flags & 0x01:
        body += pad(sn, 12)
    if force is not None:
        body = force
    total = 4 + len(body)
    return b"ID" + bytes([(size if size is not None else total) & 0xFF,
                          flags & 0xFF]) + body


def pce_identity(mtm=b"9105-22A", sn=b"SN1234567", name=b"pcename\0",
                 size=None, flags=0):
    body = pad(mtm, 8) + pad(sn, 12) + name
    total = 4 + len(body)
    return b"PE" + bytes([(size if size is not None else total) & 0xFF,
                          flags & 0xFF]) + body


def mru(ids, size=None, flags=None, reserved=0):
    body = struct.pack(">I", reserved)
    for prio, ident in ids:
        body += struct.pack(">II", prio, ident)
    total = 4 + len(body)
    return b"MR" + bytes([(size if size is not None else total) & 0xFF,
                          (flags if flags is not None else len(ids)) & 0xFF]
                         ) + body


def callout(parts, loc=b"U78DA.ND0.1234567-P0", priority=0x48, flags=0,
            size=None, locsize=None):
    locraw = loc
    if locraw and len(locraw) % 4:
        locraw = locraw + b"\0" * (4 - len(locraw) % 4)
    body = b"".join(parts)
    total = 4 + len(locraw) + len(body)
    return bytes([(size if size is not None else total) & 0xFF, flags & 0xFF,
                  priority & 0xFF,
                  (locsize if locsize is not None else len(locraw)) & 0xFF]
                 ) + locraw + body


def callout_section(callouts, wordlen=None, ident=0xC0, flags=0):
    body = b"".join(callouts)
    total = 4 + len(body)
    if wordlen is None:
        wordlen = (total + 3) // 4
    return bytes([ident, flags]) + struct.pack(">H", wordlen & 0xFFFF) + body


def src_body(ascii_str="BD8D1234", flags=0, words=None, wordcount=9,
             version=2, callouts=b"", size=None, rawascii=None):
    if words is None:
        words = [0x00000055, 0x2ABC0010, 0x11111111, 0x22000000,
                 0xDEADBEEF, 0x00C0FFEE, 0x12345678, 0x9ABCDEF0]
    asc = rawascii if rawascii is not None else pad(
        ascii_str + " " * (32 - len(ascii_str)), 32)
    total = 8 + 32 + 32 + len(callouts)
    out = bytes([version & 0xFF, flags & 0xFF, 0, wordcount & 0xFF]) + \
        b"\0\0" + struct.pack(">H", (size if size is not None else total)
                              & 0xFFFF)
    for w in words:
        out += struct.pack(">I", w & 0xFFFFFFFF)
    return out + asc + callouts


def section(ident, body, version=1, subtype=0, compid=0x2000, length=None):
    total = 8 + len(body)
    return ident + struct.pack(">HBBH", (length if length is not None
                                          else total) & 0xFFFF,
                               version, subtype, compid) + body


def private_header(creator=b"O", nsections=3, plid=0x50000123, eid=0x50000123,
                   obmc=17):
    ts = bytes([0x20, 0x24, 0x03, 0x08, 0x18, 0x40, 0x27, 0x11])
    body = ts + ts + creator + b"\0\0" + bytes([nsections & 0xFF]) + \
        struct.pack(">I", obmc) + b"\0" * 8 + struct.pack(">II", plid, eid)
    return section(b"PH", body, compid=0x2000)


def user_header(severity=0x40, action=0xA000, subsystem=0x10):
    body = bytes([subsystem, 0x03, severity, 0x00]) + b"\0" * 4 + \
        bytes([0, 0]) + struct.pack(">H", action) + struct.pack(">I", 0)
    return section(b"UH", body)


def pel(src_bodies, creator=b"O", extra=b"", severity=0x40, action=0xA000,
        eid=0x50000123, nsections=None):
    secs = b""
    for i, body in enumerate(src_bodies):
        secs += section(b"PS" if i == 0 else b"SS", body, compid=0xBD00)
    n = 2 + len(src_bodies) + (1 if extra else 0)
    return private_header(creator, n if nsections is None else nsections,
                          plid=eid, eid=eid) + \
        user_header(severity, action) + secs + extra


# --------------------------------------------------------------------------
# corpus
# --------------------------------------------------------------------------

FRU_FLAG_SETS = [0x00, 0x01, 0x02, 0x04, 0x08, 0x0A, 0x0C, 0x0F, 0x1D, 0x2B,
                 0x46, 0x9F, 0xE3, 0xC8, 0xF0, 0xFF]
PRIORITIES = [0x48, 0x4D, 0x41, 0x42, 0x43, 0x4C, 0x00, 0x7A]
PROCS = [b"BMC0001", b"BMC0008", b"BMC9999", b"", b"PROC\0\0X", b"\0\0\0\0\0\0\0\0"]
ASCIIS = ["BD8D1234", "BD8D2000", "BD8D2001", "BD8D2002", "BD8D2003",
          "BD8D2004", "BD8D2005", "BD8D2006", "BD8D2007", "BD8D2008",
          "BD8D2009", "BD8D200A", "BD8D200B", "BD8D3000", "BD8D3001",
          "11002000", "11003000", "11007777", "BC8A2000", "BC8A3000",
          "BC701234", "BDE50010", "BDE50020", "B7001111", "        ",
          "A1", "", "bd8d2000", "BD8Dabcd", "BD\0\0\0\0\0\0"]
ASCIIS_OK = ["BD8D1234", "BD8D2000", "BD8D2001", "BD8D2002", "BD8D2005",
             "BD8D2006", "BD8D2008", "11002000", "BC8A2000", "B7001111",
             "BDE50010", "BD8D2004"]
CREATORS_OK = ["O", "O", "x", "x", "p", "g", "n", "m", "B", "j", "r", "a",
               "e", "v"]
CREATORS = ["O", "B", "H", "x", "X", "n", "m", "r", "j", "p", "a", "q", "e",
            "v", "s", "k", "g", "T", "", "é", "ab"]


def rnd_callout(rng):
    parts = []
    kinds = rng.choice([["fru"], ["fru", "pce"], ["fru", "mru"],
                        ["fru", "pce", "mru"], ["pce"], ["mru"], [],
                        ["mru", "fru"], ["mru", "pce", "fru"]] * 4 +
                       [["pce", "fru", "fru"], ["fru", "junk"], ["junk"],
                        ["fru", "mru", "mru"]])
    for k in kinds:
        if k == "fru":
            fl = rng.choice(FRU_FLAG_SETS)
            parts.append(fru_identity(
                fl, pn=rng.choice(PROCS + [b"01AB234", b"PN\xff\xfe"]),
                ccin=rng.choice([b"2E2D", b"\0\0\0\0", b"AB"]),
                sn=rng.choice([b"YA1934567890", b"", b"SN"])))
        elif k == "pce":
            parts.append(pce_identity(
                mtm=rng.choice([b"9105-22A", b"", b"MT"]),
                sn=rng.choice([b"13E8CX1", b""]),
                name=rng.choice([b"pcename\0", b"n\0\0\0", b"\0\0\0\0",
                                 b"longer pce name here"] * 3 + [b""]),
                size=rng.choice([None] * 10 + [0, 10, 23, 24, 25, 60])))
        elif k == "mru":
            n = rng.choice([0, 1, 2, 3, 15])
            parts.append(mru([(rng.choice(PRIORITIES), rng.getrandbits(32))
                              for _ in range(n)],
                             flags=rng.choice([None] * 6 + [n | 0xF0,
                                                            n + 1, 0]),
                             size=rng.choice([None] * 6 + [0, 4])))
        else:
            parts.append(bytes(rng.getrandbits(8) for _ in range(6)))
    return callout(parts,
                   loc=rng.choice([b"U78DA.ND0.1234567-P0", b"", b"Ufcs-P0",
                                   b"\0\0\0\0", b"U\xc3\xa9-P1\0\0\0"] * 3
                                  + [b"U\xff-P1"]),
                   priority=rng.choice(PRIORITIES),
                   size=rng.choice([None] * 12 + [0, 4, 200]),
                   locsize=rng.choice([None] * 12 + [0, 3, 90]))


def mutate(rng, raw):
    raw = bytearray(raw)
    how = rng.randrange(5)
    if how == 0 and raw:
        del raw[rng.randrange(len(raw)):]
    elif how == 1 and raw:
        for _ in range(rng.randrange(1, 4)):
            raw[rng.randrange(len(raw))] = rng.getrandbits(8)
    elif how == 2 and raw:
        i = rng.randrange(len(raw))
        raw[i:i] = bytes(rng.getrandbits(8) for _ in range(rng.randrange(1, 5)))
    elif how == 3 and raw:
        i = rng.randrange(len(raw))
        raw[i] ^= 1 << rng.randrange(8)
    else:
        raw += bytes(rng.getrandbits(8) for _ in range(rng.randrange(1, 9)))
    return bytes(raw)


def build_corpus():
    rng = random.Random(20240521)
    struct_cases = []   # (class name, hex)
    src_cases = []      # dict(body, creator, plugins)

    # --- stand-alone structures
    for fl in range(0, 256, 1):
        if fl < 16 or fl in FRU_FLAG_SETS or fl % 37 == 0:
            struct_cases.append(("FRUIdentity", fru_identity(fl)))
            struct_cases.append(("FRUIdentity",
                                 fru_identity(fl, pn=b"\xff\xfeAB", sn=b"\x80")))
    full = fru_identity(0x0F)
    for cut in range(len(full) + 1):
        struct_cases.append(("FRUIdentity", full[:cut]))
    for size in [None, 0, 4, 23, 24, 25, 26, 40, 255]:
        for name in [b"", b"n", b"name\0\0\0\0", b"\xc3\xa9\0", b"\xff"]:
            struct_cases.append(("PCEIdentity", pce_identity(name=name,
                                                             size=size)))
    full = pce_identity()
    for cut in range(len(full) + 1):
        struct_cases.append(("PCEIdentity", full[:cut]))
    struct_cases.append(("PCEIdentity", pce_identity(mtm=b"\xff" * 8)))
    struct_cases.append(("PCEIdentity", pce_identity(sn=b"\xfe" * 12)))
    for n in range(0, 17):
        ids = [(0x48 + i, 0x00010000 + i) for i in range(n)]
        struct_cases.append(("MRU", mru(ids)))
        struct_cases.append(("MRU", mru(ids, flags=0xF0 | n)))
        struct_cases.append(("MRU", mru(ids[:max(0, n - 1)], flags=n)))
    full = mru([(1, 2), (3, 4)])
    for cut in range(len(full) + 1):
        struct_cases.append(("MRU", full[:cut]))

    base_callouts = []
    for fl in FRU_FLAG_SETS:
        base_callouts.append(callout([fru_identity(fl)]))
        base_callouts.append(callout([fru_identity(fl), pce_identity(),
                                      mru([(0x48, 0xAABBCCDD), (0x4C, 1)])]))
    base_callouts.append(callout([]))
    base_callouts.append(callout([fru_identity(0x02, pn=b"BMC0001")], loc=b""))
    base_callouts.append(callout([pce_identity(size=0)]))
    base_callouts.append(callout([pce_identity(size=10)]))
    base_callouts.append(callout([mru([], size=0)]))
    base_callouts.append(callout([mru([(1, 2)]), mru([(3, 4)]),
                                  fru_identity(0x08)]))
    base_callouts.append(callout([fru_identity(0x08), b"XX\x08\x00abcd"]))
    base_callouts.append(callout([fru_identity(0x08)], size=4))
    base_callouts.append(callout([fru_identity(0x08)], size=250))
    base_callouts.append(callout([fru_identity(0x08)], locsize=200))
    base_callouts.append(callout([fru_identity(0x08)], loc=b"\xff\xff\xff\xff"))
    for c in base_callouts:
        struct_cases.append(("Callout", c))
        struct_cases.append(("Callout", c + b"ID"))
        struct_cases.append(("Callout", c + b"I"))
    full = base_callouts[1]
    for cut in range(len(full) + 1):
        struct_cases.append(("Callout", full[:cut]))
    for _ in range(400):
        struct_cases.append(("Callout", rnd_callout(rng)))
    for _ in range(300):
        struct_cases.append(("Callout", mutate(rng, rnd_callout(rng))))
    for _ in range(150):
        cls = rng.choice(["FRUIdentity", "PCEIdentity", "MRU", "Callout"])
        struct_cases.append((cls, bytes(rng.getrandbits(8)
                                        for _ in range(rng.randrange(0, 60)))))

    # --- SRC section bodies
    def add_src(body, creator="O", plugins=True):
        src_cases.append({"body": body.hex(), "creator": creator,
                          "plugins": plugins})

    for asc in ASCIIS:
        for plugins in (True, False):
            add_src(src_body(asc), "O", plugins)
    for wc in list(range(0, 14)) + [0x40, 0xFF]:
        add_src(src_body("BD8D2000", wordcount=wc))
        add_src(src_body("BD8D2000", wordcount=wc), "x")
    for fl in [0x00, 0x01, 0x02, 0x04, 0x08, 0x10, 0x80, 0x94, 0xFF, 0xFE]:
        add_src(src_body("BD8D2001", flags=fl))
        add_src(src_body("BD8D2001", flags=fl,
                         callouts=callout_section(base_callouts[:3])))
    for w3 in [0, 0x20000000, 0x02000000, 0x01000000, 0x23000000, 0xFFFFFFFF]:
        words = [0x55, 0x2ABC0010, 0x1, w3, 5, 6, 7, 8]
        for asc in ("BD8D2002", "11002000", "BC8A2000", "B7001111"):
            add_src(src_body(asc, words=words))
    for creator in CREATORS:
        for plugins in (True, False):
            sect = callout_section([
                callout([fru_identity(0x02, pn=b"BMC0002")]),
                callout([fru_identity(0x0F, pn=b"PROCX")]),
                callout([fru_identity(0x08)])])
            add_src(src_body("BD8D2003", flags=0x01, callouts=sect),
                    creator, plugins)
            # again, to exercise the plugin caches
            add_src(src_body("BD8D2004", flags=0x01, callouts=sect),
                    creator, plugins)
            add_src(src_body("BC8A3000"), creator, plugins)
    for i in range(0, len(base_callouts), 3):
        sect = callout_section(base_callouts[i:i + 3])
        add_src(src_body("BD8D2005", flags=0x01, callouts=sect))
        add_src(src_body("BD8D2005", flags=0x01, callouts=sect), "x")
    for c in base_callouts:
        add_src(src_body("BD8D2006", flags=0x01,
                         callouts=callout_section([c])), "O", True)
        add_src(src_body("BD8D2006", flags=0x01,
                         callouts=callout_section([c])), "x", False)
    for wl in [0, 1, 2, 5, 100, 0xFFFF]:
        add_src(src_body("BD8D2007", flags=0x01,
                         callouts=callout_section(base_callouts[:2],
                                                  wordlen=wl)))
    add_src(src_body("BD8D2000", rawascii=b"\xff" * 32))
    add_src(src_body("BD8D2000", rawascii=b"BD8D\xc3\xa9" + b" " * 26))
    add_src(src_body("BD8D2000", rawascii=b"\0" * 32))
    add_src(src_body("BD8D2000", rawascii=b"BD8D2000" + b"\0" * 24))
    full = src_body("BD8D2001", flags=0x01,
                    callouts=callout_section(base_callouts[:2]))
    for cut in range(len(full) + 1):
        add_src(full[:cut], "O", cut % 2 == 0)
    for _ in range(500):
        n = rng.randrange(0, 5)
        sect = callout_section([rnd_callout(rng) for _ in range(n)],
                               wordlen=rng.choice([None, None, None, 0, 3,
                                                   300]))
        body = src_body(rng.choice(ASCIIS_OK * 4 + ASCIIS),
                        flags=rng.choice([0x01, 0x01, 0x81, 0x15, 0x00]),
                        words=[rng.getrandbits(32) for _ in range(8)],
                        wordcount=rng.choice([9, 9, 9, 2, 5, 1, 10]),
                        callouts=sect)
        add_src(body, rng.choice(CREATORS_OK * 3 + CREATORS),
                rng.random() < 0.7)
    for _ in range(400):
        n = rng.randrange(0, 4)
        sect = callout_section([rnd_callout(rng) for _ in range(n)])
        body = src_body(rng.choice(ASCIIS_OK * 4 + ASCIIS), flags=0x01,
                        words=[rng.getrandbits(32) for _ in range(8)],
                        callouts=sect)
        add_src(mutate(rng, body), rng.choice(CREATORS_OK * 3 + CREATORS),
                rng.random() < 0.7)
    for _ in range(100):
        add_src(bytes(rng.getrandbits(8)
                      for _ in range(rng.randrange(0, 200))),
                rng.choice(CREATORS), True)

    # --- complete PEL files
    pels = []
    good_sect = callout_section(base_callouts[:4])
    pels.append(pel([src_body("BD8D2000")]))
    pels.append(pel([src_body("BD8D2001", flags=0x01, callouts=good_sect)]))
    pels.append(pel([src_body("BD8D2002", flags=0x01, callouts=good_sect),
                     src_body("BD8D2003"),
                     src_body("11002000", flags=0x01,
                              callouts=callout_section(base_callouts[4:6]))]))
    pels.append(pel([src_body("BC8A2000")], creator=b"B"))
    pels.append(pel([src_body("BDE50010")]))
    pels.append(pel([src_body("BD8D2004", wordcount=12)]))
    pels.append(pel([src_body("BD8D2005", flags=0x01,
                              callouts=callout_section(
                                  [callout([pce_identity(size=10)])]))]))
    pels.append(pel([src_body("B7001111")], creator=b"H"))
    pels.append(pel([src_body("BD8D2006")], severity=0x00, action=0x0000))
    pels.append(pel([src_body("BD8D2007")], severity=0x40, action=0x6000))
    pels.append(pel([src_body("BD8D2008")],
                    extra=section(b"UD", b"some user data 123", compid=0x2000)))
    pels.append(pel([], extra=section(b"UD", b"no src here", compid=0x2000)))
    pels.append(pel([src_body("BD8D2009")], nsections=9))
    for creator in (b"x", b"r", b"j", b"e", b"\xff"):
        pels.append(pel([src_body("BD8D200A", flags=0x01,
                                  callouts=callout_section(
                                      [callout([fru_identity(0x02)])]))],
                        creator=creator))
    for _ in range(40):
        n = rng.randrange(0, 4)
        bodies = []
        for _ in range(rng.randrange(1, 3)):
            bodies.append(src_body(
                rng.choice(ASCIIS_OK * 4 + ASCIIS), flags=rng.choice([0x01, 0x01, 0x00, 0x81]),
                words=[rng.getrandbits(32) for _ in range(8)],
                wordcount=rng.choice([9, 9, 9, 3, 11]),
                callouts=callout_section([rnd_callout(rng)
                                          for _ in range(n)])))
        pels.append(pel(bodies, creator=rng.choice([b"O", b"O", b"B", b"H"])))
    whole = pels[2]
    for cut in range(0, len(whole), 7):
        pels.append(whole[:cut])
    for _ in range(60):
        pels.append(mutate(rng, rng.choice(pels[:50])))
    for _ in range(10):
        pels.append(bytes(rng.getrandbits(8)
                          for _ in range(rng.randrange(0, 300))))
    # unique entry ids keep the output file names apart
    out = []
    for i, raw in enumerate(pels):
        out.append(raw)
    return struct_cases, src_cases, out


# --------------------------------------------------------------------------
# fake registries
# --------------------------------------------------------------------------

GOOD_REGISTRY = {"PELs": [
    {"Name": "no.reason.code", "SRC": {"Words6To9": {}},
     "Documentation": {"Message": "never used"}},
    {"Name": "plain", "SRC": {"ReasonCode": "0x2000"},
     "Documentation": {"Message": "A plain message", "Description": "d"}},
    {"Name": "args", "SRC": {"ReasonCode": "0x2001", "Words6To9": {
        "6": {"Description": "word six", "AdditionalDataPropSource": "W6"},
        "7": {"AdditionalDataPropSource": "W7"},
        "9": {"Description": "word nine", "AdditionalDataPropSource": "W9"}}},
     "Documentation": {"Message": "Args %1 and %2",
                       "MessageArgSources": ["SRCWord6", "SRCWord9"]}},
    {"Name": "args.braces", "SRC": {"ReasonCode": "0x2002"},
     "Documentation": {"Message": "Value %1 end",
                       "MessageArgSources": ["SRCWord8"]}},
    {"Name": "too.few.args", "SRC": {"ReasonCode": "0x2003"},
     "Documentation": {"Message": "%1 %2 %3",
                       "MessageArgSources": ["SRCWord6"]}},
    {"Name": "power", "SRC": {"ReasonCode": "0x2000", "Type": "11",
                              "Words6To9": {"8": {
                                  "Description": "pwr",
                                  "AdditionalDataPropSource": "PWR"}}},
     "Documentation": {"Message": "A power message"}},
    {"Name": "hostboot", "SRC": {"ReasonCode": "0x2000", "Type": "BC"},
     "Documentation": {"Message": "A hostboot message %1",
                       "MessageArgSources": ["SRCWord3"]}},
    {"Name": "empty.message", "SRC": {"ReasonCode": "0x2004", "Words6To9": {
        "6": {"Description": "x", "AdditionalDataPropSource": "W6"}}},
     "Documentation": {"Message": ""}},
    {"Name": "empty.words", "SRC": {"ReasonCode": "0x2005", "Words6To9": {}},
     "Documentation": {"Message": "empty words",
                       "MessageArgSources": []}},
    {"Name": "dup.first", "SRC": {"ReasonCode": "0x2006"},
     "Documentation": {"Message": "first duplicate"}},
    {"Name": "dup.second", "SRC": {"ReasonCode": "0x2006"},
     "Documentation": {"Message": "second duplicate"}},
    {"Name": "substring", "SRC": {"ReasonCode": "0x20071"},
     "Documentation": {"Message": "substring match of 0x2007"}},
    {"Name": "word.order", "SRC": {"ReasonCode": "0x2008", "Words6To9": {
        "9": {"Description": "nine", "AdditionalDataPropSource": "N"},
        "6": {"Description": "six", "AdditionalDataPropSource": "S"},
        "8": {"Description": "eight", "AdditionalDataPropSource": "N"}}},
     "Documentation": {"Message": "ordering"}},
    {"Name": "bad.word.num", "SRC": {"ReasonCode": "0x2009", "Words6To9": {
        "12": {"Description": "oops", "AdditionalDataPropSource": "X"}}},
     "Documentation": {"Message": "bad word number"}},
    {"Name": "percent.zero", "SRC": {"ReasonCode": "0x200B"},
     "Documentation": {"Message": "zero %0 one %1 ten %10",
                       "MessageArgSources": ["SRCWord6", "SRCWord7",
                                             "SRCWord8"]}},
    {"Name": "bad.arg", "SRC": {"ReasonCode": "0x200A"},
     "Documentation": {"Message": "bad arg %1",
                       "MessageArgSources": ["SRCWordX"]}},
]}

WEIRD_REGISTRY = {"PELs": [
    {"Name": "list.reasoncode", "SRC": {"ReasonCode": ["0x2000", "0x2001"]},
     "Documentation": {"Message": "list reason code"}},
    {"Name": "no.doc.message", "SRC": {"ReasonCode": "0x2002"},
     "Documentation": {"MessageArgSources": ["SRCWord6"]}},
    {"Name": "no.doc", "SRC": {"ReasonCode": "0x2003"}},
    {"Name": "words.no.source", "SRC": {"ReasonCode": "0x2004", "Words6To9": {
        "6": {"Description": "x"}}},
     "Documentation": {"Message": "m"}},
    {"Name": "words.list", "SRC": {"ReasonCode": "0x2005",
                                   "Words6To9": ["a"]},
     "Documentation": {"Message": "m"}},
    {"Name": "message.braces", "SRC": {"ReasonCode": "0x2006"},
     "Documentation": {"Message": "bad { brace %1",
                       "MessageArgSources": ["SRCWord6"]}},
    {"Name": "message.int", "SRC": {"ReasonCode": "0x2007"},
     "Documentation": {"Message": 5, "MessageArgSources": ["SRCWord6"]}},
    {"Name": "args.null", "SRC": {"ReasonCode": "0x2008"},
     "Documentation": {"Message": "m %1", "MessageArgSources": None}},
    {"Name": "type.null", "SRC": {"ReasonCode": "0x2009", "Type": None},
     "Documentation": {"Message": "m"}},
    {"Name": "int.reason", "SRC": {"ReasonCode": 8192, "Type": "BC"},
     "Documentation": {"Message": "m"}},
    {"Name": "src.string", "SRC": "ReasonCode", "Documentation": {}},
    {"Name": "no.src"},
]}

REGISTRY_INIT = '''import os
def get_registry_path():
    return os.path.join(os.path.dirname(__file__), "message_registry.json")
'''


def make_registries(work):
    regs = {}
    for name, content in (("good", GOOD_REGISTRY), ("weird", WEIRD_REGISTRY)):
        d = os.path.join(work, "reg_" + name, "pel_registry")
        os.makedirs(d)
        with open(os.path.join(d, "__init__.py"), "w") as f:
            f.write(REGISTRY_INIT)
        with open(os.path.join(d, "message_registry.json"), "w") as f:
            json.dump(content, f)
        with open(os.path.join(d, "O_component_ids.json"), "w") as f:
            json.dump({"BD00": "bmc-state", "2000": "logging"}, f)
        regs[name] = os.path.dirname(d)
    # registry package whose get_registry_path points to a broken file
    d = os.path.join(work, "reg_broken", "pel_registry")
    os.makedirs(d)
    with open(os.path.join(d, "__init__.py"), "w") as f:
        f.write(REGISTRY_INIT)
    with open(os.path.join(d, "message_registry.json"), "w") as f:
        f.write('{"NotPELs": []}')
    regs["broken"] = os.path.dirname(d)
    regs["none"] = None
    return regs


# --------------------------------------------------------------------------
# in-process driver (executed in a subprocess per configuration)
# --------------------------------------------------------------------------

DRIVER = r'''
import contextlib, io, json, sys, types, importlib, importlib.abc, os, copy

corpus_path = sys.argv[1]
with open(corpus_path) as f:
    corpus = json.load(f)

results = []
calls = []


def rec(kind, ident, **kw):
    kw["kind"] = kind
    kw["id"] = ident
    results.append(kw)


class Capture:
    def __enter__(self):
        self.out, self.err = io.StringIO(), io.StringIO()
        self.cm1 = contextlib.redirect_stdout(self.out)
        self.cm2 = contextlib.redirect_stderr(self.err)
        self.cm1.__enter__()
        self.cm2.__enter__()
        return self

    def __exit__(self, *a):
        self.cm2.__exit__(*a)
        self.cm1.__exit__(*a)
        return False


def run(fn):
    res = {}
    with Capture() as cap:
        try:
            res["ret"] = fn()
        except BaseException as e:
            res["exc"] = [type(e).__name__, str(e), repr(getattr(e, "code", None))]
    res["stdout"] = cap.out.getvalue()
    res["stderr"] = cap.err.getvalue()
    return res


# ---- registry import (may fail for broken registries)
imp = run(lambda: importlib.import_module("pel.peltool.src") and None)
rec("import", "pel.peltool.src", **imp)
if "exc" in imp:
    # still exercise the Registry class directly
    reg = run(lambda: importlib.import_module("pel.peltool.registry") and None)
    rec("import", "pel.peltool.registry", **reg)
    json.dump({"results": results, "calls": calls}, sys.stdout)
    sys.exit(0)

from pel.datastream import DataStream
from pel.peltool import src as S
from pel.peltool import registry as R
from pel.peltool.config import Config

# ---- fake plugins ------------------------------------------------------


def fake(name, **attrs):
    mod = types.ModuleType(name)
    for k, v in attrs.items():
        setattr(mod, k, v)
    parts = name.split(".")
    for i in range(1, len(parts)):
        pkg = ".".join(parts[:i])
        if i > 1 and pkg not in sys.modules:
            sys.modules[pkg] = types.ModuleType(pkg)
    sys.modules[name] = mod


def echo_src(refcode, *words):
    calls.append(["x.parseSRCToJson", refcode, list(words)])
    return json.dumps({"refcode": refcode, "words": list(words)})


def echo_proc(proc):
    calls.append(["x.getMaintProcDesc", proc])
    return json.dumps(["desc for", proc])


def raiser(exc):
    def fn(*args):
        calls.append(["raise", exc.__name__, [str(a) for a in args]])
        raise exc("bad " + str(args[0]))
    return fn


def printer_src(refcode, *words):
    print("plugin stdout", refcode)
    print("plugin stderr", refcode, file=sys.stderr)
    return '{"a": 1}'


def printer_proc(proc):
    print("proc stdout", proc)
    print("proc stderr", proc, file=sys.stderr)
    return '{"b": [1, 2]}'


fake("srcparsers.xsrc.xsrc", parseSRCToJson=echo_src)
fake("calloutparsers.xcallouts.xcallouts", getMaintProcDesc=echo_proc)
fake("srcparsers.nsrc.nsrc", parseSRCToJson=lambda *a: "null")
fake("calloutparsers.ncallouts.ncallouts", getMaintProcDesc=lambda p: "")
fake("srcparsers.msrc.msrc", parseSRCToJson=lambda *a: "")
fake("calloutparsers.mcallouts.mcallouts", getMaintProcDesc=lambda p: None)
fake("srcparsers.rsrc.rsrc", parseSRCToJson=raiser(RuntimeError))
fake("calloutparsers.rcallouts.rcallouts", getMaintProcDesc=raiser(KeyError))
fake("srcparsers.jsrc.jsrc", parseSRCToJson=lambda *a: "{oops")
fake("calloutparsers.jcallouts.jcallouts", getMaintProcDesc=lambda p: "{oops")
fake("srcparsers.psrc.psrc", parseSRCToJson=printer_src)
fake("calloutparsers.pcallouts.pcallouts", getMaintProcDesc=printer_proc)
fake("srcparsers.asrc.asrc")
fake("calloutparsers.acallouts.acallouts")
fake("srcparsers.qsrc.qsrc", parseSRCToJson=raiser(SystemExit))
fake("calloutparsers.qcallouts.qcallouts", getMaintProcDesc=raiser(SystemExit))
fake("srcparsers.gsrc.gsrc", parseSRCToJson=lambda *a: "[1, 2.5, null, \"s\"]")
fake("calloutparsers.gcallouts.gcallouts", getMaintProcDesc=lambda p: "0")

FAILING = {"e": ImportError, "v": ValueError, "s": SystemExit,
           "k": KeyboardInterrupt}


class FailingFinder(importlib.abc.MetaPathFinder):
    def find_spec(self, fullname, path, target=None):
        parts = fullname.split(".")
        if len(parts) >= 2 and parts[0] in ("srcparsers", "calloutparsers"):
            letter = parts[1][0]
            if letter in FAILING and parts[1] in (letter + "src",
                                                  letter + "callouts"):
                calls.append(["find", fullname])
                raise FAILING[letter]("import of " + fullname + " failed")
        return None


sys.meta_path.insert(0, FailingFinder())

# ---- helpers -------------------------------------------------------------

KNOWN = ("FRUIdentity", "PCEIdentity", "MRU", "MRUCallout", "Callout")


def dump(obj):
    if obj is None or isinstance(obj, (int, str, float, bool)):
        return obj
    if isinstance(obj, (bytes, bytearray, memoryview)):
        return "bytes:" + bytes(obj).hex()
    if isinstance(obj, (list, tuple)):
        return [dump(o) for o in obj]
    if isinstance(obj, dict):
        return [[dump(k), dump(v)] for k, v in obj.items()]
    if type(obj).__name__ in KNOWN:
        return [type(obj).__name__,
                [[k, dump(v)] for k, v in vars(obj).items()]]
    if isinstance(obj, DataStream):
        return ["DataStream", obj.index]
    return "obj:" + type(obj).__name__


def caches():
    return [sorted([k, v is None] for k, v in S.calloutParsers.items()),
            sorted([k, v is None] for k, v in S.srcParsers.items())]


def mkstream(raw, mv=False):
    return DataStream(memoryview(raw) if mv else raw, byte_order="big",
                      is_signed=False)


# ---- stand-alone structures -----------------------------------------------

for i, (cls, hexdata) in enumerate(corpus["structs"]):
    raw = bytes.fromhex(hexdata)
    for mv in (False, True):
        stream = mkstream(raw, mv)
        holder = {}

        def fn():
            obj = getattr(S, cls)(stream)
            holder["obj"] = obj
            extra = None
            if cls == "Callout":
                extra = obj.flattenedSize()
            return [dump(obj), extra]
        res = run(fn)
        res["index"] = stream.index
        rec("struct", "%s/%d/%s" % (cls, i, mv), **res)

# ---- get_value ----------------------------------------------------------
for start in range(0, 6):
    for length in range(0, 5):
        rec("get_value", "%d/%d" % (start, length),
            **run(lambda: S.get_value(b"\x01\x02\x03\x04", start, length)))

# ---- SRC.toJSON -----------------------------------------------------------


def run_src(ident, case, section_id=0x5053):
    raw = bytes.fromhex(case["body"])
    stream = mkstream(raw)
    config = Config()
    config.allow_plugins = case["plugins"]
    ncalls = len(calls)
    holder = {}

    def fn():
        src = S.SRC(stream, section_id, 8 + len(raw), 1, 1, 0xBD00,
                    case["creator"])
        holder["src"] = src
        out = src.toJSON(config)
        return json.dumps(out)
    res = run(fn)
    res["index"] = stream.index
    src = holder.get("src")
    if src is not None:
        res["attrs"] = [[k, dump(v)] for k, v in vars(src).items()]
    res["caches"] = caches()
    res["calls"] = calls[ncalls:]
    rec("src", ident, **res)


for rounds in range(2):
    for i, case in enumerate(corpus["srcs"]):
        run_src("%d/%d" % (rounds, i), case)
    # forget what has been cached so far and go again (other cache history)
    if rounds == 0:
        saved = (dict(S.calloutParsers), dict(S.srcParsers))
        S.calloutParsers.clear()
        S.srcParsers.clear()
        corpus["srcs"].reverse()

# ---- direct method calls --------------------------------------------------


def new_src(creator="x", words=None, asc="BD8D2000"):
    src = S.SRC(mkstream(b"\0" * 4), 0x5053, 80, 1, 1, 0xBD00, creator)
    src.hexData = list(words if words is not None else
                       [0x55, 0x2ABC0010, 0x11, 0x22000000, 0xDEADBEEF,
                        0xC0FFEE, 0x12345678, 0x9ABCDEF0])
    src.asciiString = asc
    return src


DETAILS = [
    {}, {"Message": ""}, {"Message": "plain"},
    {"Message": "%1 and %2", "MessageArgSources": ["SRCWord6", "SRCWord7"]},
    {"Message": "%1 and %2", "MessageArgSources": ["SRCWord6"]},
    {"Message": "%1", "MessageArgSources": ["SRCWord2", "SRCWord9"]},
    {"Message": "%0 %1 %10 %%1 {} {0}", "MessageArgSources": ["SRCWord3"]},
    {"Message": "{", "MessageArgSources": []},
    {"Message": "{", },
    {"Message": "%1", "MessageArgSources": ["SRCWord1"]},
    {"Message": "%1", "MessageArgSources": ["SRCWord0"]},
    {"Message": "%1", "MessageArgSources": ["SRCWordX"]},
    {"Message": "%1", "MessageArgSources": [""]},
    {"Message": "%1", "MessageArgSources": [5]},
    {"Message": "%1", "MessageArgSources": None},
    {"Message": "%1", "MessageArgSources": "SRCWord6"},
    {"Message": 5, "MessageArgSources": ["SRCWord6"]},
    {"Message": None},
    {"MessageArgSources": ["SRCWord6"]},
    {"Message": "m", "Words6To9": {}},
    {"Message": "m", "Words6To9": None},
    {"Message": "m", "Words6To9": {"6": {"Description": "d",
                                         "AdditionalDataPropSource": "A"}}},
    {"Message": "m", "Words6To9": {"6": {"Description": "d"}}},
    {"Message": "m", "Words6To9": {"6": {"AdditionalDataPropSource": "A"}}},
    {"Message": "m", "Words6To9": {"9": {"Description": "d9",
                                         "AdditionalDataPropSource": "A"},
                                   "7": {"Description": "d7",
                                         "AdditionalDataPropSource": "A"},
                                   "8": {"Description": "d8",
                                         "AdditionalDataPropSource": "B"}}},
    {"Message": "m", "Words6To9": {"10": {"Description": "d",
                                          "AdditionalDataPropSource": "A"}}},
    {"Message": "m", "Words6To9": {"1": {"Description": "d",
                                         "AdditionalDataPropSource": "A"}}},
    {"Message": "m", "Words6To9": {"x": {"Description": "d",
                                         "AdditionalDataPropSource": "A"}}},
    {"Message": "m", "Words6To9": {"6": "Description"}},
    {"Message": "m", "Words6To9": {"6": None}},
    {"Message": "m", "Words6To9": ["6"]},
    {"Words6To9": {"6": {"Description": "d",
                         "AdditionalDataPropSource": "A"}}},
    {"Message": "%0 %1", "MessageArgSources": ["SRCWord3", "SRCWord4"]},
    {"Message": "%1 %9 %10 %a %", "MessageArgSources":
     ["SRCWord2", "SRCWord3", "SRCWord4", "SRCWord5"]},
    {"Message": "%%1 %11", "MessageArgSources":
     ["SRCWord9", "SRCWord8", "SRCWord7"]},
    {"Message": "%1\n%2", "MessageArgSources": ("SRCWord6", "SRCWord7")},
    # several problems at once: which one is reported?
    {"Message": "m", "Words6To9": {"12": {"Description": "d"}}},
    {"Message": "m", "Words6To9": {"x": {"Description": "d"}}},
    {"Message": "m", "Words6To9": {"x": {"AdditionalDataPropSource": "A"}}},
    {"Message": "m", "Words6To9": {"6": {"Description": "d",
                                         "AdditionalDataPropSource": "A"},
                                   "12": {"Description": "d"}}},
    {"Message": "m", "Words6To9": {"6": {"Description": "d",
                                         "AdditionalDataPropSource": ["l"]}}},
    {"Message": 5, "MessageArgSources": ["SRCWordX"]},
    {"Message": "{", "MessageArgSources": ["SRCWord12"]},
    {"Message": "%1 %2", "MessageArgSources": ["SRCWord6", "SRCWordX"]},
    {"Message": "%1 {0} {}", "MessageArgSources": ["SRCWord6", "SRCWord7"]},
    {"Message": "%1 {x}", "MessageArgSources": ["SRCWord6"]},
    {"Message": b"%1", "MessageArgSources": ["SRCWord6"]},
    {"Message": "", "MessageArgSources": ["SRCWordX"]},
    {"Message": "", "Words6To9": {"x": {"Description": "d"}}},
    {"Message": "m", "Words6To9": 5},
    {"Message": "m", "Words6To9": "str"},
]

for i, details in enumerate(DETAILS):
    for words in (None, [1, 2, 3], []):
        src = new_src(words=words)
        d1 = copy.deepcopy(details)
        res = run(lambda: src.buildMessage(d1))
        res["details_after"] = dump(d1)
        rec("buildMessage", "%d/%r" % (i, words), **res)
        d2 = copy.deepcopy(details)
        res = run(lambda: dump(src.buildHexwordDescs(d2)))
        res["details_after"] = dump(d2)
        rec("buildHexwordDescs", "%d/%r" % (i, words), **res)

CODES = ["2000", "2001", "2002", "2003", "2004", "2005", "2006", "2007",
         "2008", "2009", "200A", "200a", "200B", "3000", "", "20", "0x2000", "1234"]
TYPES = ["BD", "11", "BC", "B7", "", "bd", None]


def fresh_registry_with(pels):
    reg = R.Registry()
    reg.pels = pels
    return reg


for code in CODES:
    for srcType in TYPES:
        for words in (None, [1, 2, 3]):
            src = new_src(words=words)
            out = {}

            def fn():
                r = src.getErrorDetails(out, code, srcType)
                return [dump(r), json.dumps(out)]
            res = run(fn)
            res["out"] = dump(out)
            rec("getErrorDetails", "%s/%s/%r" % (code, srcType, words), **res)
        rec("getErrorMessage", "%s/%s" % (code, srcType),
            **run(lambda: dump(S.registry.getErrorMessage("0x" + code,
                                                          srcType))))
        rec("getErrorMessage.raw", "%s/%s" % (code, srcType),
            **run(lambda: dump(S.registry.getErrorMessage(code, srcType))))

rec("registry.pels", "module", ret=dump(S.registry.pels))
rec("registry.new", "fresh", **run(lambda: dump(R.Registry().pels)))
rec("registry.same", "fresh",
    **run(lambda: R.Registry().pels is R.Registry().pels))

# the result of getErrorMessage must be a fresh dict on each call
def fresh_check():
    a = S.registry.getErrorMessage("0x2001", "BD")
    b = S.registry.getErrorMessage("0x2001", "BD")
    a["Message"] = "changed"
    c = S.registry.getErrorMessage("0x2001", "BD")
    shared = False
    if "Words6To9" in a:
        shared = a["Words6To9"] is c["Words6To9"]
    return [a is b, dump(c), shared]
rec("registry.fresh", "x", **run(fresh_check))

MALFORMED_PELS = [
    [], [{}], [{"SRC": {}}], [{"SRC": []}], [{"SRC": "ReasonCode"}],
    [{"SRC": None}], [None], ["SRC"], [5],
    [{"SRC": {"ReasonCode": "0x2000"}}],
    [{"SRC": {"ReasonCode": "0x2000"}, "Documentation": {}}],
    [{"SRC": {"ReasonCode": "0x2000"}, "Documentation": None}],
    [{"SRC": {"ReasonCode": None}, "Documentation": {"Message": "m"}}],
    [{"SRC": {"ReasonCode": 8192}, "Documentation": {"Message": "m"}}],
    [{"SRC": {"ReasonCode": ["0x2000"]}, "Documentation": {"Message": "m"}}],
    [{"SRC": {"ReasonCode": {"0x2000": 1}},
      "Documentation": {"Message": "m"}}],
    [{"SRC": {"ReasonCode": "0x2000", "Type": None},
      "Documentation": {"Message": "m"}}],
    [{"SRC": {"ReasonCode": "0x2000", "Type": "BD", "Words6To9": 0},
      "Documentation": {"Message": "m", "MessageArgSources": 0}}],
    [{"SRC": {"ReasonCode": "0x2000", "Words6To9": {"6": {}}},
      "Documentation": {"Message": "m", "MessageArgSources": []}}],
    [{"SRC": {"ReasonCode": "0x2000"}, "Documentation": ["Message"]}],
    [{"SRC": {"ReasonCode": "0x2000"}, "Documentation": "Message"}],
    [{"SRC": {"ReasonCode": "0x1000"}, "Documentation": {}},
     {"SRC": {"ReasonCode": "0x2000"}, "Documentation": {"Message": "2nd"}},
     {"SRC": {"ReasonCode": "0x2000"}, "Documentation": {"Message": "3rd"}}],
    [{"SRC": {"ReasonCode": "0x2000", "Type": "11"},
      "Documentation": {"Message": "power"}},
     {"SRC": {}}, {"SRC": {"ReasonCode": "0x2000"}}],
    [{"SRC": {"ReasonCode": "0x2000", "Words6To9": {"6": {}}},
      "Documentation": {"MessageArgSources": ["a"]}}],
    [{"SRC": {"ReasonCode": "0x2000", "Type": "BD", "Words6To9": []},
      "Documentation": {"Message": None, "MessageArgSources": None}}],
    [{"SRC": {"Type": "11"}, "Documentation": {"Message": "no reason"}},
     {"SRC": {"ReasonCode": "0x2000", "Type": "11"}}],
    [{"SRC": {"ReasonCode": "0x2000"},
      "Documentation": {"Message": "m", "MessageArgSources": ["SRCWord6"],
                        "Description": "x"}, "Other": 1}],
    {"SRC": {"ReasonCode": "0x2000"}}, "PELs", None, 7,
]

for i, pels in enumerate(MALFORMED_PELS):
    for code, srcType in (("0x2000", "BD"), ("0x2000", "11"), ("0x3000", "BD"),
                          ("", "BD"), ("0x2000", None)):
        def fn():
            reg = fresh_registry_with(copy.deepcopy(pels))
            r = reg.getErrorMessage(code, srcType)
            return [dump(r), dump(reg.pels)]
        rec("getErrorMessage.malformed", "%d/%s/%s" % (i, code, srcType),
            **run(fn))
        # through SRC.getErrorDetails as well
        def fn2():
            old = S.registry
            S.registry = fresh_registry_with(copy.deepcopy(pels))
            try:
                out = {}
                new_src().getErrorDetails(out, code[2:], srcType)
                return dump(out)
            finally:
                S.registry = old
        rec("getErrorDetails.malformed", "%d/%s/%s" % (i, code, srcType),
            **run(fn2))

# loadJson
tmpdir = os.path.dirname(corpus_path)
LOADJSON = {
    "ok.json": '{"PELs": [1, 2, {"a": null}], "x": 1}',
    "nopels.json": '{"NotPELs": []}',
    "list.json": '[1, 2]',
    "bad.json": '{"PELs": [',
    "empty.json": '',
    "str.json": '"PELs"',
}
for name, content in LOADJSON.items():
    path = os.path.join(tmpdir, "lj_" + str(os.getpid()) + "_" + name)
    with open(path, "w") as f:
        f.write(content)
    rec("loadJson", name, **run(lambda: dump(S.registry.loadJson(path))))
    os.remove(path)
for name in ("missing", ""):
    res = run(lambda: dump(S.registry.loadJson(os.path.join(tmpdir, name))))
    if "exc" in res:
        res["exc"][1] = res["exc"][1].replace(tmpdir, "<tmp>")
    rec("loadJson", "path:" + name, **res)

# getProcedureDesc / parse directly, with cache history
S.calloutParsers.clear()
S.srcParsers.clear()
for rnd in range(3):
    for creator in corpus["creators"]:
        for proc in ("BMC0001", "BMC0008", "NOPE", ""):
            src = new_src(creator)
            out = {"Procedure": proc}
            n = len(calls)
            res = run(lambda: dump(src.getProcedureDesc(proc, out)))
            res["out"] = dump(out)
            res["caches"] = caches()
            res["calls"] = calls[n:]
            rec("getProcedureDesc", "%d/%s/%s" % (rnd, creator, proc), **res)
        for hwi, hexwords in enumerate((["%08X" % i for i in range(8)],
                         ["%08X" % i for i in range(9)],
                         ["0"] * 7, [], ["a", "b", "c", "d", "e", "f", "g", 5],
                         ("00000000",) * 8)):
            for asc in ("BD8D2000" + " " * 24, "BDE50010  \n", ""):
                src = new_src(creator, asc=asc)
                n = len(calls)
                res = run(lambda: src.parse(hexwords))
                res["caches"] = caches()
                res["calls"] = calls[n:]
                rec("parse", "%d/%s/%d/%r" % (rnd, creator, hwi, asc),
                    **res)
    if rnd == 1:
        S.calloutParsers.clear()
        S.srcParsers.clear()

# toJSON twice on the same object (hexData accumulates)
def twice():
    raw = bytes.fromhex(corpus["twice"])
    stream = mkstream(raw + raw)
    src = S.SRC(stream, 0x5053, 80, 1, 1, 0xBD00, "x")
    a = json.dumps(src.toJSON(Config()))
    b = json.dumps(src.toJSON(Config()))
    return [a, b, dump(src.hexData)]
rec("twice", "x", **run(twice))

# getCallouts directly
corpus["srcs"].reverse()   # back to the original order
for i, case in enumerate([c for c in corpus["srcs"]
                          if len(c["body"]) > 2 * 78][::3]):
    raw = bytes.fromhex(case["body"])[72:]
    for plugins in (True, False):
        stream = mkstream(raw)
        src = new_src(case["creator"])
        src.stream = stream
        config = Config()
        config.allow_plugins = plugins
        out = {}
        res = run(lambda: dump(src.getCallouts(out, config)))
        res["out"] = dump(out)
        res["json"] = run(lambda: json.dumps(out)).get("ret")
        res["index"] = stream.index
        rec("getCallouts", "%d/%s" % (i, plugins), **res)

# module surface
rec("surface", "src", ret=sorted(n for n in ("SRC", "Callout", "FRUIdentity",
    "PCEIdentity", "MRU", "MRUCallout", "get_value", "registry",
    "calloutParsers", "srcParsers", "HeaderFlags", "ErrorStatusFlags",
    "Flags") if hasattr(S, n)))
rec("surface", "enums", ret=[[e.name, e.value] for cls in (S.HeaderFlags,
    S.ErrorStatusFlags, S.Flags) for e in cls])

json.dump({"results": results, "calls": calls}, sys.stdout)
'''


def run_driver(root, work, corpus_path, regdir, opt, tag):
    env = dict(os.environ)
    paths = [os.path.join(root, "modules")]
    if regdir:
        paths.append(regdir)
    env["PYTHONPATH"] = os.pathsep.join(paths)
    env["PYTHONHASHSEED"] = "0"
    env.pop("PYTHONOPTIMIZE", None)
    cmd = [PY, "-B"] + (["-O"] if opt else []) + \
        [os.path.join(work, "driver.py"), corpus_path]
    p = subprocess.run(cmd, env=env, capture_output=True, text=True,
                       cwd=work, timeout=1800)
    if p.returncode != 0:
        return {"FAILED": [p.returncode, p.stdout[-2000:], p.stderr[-4000:]]}
    data = json.loads(p.stdout)
    out = {"<stderr>": p.stderr, "<calls>": data["calls"]}
    for r in data["results"]:
        key = "%s:%s" % (r.pop("kind"), r.pop("id"))
        assert key not in out, key
        out[key] = r
    return out


# --------------------------------------------------------------------------
# CLI runs
# --------------------------------------------------------------------------

def strip_traceback(text):
    """
    An uncaught exception prints a traceback with file line numbers and
    source lines, which legitimately differ after a refactoring.  Keep the
    header and the final 'Type: message' line only.
    """
    if "Traceback (most recent call last)" not in text:
        return text
    return "\n".join(line for line in text.split("\n")
                     if not line.startswith("  "))


def snapshot(directory):
    snap = {}
    for base, _, files in os.walk(directory):
        for f in files:
            p = os.path.join(base, f)
            with open(p, "rb") as fd:
                snap[os.path.relpath(p, directory)] = fd.read().hex()
    return snap


def cli_runs(root, work, side, pels, regs):
    """returns {case id: observation}"""
    results = {}
    peltool = os.path.join(root, "modules", "pel", "peltool", "peltool.py")
    base = os.path.join(work, "cli_" + side)
    counter = [0]

    def run(tag, args, regname="good", opt=False, files=None):
        counter[0] += 1
        cwd = os.path.join(base, "%03d" % counter[0])
        os.makedirs(os.path.join(cwd, "pels"))
        os.makedirs(os.path.join(cwd, "out"))
        for name, raw in (files if files is not None else pels):
            with open(os.path.join(cwd, "pels", name), "wb") as f:
                f.write(raw)
        env = dict(os.environ)
        paths = [os.path.join(root, "modules")]
        if regs[regname]:
            paths.append(regs[regname])
        env["PYTHONPATH"] = os.pathsep.join(paths)
        env["PYTHONHASHSEED"] = "0"
        cmd = [PY, "-B"] + (["-O"] if opt else []) + [peltool] + args
        p = subprocess.run(cmd, env=env, capture_output=True, cwd=cwd,
                           timeout=900)
        results["cli:%s:%s:%s" % (tag, regname, "O" if opt else "n")] = {
            "rc": p.returncode,
            "stdout": p.stdout.decode("utf-8", "replace"),
            "stderr": strip_traceback(
                p.stderr.decode("utf-8", "replace").replace(root, "<root>")),
            "files": snapshot(cwd)}

    for regname in ("good", "none", "weird"):
        run("all", ["-p", "pels", "-a"], regname)
        run("all-E", ["-p", "pels", "-a", "-E"], regname)
        run("list-E", ["-p", "pels", "-l", "-E"], regname)
        run("json", ["-p", "pels", "-j", "-o", "out", "-E"], regname)
    run("all-E-P", ["-p", "pels", "-a", "-E", "-P"])
    run("all-E-x", ["-p", "pels", "-a", "-E", "-x"])
    run("all-E-r", ["-p", "pels", "-a", "-E", "-r"])
    run("all-H-O", ["-p", "pels", "-a", "-H", "-O"])
    run("all-S", ["-p", "pels", "-a", "-S", "Informational"])
    run("list", ["-p", "pels", "-l"])
    run("list-r", ["-p", "pels", "-l", "-r", "-E"])
    run("count", ["-p", "pels", "-n", "-E"])
    run("src", ["-p", "pels", "--src", "BD8D", "-E"])
    run("src2", ["-p", "pels", "--src", "11002000"])
    run("plid", ["-p", "pels", "--plid", "0x50000002", "-E"])
    run("id", ["-p", "pels", "-i", "50000001"])
    run("bmcid", ["-p", "pels", "--bmc-id", "17"])
    run("json-c", ["-p", "pels", "-j", "-c", "-E"])
    run("json-c-P", ["-p", "pels", "-j", "-c", "-E", "-P", "-o", "out"])
    run("all-E", ["-p", "pels", "-a", "-E"], "good", opt=True)
    run("json", ["-p", "pels", "-j", "-o", "out", "-E"], "weird", opt=True)
    run("all-E", ["-p", "pels", "-a", "-E"], "broken")
    run("file", ["-f", "pels/" + pels[1][0]], "broken")
    step = max(1, len(pels) // 45)
    for idx in range(0, len(pels), step):
        name, raw = pels[idx]
        one = [(name, raw)]
        run("file-%d" % idx, ["-f", "pels/" + name], files=one)
        run("file-P-%d" % idx, ["-f", "pels/" + name, "-P"], files=one)
        if idx % (3 * step) == 0:
            run("file-x-%d" % idx, ["-f", "pels/" + name, "-x"], files=one)
            run("file-c-%d" % idx, ["-f", "pels/" + name, "-c"], files=one)
            run("file-%d" % idx, ["-f", "pels/" + name], "none", files=one)
            run("file-%d" % idx, ["-f", "pels/" + name], "weird", opt=True,
                files=one)
    return results


# --------------------------------------------------------------------------
# main
# --------------------------------------------------------------------------

def compare(a, b, label, diffs):
    n = 0
    for key in sorted(set(a) | set(b)):
        n += 1
        if a.get(key) != b.get(key):
            diffs.append("%s %s\n   pristine: %s\n   patched:  %s" % (
                label, key, json.dumps(a.get(key))[:1500],
                json.dumps(b.get(key))[:1500]))
    return n


def main():
    if len(sys.argv) != 3:
        print(__doc__)
        return 2
    pristine, patched = (os.path.abspath(p) for p in sys.argv[1:3])
    work = tempfile.mkdtemp(prefix="diffcheck_", dir=HERE)
    try:
        structs, srcs, pels = build_corpus()
        corpus_path = os.path.join(work, "corpus.json")
        with open(corpus_path, "w") as f:
            json.dump({"structs": [[c, raw.hex()] for c, raw in structs],
                       "srcs": srcs, "creators": CREATORS,
                       "twice": src_body("BD8D2001").hex()}, f)
        with open(os.path.join(work, "driver.py"), "w") as f:
            f.write(DRIVER)
        regs = make_registries(work)
        named = []
        for i, raw in enumerate(pels):
            named.append(("pel%03d_%08X%s" % (i, 0x50000000 + i,
                                              ".pel" if i % 5 else ""), raw))

        diffs = []
        total = 0
        for regname in ("good", "weird", "none", "broken"):
            for opt in (False, True):
                a = run_driver(pristine, work, corpus_path, regs[regname],
                               opt, "a")
                b = run_driver(patched, work, corpus_path, regs[regname],
                               opt, "b")
                if "FAILED" in a:
                    diffs.append("driver failed on pristine (%s): %r" % (
                        regname, a["FAILED"]))
                if "FAILED" in b:
                    diffs.append("driver failed on patched (%s): %r" % (
                        regname, b["FAILED"]))
                total += compare(a, b, "driver[%s%s]" % (
                    regname, ",-O" if opt else ""), diffs)
        a = cli_runs(pristine, work, "a", named, regs)
        b = cli_runs(patched, work, "b", named, regs)
        total += compare(a, b, "cli", diffs)
        # sanity: the harness must have seen real decoding, not only errors
        ok = [k for k, v in a.items() if v["rc"] == 0 and "Primary SRC"
              in v["stdout"]]
        if len(ok) < 10:
            diffs.append("harness sanity: too few successful CLI decodes")
    finally:
        shutil.rmtree(work, ignore_errors=True)

    if diffs:
        print("DIFFERENT (%d of %d cases)" % (len(diffs), total))
        for d in diffs[:40]:
            print(d)
        return 1
    print("IDENTICAL (%d cases)" % total)
    return 0


if __name__ == "__main__":
    sys.exit(main())
