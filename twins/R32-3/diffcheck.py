#!/usr/bin/env python3
"""
Differential check for the R32 refactorings (peltool src.py, registry.py,
parse_user_data.py, user_data.py, ext_user_data.py).

usage: diffcheck.py <pristine_root> <patched_root>

The script builds a large, deterministic set of inputs (binary PELs, SRC
sections, callout sub-structures, user data payloads, message registries),
feeds them to both trees in separate interpreter processes (normal and -O)
and compares everything observable: return values, exception type/message,
stdout, stderr, stream cursor, object attributes, module level caches.
In addition the peltool.py command line is run on generated PEL files.
"""
import json
import os
import random
import shutil
import struct
import subprocess
import sys
import tempfile

HERE = os.path.dirname(os.path.abspath(__file__))
PY = sys.executable

###########################################################################
# The driver: runs inside a sub-process with PYTHONPATH=<root>/modules
###########################################################################
DRIVER = r'''
import contextlib, io, json, sys, types, importlib

# --- fake plug-in modules ------------------------------------------------
def _mod(name, **attrs):
    m = types.ModuleType(name)
    m.__dict__.update(attrs)
    sys.modules[name] = m
    return m

for pkg in ("udparsers", "srcparsers", "calloutparsers"):
    importlib.import_module(pkg)

class Unhelpful(Exception):
    def __str__(self):
        return "unhelpful <%s>" % (self.args,)

def fake_ud(subType, version, mv):
    data = bytes(mv)
    if subType == 0:
        return None
    if subType == 1:
        return 'null'
    if subType == 2:
        return 'this is { not json'
    if subType == 3:
        raise ValueError("bad user data %d" % len(data))
    if subType == 4:
        return json.dumps([version, data.hex()])
    if subType == 5:
        return json.dumps({"Version": version, "Hex": data.hex(),
                           "Section Version": "overridden"})
    if subType == 6:
        return {"not": "a string"}
    if subType == 7:
        return '"just a string"'
    if subType == 8:
        return ''
    if subType == 9:
        raise Unhelpful(1, 2)
    if subType == 10:
        raise ImportError("late import error")
    if subType == 11:
        return '12'
    if subType == 12:
        return 'nulél \udcff'
    if subType == 13:
        raise KeyError('k')
    return json.dumps({"Len": len(data)})

for n in ("oaa00", "baa00", "maa00"):
    _mod("udparsers." + n)
    _mod("udparsers.%s.%s" % (n, n), parseUDToJson=fake_ud)
_mod("udparsers.obb00")
_mod("udparsers.obb00.obb00")          # no parseUDToJson at all

def fake_src(refcode, w2, w3, w4, w5, w6, w7, w8, w9):
    sel = w9[-2:]
    if sel == '00':
        return json.dumps({"Ref": refcode, "Words": [w2, w3, w4, w5, w6, w7, w8, w9]})
    if sel == '01':
        return 'null'
    if sel == '02':
        return ''
    if sel == '03':
        raise RuntimeError("src plugin failure " + w2)
    if sel == '04':
        return '{ invalid'
    if sel == '05':
        return None
    if sel == '06':
        return '[1, 2, 3]'
    if sel == '07':
        raise Unhelpful(w3)
    if sel == '08':
        sys.exit(3)
    return json.dumps("word9=" + w9)

_mod("srcparsers.zsrc")
_mod("srcparsers.zsrc.zsrc", parseSRCToJson=fake_src)
_mod("srcparsers.ysrc")
_mod("srcparsers.ysrc.ysrc")            # no parseSRCToJson

def fake_proc(name):
    if name.startswith("A"):
        return json.dumps(["desc for " + name])
    if name.startswith("B"):
        return ''
    if name.startswith("C"):
        return '{ invalid'
    if name.startswith("D"):
        raise RuntimeError("no description")
    if name.startswith("E"):
        return json.dumps({"k": name})
    return None

_mod("calloutparsers.zcallouts")
_mod("calloutparsers.zcallouts.zcallouts", getMaintProcDesc=fake_proc)
_mod("calloutparsers.ycallouts")
_mod("calloutparsers.ycallouts.ycallouts")   # no getMaintProcDesc


class ExplodingFinder:
    """Make the import of some plug-ins fail with a non-ImportError."""
    names = ("udparsers.xcc00", "srcparsers.xsrc", "calloutparsers.xcallouts")

    @classmethod
    def find_spec(cls, name, path=None, target=None):
        if name in cls.names:
            raise RuntimeError("exploding import of " + name)
        if name in ("udparsers.wcc00", "srcparsers.wsrc", "calloutparsers.wcallouts"):
            raise ImportError("cannot import " + name)
        return None

sys.meta_path.insert(0, ExplodingFinder)

# --- the code under test -------------------------------------------------
from pel.datastream import DataStream
from pel.peltool.config import Config
from pel.peltool import peltool as PT
from pel.peltool import src as SRCMOD
from pel.peltool import registry as REGMOD
from pel.peltool import parse_user_data as PUD
from pel.peltool import user_data as UDMOD
from pel.peltool import ext_user_data as EDMOD

ORIG_PELS = SRCMOD.registry.pels


def cfg(plugins):
    c = Config()
    c.allow_plugins = bool(plugins)
    c.every_pel = True
    return c


def dump(obj, depth=0):
    """Canonical dump of results / objects."""
    if depth > 8:
        return "<deep>"
    if obj is None or isinstance(obj, (bool, int, float, str)):
        return obj
    if isinstance(obj, (bytes, bytearray, memoryview)):
        return {"__bytes__": bytes(obj).hex()}
    if isinstance(obj, dict):
        return {"__%s__" % type(obj).__name__:
                [[dump(k, depth + 1), dump(v, depth + 1)] for k, v in obj.items()]}
    if isinstance(obj, (list, tuple)):
        return {"__%s__" % type(obj).__name__: [dump(v, depth + 1) for v in obj]}
    if isinstance(obj, DataStream):
        return {"__stream__": obj.index}
    if isinstance(obj, types.ModuleType):
        return {"__module__": obj.__name__}
    if hasattr(obj, "__dict__"):
        return {"__obj__": type(obj).__name__,
                "attrs": [[k, dump(v, depth + 1)] for k, v in sorted(vars(obj).items())]}
    return repr(obj)


def stream_of(hexstr, as_mv=False):
    data = bytes.fromhex(hexstr)
    if as_mv:
        data = memoryview(data)
    return DataStream(data, byte_order='big', is_signed=False)


def run_case(case):
    kind = case["k"]
    if kind == "pel":
        s = stream_of(case["d"])
        r = PT.parsePEL(s, cfg(case["p"]), False)
        return [dump(r), s.index]
    if kind == "summary":
        s = stream_of(case["d"])
        r = PT.parsePELSummary(s, cfg(case["p"]))
        return [dump(r), s.index]
    if kind == "src":
        s = stream_of(case["d"], case.get("mv", False))
        o = SRCMOD.SRC(s, 0x5053, len(case["d"]) // 2 + 8, 1, 1, case["c"], case["cr"])
        try:
            r = o.toJSON(cfg(case["p"]))
        finally:
            state = dump(o)
        return [dump(r), s.index, state]
    if kind in ("callout", "fru", "pce", "mru"):
        s = stream_of(case["d"], case.get("mv", False))
        cls = {"callout": SRCMOD.Callout, "fru": SRCMOD.FRUIdentity,
               "pce": SRCMOD.PCEIdentity, "mru": SRCMOD.MRU}[kind]
        try:
            o = cls(s)
        except BaseException:
            idx = s.index
            raise
        extra = o.flattenedSize() if kind == "callout" else None
        return [dump(o), s.index, extra]
    if kind == "callouts":
        s = stream_of(case["d"])
        o = SRCMOD.SRC(s, 0x5053, 0, 1, 1, 0x1000, case["cr"])
        out = {}
        o.getCallouts(out, cfg(case["p"]))
        return [dump(out), s.index]
    if kind == "proc":
        o = SRCMOD.SRC(None, 0x5053, 0, 1, 1, 0x1000, case["cr"])
        out = {}
        r = o.getProcedureDesc(case["n"], out)
        return [dump(r), dump(out)]
    if kind == "srcparse":
        o = SRCMOD.SRC(None, 0x5053, 0, 1, 1, 0x1000, case["cr"])
        o.asciiString = case["a"]
        return dump(o.parse(case["w"]))
    if kind == "ud":
        if case.get("str"):
            data = case["d"]
        else:
            data = bytes.fromhex(case["d"])
            if case.get("mv"):
                data = memoryview(data)
        o = PUD.ParseUserData(case["cr"], case["c"], case["s"], case["v"], data)
        m = case["m"]
        if m == "parse":
            return dump(o.parse(cfg(case["p"])))
        if m == "custom":
            return dump(o.parseCustom())
        return dump(o.getBuiltinFormatJSON())
    if kind == "udsec":
        s = stream_of(case["d"], case.get("mv", False))
        ln = case.get("len", len(case["d"]) // 2 + 8)
        o = UDMOD.UserData(s, 0x5544, ln, case["v"], case["s"], case["c"], case["cr"])
        r = o.toJSON(cfg(case["p"]))
        return [dump(r), s.index, dump(o)]
    if kind == "edsec":
        s = stream_of(case["d"], case.get("mv", False))
        ln = case.get("len", len(case["d"]) // 2 + 8)
        o = EDMOD.ExtUserData(s, 0x4544, ln, case["v"], case["s"], case["c"])
        r = o.toJSON(cfg(case["p"]))
        return [dump(r), s.index, dump(o)]
    if kind == "reg":
        reg = SRCMOD.registry if case.get("global") else REGMOD.Registry()
        if "pels" in case:
            reg.pels = case["pels"]
        try:
            return dump(reg.getErrorMessage(case["code"], case["t"]))
        finally:
            SRCMOD.registry.pels = ORIG_PELS
    if kind == "regload":
        reg = REGMOD.Registry()
        return dump(reg.loadJson(case["path"]))
    if kind == "details":
        o = SRCMOD.SRC(None, 0x5053, 0, 1, 1, 0x1000, "O")
        o.hexData = case["h"]
        m = case["m"]
        if m == "msg":
            return dump(o.buildMessage(case["det"]))
        if m == "desc":
            return dump(o.buildHexwordDescs(case["det"]))
        saved = SRCMOD.registry.pels
        SRCMOD.registry.pels = case["pels"]
        try:
            out = {}
            r = o.getErrorDetails(out, case["code"], case["t"])
            return [dump(r), dump(out)]
        finally:
            SRCMOD.registry.pels = saved
    if kind == "getvalue":
        data = memoryview(bytes.fromhex(case["d"]))
        return [SRCMOD.get_value(data, case["a"], case["b"]),
                PUD.get_value(data, case["a"], case["b"])]
    if kind == "api":
        names = {}
        for mod in (SRCMOD, REGMOD, PUD, UDMOD, EDMOD):
            for n in case["names"].get(mod.__name__.rsplit(".", 1)[1], []):
                obj = getattr(mod, n, "<missing>")
                names[mod.__name__ + "." + n] = \
                    obj if isinstance(obj, str) else type(obj).__name__
        for cls in (SRCMOD.HeaderFlags, SRCMOD.ErrorStatusFlags, SRCMOD.Flags,
                    PUD.UserDataFormat):
            names[cls.__name__] = [[m.name, m.value] for m in cls]
        return names
    raise ValueError("unknown case kind " + kind)


def caches():
    res = {}
    for mod, name in ((SRCMOD, "calloutParsers"), (SRCMOD, "srcParsers"),
                      (PUD, "userDataParsers")):
        d = getattr(mod, name, None)
        if not isinstance(d, dict):
            res[name] = repr(d)
        else:
            res[name] = sorted([k, None if v is None else v.__name__]
                               for k, v in d.items())
    return res


def main():
    with open(sys.argv[1]) as f:
        cases = json.load(f)
    results = []
    for i, case in enumerate(cases):
        out, err = io.StringIO(), io.StringIO()
        rec = {}
        with contextlib.redirect_stdout(out), contextlib.redirect_stderr(err):
            try:
                rec["ret"] = run_case(case)
            except BaseException as e:
                rec["exc"] = [type(e).__name__, str(e), repr(getattr(e, "code", None))]
        rec["out"] = out.getvalue()
        rec["err"] = err.getvalue()
        if i % 97 == 0 or i == len(cases) - 1:
            rec["caches"] = caches()
        results.append(rec)
    with open(sys.argv[2], "w") as f:
        json.dump(results, f)

main()
'''

###########################################################################
# Fake pel_registry package (message registry + component ids)
###########################################################################
REGISTRY = {"PELs": [
    {"Name": "a.b.NoReasonCode", "SRC": {"Type": "BD"},
     "Documentation": {"Message": "never used"}},
    {"Name": "a.b.E1", "Subsystem": "bmc_firmware",
     "SRC": {"ReasonCode": "0x2030",
             "Words6To9": {"6": {"Description": "Failing unit number",
                                 "AdditionalDataPropSource": "PS_NUM"},
                           "7": {"AdditionalDataPropSource": "NO_DESC"},
                           "9": {"Description": "bad callout",
                                 "AdditionalDataPropSource": "CALLOUT"}}},
     "Documentation": {"Description": "d", "Message": "PS %1 had an error %2",
                       "MessageArgSources": ["SRCWord6", "SRCWord9"]}},
    {"Name": "a.b.E2", "SRC": {"ReasonCode": "0x2031", "Words6To9": {}},
     "Documentation": {"Message": "A plain message"}},
    {"Name": "a.b.E3", "SRC": {"Type": "11", "ReasonCode": "0x2030"},
     "Documentation": {"Message": "Power error %1", "MessageArgSources": ["SRCWord3"]}},
    {"Name": "a.b.E4", "SRC": {"Type": "BC", "ReasonCode": "0x8A01"},
     "Documentation": {"Message": "Hostboot said %1 and %2 then %1",
                       "MessageArgSources": ["SRCWord2", "SRCWord5", "SRCWord8"]}},
    {"Name": "a.b.E5", "SRC": {"ReasonCode": "0x2032"},
     "Documentation": {"Message": "Braces {} in message", "MessageArgSources": []}},
    {"Name": "a.b.E6", "SRC": {"ReasonCode": "0x2033"},
     "Documentation": {"Message": "Unbalanced { brace %1",
                       "MessageArgSources": ["SRCWord4"]}},
    {"Name": "a.b.E7", "SRC": {"ReasonCode": "0x2034"},
     "Documentation": {"Message": "Too many %1 %2 %3",
                       "MessageArgSources": ["SRCWord4"]}},
    {"Name": "a.b.E8", "SRC": {"ReasonCode": "0x2035"},
     "Documentation": {"Message": ""}},
    {"Name": "a.b.E9", "SRC": {"ReasonCode": "0x2036",
                               "Words6To9": {"8": {"Description": "x",
                                                   "AdditionalDataPropSource": "Message"}}},
     "Documentation": {"Message": "word index %1", "MessageArgSources": ["SRCWord1"]}},
    {"Name": "a.b.E10", "SRC": {"ReasonCode": "0x2037",
                                "Words6To9": {"12": {"Description": "x",
                                                     "AdditionalDataPropSource": "OOR"}}},
     "Documentation": {"Message": "out of range desc"}},
    {"Name": "a.b.E11", "SRC": {"ReasonCode": "0x2038"},
     "Documentation": {"Description": "no message key"}},
    {"Name": "a.b.E12", "SRC": {"ReasonCode": "0x2039"},
     "Documentation": {"Message": "PS %1 had an error %2 {!r}",
                       "MessageArgSources": ["SRCWord6", "SRCWord9"]}},
    {"Name": "a.b.Dup", "SRC": {"ReasonCode": "0x2031"},
     "Documentation": {"Message": "shadowed duplicate"}},
]}

MALFORMED_REGISTRIES = [
    [],
    [{}],
    [{"SRC": {}}],
    [{"SRC": {"ReasonCode": "0x2030"}}],
    [{"SRC": {"ReasonCode": "0x2030"}, "Documentation": {}}],
    [{"SRC": {"ReasonCode": "0x2030"}, "Documentation": "Message"}],
    [{"SRC": {"ReasonCode": "0x2030"}, "Documentation": ["Message"]}],
    [{"SRC": {"ReasonCode": 0x2030}, "Documentation": {"Message": "m"}}],
    [{"SRC": {"ReasonCode": ["0x2030"]}, "Documentation": {"Message": "list rc"}}],
    [{"SRC": {"ReasonCode": {"0x2030": 1}}, "Documentation": {"Message": "dict rc"}}],
    [{"SRC": {"ReasonCode": "xx0x2030yy"}, "Documentation": {"Message": "substring"}}],
    [{"SRC": {"ReasonCode": "0x2030", "Type": 5}, "Documentation": {"Message": "m"}}],
    [{"SRC": {"ReasonCode": "0x2030", "Type": None}, "Documentation": {"Message": "m"}}],
    [{"SRC": {"ReasonCode": "0x2030", "Type": ["BD"]}, "Documentation": {"Message": "m"}}],
    [{"SRC": "ReasonCode"}],
    [{"SRC": ["ReasonCode"]}],
    [{"SRC": None}],
    [None],
    ["SRC"],
    [{"SRC": {"ReasonCode": "0x9999"}},
     {"SRC": {"ReasonCode": "0x2030"}, "Documentation": {"Message": "second"}}],
    [{"SRC": {"ReasonCode": "0x2030", "Type": "11"}, "Documentation": {"Message": "typed"}},
     {"SRC": {"ReasonCode": "0x2030"}, "Documentation": {"Message": "untyped"}},
     {"broken": 1}],
    [{"SRC": {"ReasonCode": "0x2030", "Words6To9": None},
      "Documentation": {"Message": "m", "MessageArgSources": None}}],
    [{"SRC": {"ReasonCode": "0x2030", "Words6To9": 0},
      "Documentation": {"Message": None, "MessageArgSources": 0, "Other": 1}}],
    [{"SRC": {"ReasonCode": "0x2030", "Words6To9": {"6": {}}},
      "Documentation": {"Message": "m %1", "MessageArgSources": ["SRCWord6"]}}],
    [{"SRC": {"ReasonCode": "0x2030", "Words6To9": {"6": {"Description": "no source"}}},
      "Documentation": {"Message": "m %1", "MessageArgSources": ["SRCWord6"]}}],
    [{"SRC": {"ReasonCode": "0x2030", "Words6To9": {"six": {"Description": "d",
                                                           "AdditionalDataPropSource": "S"}}},
      "Documentation": {"Message": "m"}}],
    [{"SRC": {"ReasonCode": "0x2030", "Words6To9": ["6"]},
      "Documentation": {"Message": "m"}}],
    [{"SRC": {"ReasonCode": "0x2030"},
      "Documentation": {"Message": "m %1", "MessageArgSources": ["SRCWordX"]}}],
    [{"SRC": {"ReasonCode": "0x2030"},
      "Documentation": {"Message": "m %1", "MessageArgSources": [""]}}],
    [{"SRC": {"ReasonCode": "0x2030"},
      "Documentation": {"Message": "m %1", "MessageArgSources": [7]}}],
    [{"SRC": {"ReasonCode": "0x2030"},
      "Documentation": {"Message": 17, "MessageArgSources": ["SRCWord6"]}}],
    [{"SRC": {"ReasonCode": "0x2030"},
      "Documentation": {"Message": "m {0} {1} %1 %0 %10 %%1", "MessageArgSources":
                        ["SRCWord6", "SRCWord7"]}}],
    [{"SRC": {"ReasonCode": "0x2030"},
      "Documentation": {"Message": "m {name} %1", "MessageArgSources": ["SRCWord6"]}}],
]


def make_fake_registry(tmp):
    pkg = os.path.join(tmp, "fakereg", "pel_registry")
    os.makedirs(pkg)
    with open(os.path.join(pkg, "__init__.py"), "w") as f:
        f.write("import os\n"
                "def get_registry_path():\n"
                "    return os.path.join(os.path.dirname(__file__),"
                " 'message_registry.json')\n")
    with open(os.path.join(pkg, "message_registry.json"), "w") as f:
        json.dump(REGISTRY, f)
    with open(os.path.join(pkg, "O_component_ids.json"), "w") as f:
        json.dump({"1000": "bmc common function", "2000": "bmc error logging",
                   "E500": "hw diags"}, f)
    with open(os.path.join(pkg, "B_component_ids.json"), "w") as f:
        json.dump({"0100": "hb"}, f)
    return os.path.join(tmp, "fakereg")


###########################################################################
# Builders for binary data
###########################################################################
def sec_header(sid, length, ver=1, sub=0, comp=0x1000):
    return struct.pack(">HHBBH", sid, length & 0xFFFF, ver & 0xFF, sub & 0xFF, comp & 0xFFFF)


def build_ph(creator=b"O", count=3, eid=0x50000001, plid=0x50000001, obmc=7):
    body = bytes.fromhex("2023051512304599") + bytes.fromhex("2023051512304699")
    body += creator[:1] + b"\x00\x00" + bytes([count & 0xFF])
    body += struct.pack(">IQII", obmc, 0x0102030405060708, plid, eid)
    return sec_header(0x5048, 48, 1, 0, 0x2000) + body


def build_uh(sev=0x40, action=0xA800, subsystem=0x72):
    body = bytes([subsystem, 0x03, sev, 0x00]) + b"\x00" * 4
    body += bytes([0x01, 0x02]) + struct.pack(">HI", action, 0)
    return sec_header(0x5548, 24, 1, 0, 0x1000) + body


def build_fru(flags, pn=b"PN12345", ccin=b"CC12", sn=b"SN1234567890", comp_type=0x10,
              size=None):
    body = b""
    if flags & 0x0A:
        body += pn[:8].ljust(8, b"\x00")
    if flags & 0x04:
        body += ccin[:4].ljust(4, b"\x00")
    if flags & 0x01:
        body += sn[:12].ljust(12, b"\x00")
    total = 4 + len(body)
    return b"ID" + bytes([(total if size is None else size) & 0xFF,
                          (flags | comp_type) & 0xFF]) + body


def build_pce(name=b"pcename\x00", mtm=b"9105-22A", sn=b"SERIAL123456", size=None):
    total = 4 + 8 + 12 + len(name)
    return b"PE" + bytes([(total if size is None else size) & 0xFF, 0]) + \
        mtm[:8].ljust(8, b"\x00") + sn[:12].ljust(12, b"\x00") + name


def build_mru(ids, count=None, size=None):
    n = len(ids) if count is None else count
    total = 8 + 8 * len(ids)
    body = b"".join(struct.pack(">II", 0x48 + i, v) for i, v in enumerate(ids))
    return b"MR" + bytes([(total if size is None else size) & 0xFF, n & 0xFF]) + \
        b"\x00" * 4 + body


def build_callout(subs=(), loc=b"U78DA.ND1.1234567-P0\x00\x00\x00\x00", prio=ord("H"),
                  size=None, flags=0, loc_size=None):
    body = b"".join(subs)
    total = 4 + len(loc) + len(body)
    return bytes([(total if size is None else size) & 0xFF, flags, prio,
                  (len(loc) if loc_size is None else loc_size) & 0xFF]) + loc + body


def build_callouts(callouts, words=None):
    body = b"".join(callouts)
    total = 4 + len(body)
    w = (total + 3) // 4 if words is None else words
    return bytes([0xC0, 0x00]) + struct.pack(">H", w & 0xFFFF) + body


def build_src_body(ascii_str="BD8D2030", flags=0, word_count=9, hexdata=None,
                   callouts=b"", version=2, raw_ascii=None):
    hexdata = list(hexdata or [0x000000E0, 0x2E2D0010, 0x00000000, 0x02000000,
                               0x0000000A, 0x0000000B, 0x0000000C, 0x0000000D])
    hexdata = (hexdata + [0] * 8)[:8]
    text = raw_ascii if raw_ascii is not None else ascii_str.encode().ljust(32, b" ")
    size = 8 + 32 + 32 + len(callouts)
    body = bytes([version & 0xFF, flags & 0xFF, 0, word_count & 0xFF]) + \
        struct.pack(">HH", 0, size & 0xFFFF)
    body += b"".join(struct.pack(">I", w & 0xFFFFFFFF) for w in hexdata)
    return body + text + callouts


def build_section(sid, body, ver=1, sub=0, comp=0x1000, length=None):
    ln = 8 + len(body) if length is None else length
    return sec_header(sid, ln, ver, sub, comp) + body


def build_pel(sections, creator=b"O", count=None, **uh):
    n = 2 + len(sections) if count is None else count
    return build_ph(creator, n) + build_uh(**uh) + b"".join(sections)


###########################################################################
# Case generation
###########################################################################
def gen_cases(tmp):
    rnd = random.Random(0x5232)
    cases = []
    add = cases.append

    def rbytes(n):
        return bytes(rnd.getrandbits(8) for _ in range(n))

    def mutations(data, n_trunc=12, n_flip=12):
        res = []
        L = len(data)
        cuts = set([0, 1, L - 1, L // 2]) | set(rnd.randrange(0, L + 1) for _ in range(n_trunc))
        for c in sorted(x for x in cuts if 0 <= x <= L):
            res.append(data[:c])
        for _ in range(n_flip):
            b = bytearray(data)
            for _ in range(rnd.choice((1, 1, 2, 4))):
                b[rnd.randrange(L)] = rnd.getrandbits(8)
            res.append(bytes(b))
        res.append(data + rbytes(rnd.randrange(1, 9)))
        return res

    # ---- API surface ------------------------------------------------------
    add({"k": "api", "names": {
        "src": ["SRC", "Callout", "FRUIdentity", "PCEIdentity", "MRU", "MRUCallout",
                "HeaderFlags", "ErrorStatusFlags", "Flags", "get_value", "registry",
                "calloutParsers", "srcParsers", "Registry"],
        "registry": ["Registry"],
        "parse_user_data": ["ParseUserData", "UserDataFormat", "get_value",
                            "userDataParsers", "hexdump", "creatorIDs"],
        "user_data": ["UserData", "ParseUserData"],
        "ext_user_data": ["ExtUserData", "ParseUserData"]}})

    # ---- sub-structures ---------------------------------------------------
    frus = []
    for flags in range(16):
        frus.append(build_fru(flags))
    frus.append(build_fru(0x08, pn=b"\x00\x00AB\x00C\x00\x00"))
    frus.append(build_fru(0x0F, pn=b"\xff\xfe123456"))          # undecodable
    frus.append(build_fru(0x02, pn=b"BMC0001"))
    frus.append(build_fru(0x02, pn=b"BMC0009"))
    frus.append(build_fru(0x0A, pn=b"Aproc"))
    frus.append(build_fru(0x07, ccin=b"\xc3\xa9AB", sn=b"\xe2\x82\xacSERIAL"))
    frus.append(build_fru(0x0D, comp_type=0x40, size=3))
    frus.append(build_fru(0x03, comp_type=0xF0, size=200))
    for f in frus:
        for m in [f] + mutations(f, 4, 3):
            add({"k": "fru", "d": m.hex()})
    pces = [build_pce(), build_pce(name=b""), build_pce(name=b"n"), build_pce(size=10),
            build_pce(size=23), build_pce(size=24), build_pce(size=25, name=b"abc"),
            build_pce(mtm=b"", sn=b""), build_pce(name=b"\xff\xfename"),
            build_pce(mtm=b"\xff\xff", name=b"x"), build_pce(size=0),
            build_pce(name=b"\x00\x00\x00\x00"), build_pce(size=255, name=b"short")]
    for p in pces:
        for m in [p] + mutations(p, 4, 3):
            add({"k": "pce", "d": m.hex()})
    mrus = [build_mru([]), build_mru([1]), build_mru([0x11223344, 0xAABBCCDD, 5]),
            build_mru([1, 2], count=0xF2), build_mru([1, 2], count=5),
            build_mru(list(range(15))), build_mru([1, 2, 3], count=1, size=0),
            build_mru([9], size=4)]
    for p in mrus:
        for m in [p] + mutations(p, 4, 3):
            add({"k": "mru", "d": m.hex()})

    callouts = []
    callouts.append(build_callout([build_fru(0x08)]))
    callouts.append(build_callout([build_fru(0x0F), build_pce(), build_mru([1, 2])]))
    callouts.append(build_callout([build_mru([7]), build_fru(0x02, pn=b"BMC0002")]))
    callouts.append(build_callout([build_pce(), build_pce(name=b"second\x00\x00")]))
    callouts.append(build_callout([build_fru(0x04), build_fru(0x01)]))
    callouts.append(build_callout([], loc=b""))
    callouts.append(build_callout([build_fru(0x0A, pn=b"Aproc")], loc=b"", prio=ord("M")))
    callouts.append(build_callout([build_fru(0x02, pn=b"Cproc")], loc=b"Ufcs-P1\x00", prio=ord("Z")))
    callouts.append(build_callout([b"XX\x04\x00"]))
    callouts.append(build_callout([build_fru(0x08), b"ZZ\x08\x00abcd"]))
    callouts.append(build_callout([build_fru(0x08)], size=4))
    callouts.append(build_callout([build_fru(0x08)], size=255))
    callouts.append(build_callout([build_fru(0x08)], size=0))
    callouts.append(build_callout([build_pce(size=10)]))
    callouts.append(build_callout([build_pce(size=24, name=b"")]))
    callouts.append(build_callout([build_pce(size=0), build_fru(0x01)], size=80))
    callouts.append(build_callout([build_mru([1, 2, 3], size=0), build_fru(0x01)], size=90))
    callouts.append(build_callout([build_fru(0x0F)], loc=b"\xff\xfeABCD\x00\x00"))
    callouts.append(build_callout([build_fru(0x0F)], loc=b"Uloc", loc_size=2))
    callouts.append(build_callout([build_fru(0x0F)], loc=b"Uloc", loc_size=200))
    callouts.append(build_callout([build_fru(0x0F, size=2)], size=60))
    callouts.append(build_callout([build_mru([]), build_mru([5, 6])]))
    for c in callouts:
        for m in [c] + mutations(c, 8, 8):
            add({"k": "callout", "d": m.hex()})
        add({"k": "callout", "d": c.hex(), "mv": True})
    for _ in range(150):
        add({"k": "callout", "d": rbytes(rnd.randrange(0, 80)).hex()})
    for _ in range(100):
        # random but plausible: valid type codes sprinkled over random bytes
        b = bytearray(rbytes(rnd.randrange(8, 90)))
        b[0] = rnd.randrange(0, len(b) + 8)
        b[3] = rnd.choice((0, 0, 2, 4, 8))
        pos = 4 + b[3]
        while pos + 2 <= len(b):
            b[pos:pos + 2] = rnd.choice((b"ID", b"PE", b"MR", b"ID", b"XX"))
            if pos + 3 <= len(b):
                b[pos + 2] = rnd.choice((0, 4, 8, 12, 16, 24, 28, 32))
            pos += rnd.choice((4, 8, 12, 16, 24, 28))
        add({"k": "callout", "d": bytes(b).hex()})

    # ---- callout sub-sections --------------------------------------------
    subsections = []
    subsections.append(build_callouts([]))
    subsections.append(build_callouts(callouts[:1]))
    subsections.append(build_callouts(callouts[:5]))
    subsections.append(build_callouts(callouts[5:10]))
    subsections.append(build_callouts(callouts[1:2], words=1))
    subsections.append(build_callouts(callouts[1:3], words=0))
    subsections.append(build_callouts(callouts[1:3], words=400))
    subsections.append(build_callouts([callouts[13]]))
    subsections.append(build_callouts([callouts[14]]))
    subsections.append(build_callouts([callouts[21], callouts[2]]))
    subsections.append(build_callouts([build_callout([build_fru(0x02, pn=p)]) for p in
                                       (b"Aone", b"Btwo", b"Cthree", b"Dfour", b"Efive",
                                        b"Fsix", b"BMC0004", b"BMC9999")]))
    subsections.append(build_callouts([build_callout([build_fru(fl, comp_type=ct)], prio=pr)
                                       for fl, ct, pr in ((0x0F, 0x10, ord("H")),
                                                          (0x0B, 0x20, ord("M")),
                                                          (0x06, 0x30, ord("A")),
                                                          (0x05, 0x40, ord("B")),
                                                          (0x09, 0x90, ord("C")),
                                                          (0x00, 0xA0, ord("L")),
                                                          (0x0E, 0x00, 0))]))
    for sub in subsections:
        for cr in ("O", "Z", "Y", "X", "W", "B", "Q"):
            for p in (1, 0):
                add({"k": "callouts", "d": sub.hex(), "cr": cr, "p": p})
        for m in mutations(sub, 6, 6):
            add({"k": "callouts", "d": m.hex(), "cr": rnd.choice("OZ"), "p": rnd.choice((0, 1))})
    for cr in ("O", "Z", "Y", "X", "W", "B", "Q", "O", "Z", "X", "W"):
        for n in ("BMC0001", "BMC0008", "nope", "Aproc", "Bproc", "Cproc", "Dproc", "Eproc",
                  "Fproc", ""):
            add({"k": "proc", "cr": cr, "n": n})

    # ---- SRC sections -----------------------------------------------------
    srcs = []
    for a in ("BD8D2030", "BD8D2031", "BD8D2032", "BD8D2033", "BD8D2034", "BD8D2035",
              "BD8D2036", "BD8D2037", "BD8D2038", "BD8D2039", "BD8D9999", "11002030", "110000AC",
              "BC8A8A01", "BC100000", "B7001111", "BDE50010", "BDE500AB", "", "B", "BD8D",
              "bd8d2030", "  BD8D2030"):
        srcs.append(build_src_body(a))
    for wc in (0, 1, 2, 3, 5, 8, 9, 10, 11, 255):
        srcs.append(build_src_body("BD8D2030", word_count=wc))
    for fl in (0x01, 0x02, 0x04, 0x08, 0x10, 0x80, 0x94, 0xFF, 0x81):
        srcs.append(build_src_body("BD8D2031", flags=fl,
                                   callouts=build_callouts(callouts[:3]) if fl & 1 else b""))
    for hd in ([0xFFFFFFFF] * 8, [0] * 8,
               [0x1234, 0xABCD0000, 0, 0x23000000, 1, 2, 3, 4],
               [0xE0, 0x00010000, 0, 0x20000000, 0, 0, 0, 0],
               [0xE0, 0, 0, 0x02000000, 0, 0, 0, 1],
               [0xE0, 0, 0, 0x01000000, 0, 0, 0, 2],
               [0xE0, 0, 0, 0x01000000, 0, 0, 0, 3]):
        for a in ("BD8D2030", "BC8A8A01", "11002030", "C1001234"):
            srcs.append(build_src_body(a, hexdata=hd))
    for sub in subsections:
        srcs.append(build_src_body("BD8D2030", flags=0x01, callouts=sub))
    srcs.append(build_src_body(flags=0x01))                        # callouts missing
    srcs.append(build_src_body(raw_ascii=b"\xff\xfe" + b" " * 30))  # undecodable
    srcs.append(build_src_body(raw_ascii=b"BD8D2030" + b"\x00" * 24))
    srcs.append(build_src_body(raw_ascii="BDé82030".encode().ljust(32, b" ")))
    srcs.append(build_src_body(raw_ascii=b"\tBD8D2030\n".ljust(32, b" ")))
    for last in range(0, 10):
        srcs.append(build_src_body("BD8D2030", hexdata=[0xE0, 1, 2, 3, 4, 5, 6, last]))
    creators = ("O", "B", "Z", "Y", "X", "W", "H", "Q", "")
    for i, body in enumerate(srcs):
        for cr in creators if i % 4 == 0 else ("O", "Z", creators[i % len(creators)]):
            for p in (1, 0):
                add({"k": "src", "d": body.hex(), "c": 0x1000, "cr": cr, "p": p})
        for m in mutations(body, 6, 8):
            add({"k": "src", "d": m.hex(), "c": rnd.choice((0x1000, 0x2000, 0x4142, 0xE500)),
                 "cr": rnd.choice("OZBH"), "p": rnd.choice((0, 1))})
    add({"k": "src", "d": srcs[0].hex(), "c": 0x1000, "cr": "O", "p": 1, "mv": True})
    for _ in range(120):
        add({"k": "src", "d": rbytes(rnd.randrange(0, 160)).hex(), "c": 0x1000,
             "cr": rnd.choice("OZB"), "p": rnd.choice((0, 1))})
    for cr in ("O", "Z", "Y", "X", "W", "B", "Q", "Z", "X", "W", "O"):
        for w in (["00000000"] * 8, ["000000E0", "1", "2", "3", "4", "5", "6", "00000003"],
                  ["0"] * 7, [], ["0"] * 9 + ["07"], ["a", "b", "c", "d", "e", "f", "g", "08"],
                  ["a", "b", "c", "d", "e", "f", "g", "05"], ["a", "b", "c", "d", "e", "f", "g", "04"]):
            for a in ("BD8D2030" + " " * 24, "BDE50010", "BC8A8A01", ""):
                add({"k": "srcparse", "cr": cr, "w": w, "a": a})

    # ---- registry ---------------------------------------------------------
    codes = ["0x2030", "0x2031", "0x2032", "0x2038", "0x8A01", "0x9999", "0x", "", "2030",
             "0x20", "0X2030", "0x2030 "]
    for code in codes:
        for t in ("BD", "11", "BC", "", "bd", "XX"):
            add({"k": "reg", "code": code, "t": t})
            add({"k": "reg", "code": code, "t": t, "global": 1})
    for pels in MALFORMED_REGISTRIES + [REGISTRY["PELs"]]:
        for code, t in (("0x2030", "BD"), ("0x2030", "11"), ("0x9999", "BD"), ("0x2031", "BC")):
            add({"k": "reg", "code": code, "t": t, "pels": pels})
    for _ in range(150):
        pels = []
        for _ in range(rnd.randrange(0, 6)):
            src = {}
            if rnd.random() < 0.85:
                src["ReasonCode"] = rnd.choice(("0x2030", "0x2031", "0x2032", "0x20300x2031"))
            if rnd.random() < 0.5:
                src["Type"] = rnd.choice(("BD", "11", "BC", "ZZ"))
            if rnd.random() < 0.5:
                src["Words6To9"] = rnd.choice(({}, {"6": {"Description": "d",
                                                          "AdditionalDataPropSource": "S"}},
                                               None, {"7": {}}))
            doc = {}
            if rnd.random() < 0.9:
                doc["Message"] = rnd.choice(("m", "m %1", "", "x %2 y %1"))
            if rnd.random() < 0.5:
                doc["MessageArgSources"] = rnd.choice(([], ["SRCWord6"], ["SRCWord6", "SRCWord9"]))
            e = {"SRC": src}
            if rnd.random() < 0.95:
                e["Documentation"] = doc
            pels.append(e)
        add({"k": "reg", "code": rnd.choice(("0x2030", "0x2031", "0x2032")),
             "t": rnd.choice(("BD", "11", "BC")), "pels": pels})
    good = os.path.join(tmp, "fakereg", "pel_registry", "message_registry.json")
    bad = os.path.join(tmp, "reg_bad.json")
    nopels = os.path.join(tmp, "reg_nopels.json")
    with open(bad, "w") as f:
        f.write("{ not json")
    with open(nopels, "w") as f:
        f.write('{"Other": []}')
    for p in (good, bad, nopels, os.path.join(tmp, "does_not_exist.json")):
        add({"k": "regload", "path": p})

    # ---- error details ----------------------------------------------------
    hexdata = [0xE0, 0x11112222, 0, 0x03000000, 0xAAAA, 0xBBBB, 0xCCCC, 0xDDDDDDDD]
    for pels in MALFORMED_REGISTRIES + [REGISTRY["PELs"]]:
        for code, t in (("2030", "BD"), ("2031", "BD"), ("2030", "11"), ("8A01", "BC")):
            add({"k": "details", "m": "all", "h": hexdata, "pels": pels, "code": code, "t": t})
    for e in REGISTRY["PELs"]:
        det = dict(e["Documentation"])
        if "Words6To9" in e["SRC"]:
            det["Words6To9"] = e["SRC"]["Words6To9"]
        for h in (hexdata, hexdata[:4], []):
            add({"k": "details", "m": "msg", "h": h, "det": det})
            add({"k": "details", "m": "desc", "h": h, "det": det})
    for det in ({}, {"Message": "x"}, {"Words6To9": {}}, {"Words6To9": None},
                {"Message": "%1", "MessageArgSources": ["SRCWord2"]},
                {"Message": "%1", "MessageArgSources": ["SRCWord0"]},
                {"Message": "%9%8", "MessageArgSources": ["SRCWord9", "SRCWord8", "SRCWord7"]}):
        add({"k": "details", "m": "msg", "h": hexdata, "det": det})
        add({"k": "details", "m": "desc", "h": hexdata, "det": det})

    # ---- user data payloads ----------------------------------------------
    texts = [b"", b"\n", b"\n\n", b"line one\nline two\n", b"no newline", b"a\n\nb\n\n\nc",
             b"\n\nleading", b"trailing\n\n\n", b"tab\there\r\nnext\x7f~ ok", b"  padded  \n  x  ",
             b"\x00\x00", b"text\x00\x00\x00", b"\x00text\x00", b"mid\x00dle\nx\x00\n\x00",
             "unicode é € \U0001F600 line\nsecond é".encode(), b"\xff\xfe\xfd", b"\xc3",
             b"a\x0bb\x0cc\x1cd\x1de\x85f", "a b c\xa0d\n　".encode(),
             b"x\n \n y\n\t\n", b" \n", b"\n \n", b"\x1f\n\x1f", b"\n\x00", b"\x00\n",
             b"last line is spaces\n   ", b"a\nb\x00\x00\n\x00\x00", b"~\n}\n\x7f\n\x80"[:9],
             b'{"json": [1, 2, {"a": null}]}', b'  {"padded": true}\n\x00\x00\x00',
             b'[1, 2, 3]', b'"str"', b'12', b'null', b'{"Section Version": 99, "Data": "x"}',
             b'{"broken": ', b'\x00{"a":1}', b'{"a":1}\x00 ', b'{"dup": 1, "dup": 2}',
             b'NaN', b'{"a": Infinity}', bytes(range(256)), bytes(range(32, 127))]
    for _ in range(40):
        n = rnd.randrange(0, 60)
        texts.append(bytes(rnd.choice(b"ab \n\n\n\x00\t~\x7f\x1f\x80\xc3\xa9 {}[]\":,1")
                           for _ in range(n)))
    for _ in range(20):
        texts.append(rbytes(rnd.randrange(0, 70)))
    idents = [("O", 0x2000), ("O", 0x1000), ("O", 0xAA00), ("O", 0xBB00), ("O", 0xE500),
              ("B", 0xAA00), ("B", 0x2000), ("M", 0xAA00), ("M", 0x2C00), ("X", 0xCC00),
              ("W", 0xCC00), ("H", 0x4142), ("Q", 0x2000), ("", 0x2000), ("o", 0x2000)]
    for data in texts:
        for sub in (1, 2, 3, 4, 0, 5, 255):
            add({"k": "ud", "m": "builtin", "d": data.hex(), "cr": "O", "c": 0x2000,
                 "s": sub, "v": 1})
        add({"k": "ud", "m": "builtin", "d": data.hex(), "cr": "O", "c": 0x2000,
             "s": 3, "v": 1, "mv": True})
        add({"k": "ud", "m": "builtin", "d": data.hex(), "cr": "O", "c": 0x2000,
             "s": 1, "v": 1, "mv": True})
        for p in (1, 0):
            for sub in (1, 3):
                add({"k": "ud", "m": "parse", "d": data.hex(), "cr": "O", "c": 0x2000,
                     "s": sub, "v": 1, "p": p})
                add({"k": "udsec", "d": data.hex(), "cr": "O", "c": 0x2000, "s": sub,
                     "v": 1, "p": p})
                add({"k": "edsec", "d": (b"O\x00\x00\x00" + data).hex(), "c": 0x2000,
                     "s": sub, "v": 1, "p": p, "len": len(data) + 12})
    add({"k": "ud", "m": "builtin", "d": "not bytes", "str": 1, "cr": "O", "c": 0x2000,
         "s": 3, "v": 1})
    add({"k": "ud", "m": "parse", "d": "not bytes", "str": 1, "cr": "O", "c": 0x1000,
         "s": 3, "v": 1, "p": 1})
    add({"k": "ud", "m": "parse", "d": "not bytes", "str": 1, "cr": "O", "c": 0x1000,
         "s": 3, "v": 1, "p": 0})
    add({"k": "ud", "m": "custom", "d": "not bytes", "str": 1, "cr": "O", "c": 0xAA00,
         "s": 4, "v": 1})
    payloads = [b"", b"\x00", b"abcd", b"0123456789abcdef0", rbytes(33), bytes(range(64)),
                b'{"a": 1}']
    for rep in range(2):          # twice: exercises the module caches
        for cr, comp in idents:
            for sub in list(range(0, 15)) + [0x80, 0xFF]:
                data = payloads[(sub + comp + rep) % len(payloads)]
                for p in (1, 0):
                    add({"k": "ud", "m": "parse", "d": data.hex(), "cr": cr, "c": comp,
                         "s": sub, "v": rep + 1, "p": p})
                add({"k": "ud", "m": "custom", "d": data.hex(), "cr": cr, "c": comp,
                     "s": sub, "v": rep + 1})
                add({"k": "udsec", "d": data.hex(), "cr": cr, "c": comp, "s": sub,
                     "v": rep + 1, "p": 1})
                add({"k": "edsec", "d": (cr.encode()[:1].ljust(1, b"\x00") + b"\x00\x01\x02"
                                         + data).hex(),
                     "c": comp, "s": sub, "v": rep + 1, "p": 1, "len": len(data) + 12})
    # hw-diags style real parser input
    sig = struct.pack(">I", 2) + bytes.fromhex("20da0040" "00040000" "00000000") * 2
    for sub in (1, 2, 3, 4):
        add({"k": "ud", "m": "parse", "d": sig.hex(), "cr": "O", "c": 0xE500, "s": sub,
             "v": 1, "p": 1})
        add({"k": "udsec", "d": sig.hex(), "cr": "O", "c": 0xE500, "s": sub, "v": 1, "p": 1})
    # section length games
    for ln in (0, 7, 8, 9, 12, 13, 20, 40, 1000):
        for d in (b"", b"abcdefgh", b"O\x00\x00\x00line\nline2"):
            for mv in (False, True):
                add({"k": "udsec", "d": d.hex(), "cr": "O", "c": 0x2000, "s": 3, "v": 1,
                     "p": 1, "len": ln, "mv": mv})
                add({"k": "edsec", "d": d.hex(), "c": 0x2000, "s": 3, "v": 1, "p": 1,
                     "len": ln, "mv": mv})
    for d in (b"\xff\x00\x00\x00abc", b"\x80", b"\x00\x00\x00\x00", b"B\x01\x02\x03payload"):
        add({"k": "edsec", "d": d.hex(), "c": 0x2000, "s": 1, "v": 1, "p": 1,
             "len": len(d) + 8})

    for a, b in ((0, 2), (1, 2), (3, 4), (6, 2), (7, 2), (8, 2), (0, 0), (2, 9)):
        add({"k": "getvalue", "d": "0102030405060708", "a": a, "b": b})

    # ---- whole PELs -------------------------------------------------------
    pels = gen_pels(rnd, srcs, subsections, texts)
    for pel in pels:
        for p in (1, 0):
            add({"k": "pel", "d": pel.hex(), "p": p})
        add({"k": "summary", "d": pel.hex(), "p": 1})
    for pel in pels[:12]:
        for m in mutations(pel, 10, 10):
            add({"k": "pel", "d": m.hex(), "p": rnd.choice((0, 1))})
            add({"k": "summary", "d": m.hex(), "p": 1})
    return cases, pels


def gen_pels(rnd, srcs, subsections, texts):
    pels = []

    def ud(data, sub=1, comp=0x2000, ver=1, length=None):
        return build_section(0x5544, data, ver, sub, comp, length)

    def ed(data, creator=b"O", sub=1, comp=0x2000, ver=1):
        return build_section(0x4544, creator + b"\x00\x00\x00" + data, ver, sub, comp)

    def ps(body, sid=0x5053):
        return build_section(sid, body, 1, 1, 0x1000)

    full_src = build_src_body("BD8D2030", flags=0x01, callouts=subsections[2])
    pels.append(build_pel([ps(full_src), ud(b'{"a": "b"}'), ud(b"t1\nt2\n", sub=3),
                           ed(b'{"ext": 1}'), ed(b"abc", creator=b"B", comp=0xAA00, sub=5)]))
    pels.append(build_pel([ps(full_src), ps(srcs[1], 0x5353), ps(srcs[2], 0x5353),
                           ud(b"\x01\x02\x03", sub=2), ud(b"xyz", sub=9)]))
    pels.append(build_pel([ps(build_src_body("BC8A8A01"))], creator=b"B"))
    pels.append(build_pel([ps(build_src_body("BD8D2031", hexdata=[0xE0, 0, 0, 0, 0, 0, 0, 3]))],
                          creator=b"Z"))
    pels.append(build_pel([ps(build_src_body("BD8D2031", hexdata=[0xE0, 0, 0, 0, 0, 0, 0, 8]))],
                          creator=b"Z"))
    pels.append(build_pel([ps(build_src_body("BD8D2031", word_count=1))], creator=b"O"))
    pels.append(build_pel([ps(build_src_body("BD8D2031", word_count=12))], creator=b"O"))
    pels.append(build_pel([ps(build_src_body("BD8D2030", flags=1,
                                             callouts=subsections[7]))], creator=b"O"))
    pels.append(build_pel([ps(build_src_body("BD8D2030", flags=1,
                                             callouts=subsections[10]))], creator=b"Z"))
    pels.append(build_pel([ud(t, sub=3) for t in texts[:8]]))
    pels.append(build_pel([ud(t, sub=1) for t in texts[28:40]]))
    pels.append(build_pel([ud(b"abcd", sub=s, comp=0xAA00) for s in range(0, 15)]))
    pels.append(build_pel([ed(b"abcd", sub=s, comp=0xAA00, creator=c)
                           for s in range(0, 15) for c in (b"O", b"M")]))
    pels.append(build_pel([ud(b"abcd", comp=0xCC00)], creator=b"X"))
    pels.append(build_pel([ud(b"abcd", comp=0xCC00), ud(b"efgh", comp=0xCC00)], creator=b"W"))
    pels.append(build_pel([ud(b"", sub=1)]))
    pels.append(build_pel([ud(b"abc", sub=1, length=4)]))
    pels.append(build_pel([ed(b"", sub=3)]))
    pels.append(build_pel([ps(full_src)], count=9))
    pels.append(build_pel([ps(full_src), ud(b"x")], count=3))
    pels.append(build_pel([ps(full_src)], sev=0x00, action=0x0000))
    pels.append(build_pel([build_section(0x4D54, b"9105-22A" + b"SN1234567890"),
                           build_section(0x4548, b"\x00" * 60),
                           build_section(0x1234, b"unknown section")]))
    for i, body in enumerate(srcs):
        if i % 3 == 0:
            pels.append(build_pel([ps(body), ud(b"tail\n", sub=3)],
                                  creator=rnd.choice((b"O", b"Z", b"B"))))
    for _ in range(25):
        secs = []
        for _ in range(rnd.randrange(1, 6)):
            c = rnd.random()
            if c < 0.35:
                secs.append(ps(rnd.choice(srcs), rnd.choice((0x5053, 0x5353))))
            elif c < 0.7:
                secs.append(ud(rnd.choice(texts), sub=rnd.choice((1, 2, 3, 4)),
                               comp=rnd.choice((0x2000, 0xAA00, 0xE500, 0x1000))))
            else:
                secs.append(ed(rnd.choice(texts), creator=rnd.choice((b"O", b"B", b"M", b"\xff")),
                               sub=rnd.choice((1, 3, 5)),
                               comp=rnd.choice((0x2000, 0xAA00))))
        pels.append(build_pel(secs, creator=rnd.choice((b"O", b"O", b"Z", b"B", b"H"))))
    return pels


###########################################################################
# Runner
###########################################################################
def run_driver(root, tmp, fakereg, cases_file, tag, optimize):
    res_file = os.path.join(tmp, "results_%s.json" % tag)
    env = dict(os.environ)
    env["PYTHONPATH"] = os.path.join(root, "modules") + os.pathsep + fakereg
    env["PYTHONDONTWRITEBYTECODE"] = "1"
    env["PYTHONHASHSEED"] = "0"
    cmd = [PY] + (["-O"] if optimize else []) + [os.path.join(tmp, "driver.py"),
                                                  cases_file, res_file]
    p = subprocess.run(cmd, env=env, cwd=tmp, stdout=subprocess.PIPE,
                       stderr=subprocess.PIPE, text=True)
    if p.returncode != 0 or not os.path.exists(res_file):
        return {"fatal": [p.returncode, p.stdout, p.stderr.replace(root, "<ROOT>")]}
    with open(res_file) as f:
        # file names in warnings / messages differ by the root only
        return json.loads(f.read().replace(root, "<ROOT>"))


def run_cli(root, tmp, fakereg, args, optimize=False, with_registry=True):
    env = dict(os.environ)
    env["PYTHONPATH"] = os.path.join(root, "modules") + \
        (os.pathsep + fakereg if with_registry else "")
    env["PYTHONDONTWRITEBYTECODE"] = "1"
    env["PYTHONHASHSEED"] = "0"
    cmd = [PY] + (["-O"] if optimize else []) + \
        [os.path.join(root, "modules", "pel", "peltool", "peltool.py")] + args
    p = subprocess.run(cmd, env=env, cwd=tmp, stdout=subprocess.PIPE, stderr=subprocess.PIPE)
    return [p.returncode, p.stdout.decode("utf-8", "replace").replace(root, "<ROOT>"),
            p.stderr.decode("utf-8", "replace").replace(root, "<ROOT>")]


def snapshot(directory):
    res = {}
    for name in sorted(os.listdir(directory)):
        path = os.path.join(directory, name)
        if os.path.isfile(path):
            with open(path, "rb") as f:
                res[name] = f.read().hex()
    return res


def main():
    if len(sys.argv) != 3:
        print("usage: diffcheck.py <pristine_root> <patched_root>")
        return 2
    roots = [os.path.abspath(sys.argv[1]), os.path.abspath(sys.argv[2])]
    tmp = tempfile.mkdtemp(prefix="diffcheck_", dir=HERE)
    n_cases = 0
    diffs = []
    try:
        fakereg = make_fake_registry(tmp)
        with open(os.path.join(tmp, "driver.py"), "w") as f:
            f.write(DRIVER)
        cases, pels = gen_cases(tmp)
        cases_file = os.path.join(tmp, "cases.json")
        with open(cases_file, "w") as f:
            json.dump(cases, f)

        # --- in-process API level comparison ------------------------------
        for optimize in (False, True):
            res = [run_driver(r, tmp, fakereg, cases_file, "%d_%d" % (i, optimize), optimize)
                   for i, r in enumerate(roots)]
            if isinstance(res[0], dict) or isinstance(res[1], dict):
                diffs.append(("driver failure", res[0] if isinstance(res[0], dict) else "ok",
                              res[1] if isinstance(res[1], dict) else "ok"))
                continue
            if len(res[0]) != len(cases) or len(res[1]) != len(cases):
                diffs.append(("result count", len(res[0]), len(res[1])))
                continue
            for case, a, b in zip(cases, res[0], res[1]):
                n_cases += 1
                if a != b:
                    diffs.append((("-O " if optimize else "") + json.dumps(case)[:300], a, b))

        # --- command line level comparison --------------------------------
        peldir = os.path.join(tmp, "pels")
        os.makedirs(peldir)
        rnd = random.Random(77)
        files = []
        for i, pel in enumerate(pels):
            path = os.path.join(peldir, "pel%03d" % i)
            with open(path, "wb") as f:
                f.write(pel)
            files.append(path)
        for i, pel in enumerate(pels[:10]):
            for j in range(3):
                path = os.path.join(peldir, "bad%03d_%d" % (i, j))
                cut = rnd.randrange(40, len(pel))
                b = bytearray(pel[:cut] if j == 0 else pel)
                if j:
                    for _ in range(3):
                        b[rnd.randrange(72, len(b))] = rnd.getrandbits(8)
                with open(path, "wb") as f:
                    f.write(bytes(b))
                files.append(path)
        cli_runs = []
        for i, path in enumerate(files):
            cli_runs.append((["-f", path], False, True))
            if i % 2 == 0:
                cli_runs.append((["-f", path, "-P"], False, True))
            if i % 5 == 0:
                cli_runs.append((["-f", path], True, True))
            if i % 7 == 0:
                cli_runs.append((["-f", path], False, False))
            if i % 9 == 0:
                cli_runs.append((["-f", path, "-x"], False, True))
        for extra in (["-l"], ["-lE"], ["-a"], ["-aE"], ["-n"], ["-nE"], ["-lEr"], ["-lE", "-P"],
                      ["--src", "BD8D2030"], ["--src", "BD"], ["--plid", "0x50000001"],
                      ["-i", "0x50000001"], ["--bmc-id", "7"], ["-aE", "-x"], ["-lN"], ["-lH"],
                      ["-l", "-S", "Unrecoverable"]):
            cli_runs.append((["-p", peldir] + extra, False, True))
        cli_runs.append((["-p", peldir, "-aE"], True, True))
        cli_runs.append((["-p", peldir, "-lE"], False, False))
        for args, optimize, with_reg in cli_runs:
            n_cases += 1
            a = run_cli(roots[0], tmp, fakereg, args, optimize, with_reg)
            b = run_cli(roots[1], tmp, fakereg, args, optimize, with_reg)
            if a != b:
                diffs.append(("cli " + " ".join(args), a, b))
        # -j: compare the files that get written
        outs = []
        for i, root in enumerate(roots):
            for tag, extra in (("j", []), ("jP", ["-P"])):
                outdir = os.path.join(tmp, "out_%s_%d" % (tag, i))
                os.makedirs(outdir)
                r = run_cli(root, tmp, fakereg, ["-p", peldir, "-j", "-o", outdir] + extra)
                r[2] = r[2].replace(outdir, "<OUT>")
                outs.append((tag, r, snapshot(outdir)))
        half = len(outs) // 2
        for a, b in zip(outs[:half], outs[half:]):
            n_cases += 1
            if a != b:
                diffs.append(("cli -j " + a[0], a[1], b[1]))
                if a[2] != b[2]:
                    names = [n for n in set(a[2]) | set(b[2]) if a[2].get(n) != b[2].get(n)]
                    diffs.append(("cli -j files " + a[0], names, ""))
    finally:
        if os.environ.get("DIFFCHECK_KEEP"):
            print("kept", tmp)
        else:
            shutil.rmtree(tmp, ignore_errors=True)

    if diffs:
        for what, a, b in diffs[:15]:
            print("DIFF:", what)
            print("  pristine:", json.dumps(a)[:1500])
            print("  patched :", json.dumps(b)[:1500])
        print("DIFFERENT (%d of %d cases differ)" % (len(diffs), n_cases))
        return 1
    print("IDENTICAL (%d cases)" % n_cases)
    return 0


if __name__ == "__main__":
    sys.exit(main())
