#!/usr/bin/env python
"""
Differential check for refactorings of the PEL header / datastream / hexdump
area of openpower-pel-parsers.

    python diffcheck.py <pristine_root> <patched_root>

The script runs itself as a "driver" in sub-processes (one per code root, per
environment and with/without -O) with the code root on sys.path, lets the
driver exercise the library API on many generated inputs, and compares the
recorded outcomes (return values, decoded JSON, exception type + message,
stream position, stderr text).  After that the peltool CLI of both roots is
run on a directory of generated PEL files with many option combinations and
stdout / stderr / exit status / created and removed files are compared.

Exit status 0 and "IDENTICAL (<n> cases)" if everything is the same.
"""
import contextlib
import io
import json
import os
import random
import shutil
import struct
import subprocess
import sys
import tempfile

PY = sys.executable
CREATORS = list("BCHKLMOPST") + ["X", "", "z"]
COMP_IDS = [0x0000, 0x4800, 0x0048, 0x4142, 0x1000, 0x2000, 0xABCD, 0xBD8D,
            0xFFFF, 0x0100, 0x3030]


# --------------------------------------------------------------------------
# binary builders (shared by driver and CLI part)
# --------------------------------------------------------------------------

def bcd_ts(rnd):
    return bytes([0x20, rnd.choice([0x21, 0x22, 0x99]), rnd.randrange(1, 0x13),
                  rnd.randrange(1, 0x29), rnd.randrange(0, 0x24),
                  rnd.randrange(0, 0x60), rnd.randrange(0, 0x60),
                  rnd.randrange(0, 256)])


def hdr(tag, payload_len, ver, sub, comp):
    return tag.encode() + struct.pack(">HBBH", payload_len + 8, ver, sub, comp)


def ph_payload(rnd, creator="O", count=2, logid=None, plid=None, eid=None):
    c = creator.encode() if isinstance(creator, str) else creator
    c = (c + b"\0")[:1]
    return (bcd_ts(rnd) + bcd_ts(rnd) + c + bytes([rnd.randrange(256),
            rnd.randrange(256), count]) +
            struct.pack(">IQII",
                        rnd.randrange(1 << 32) if logid is None else logid,
                        rnd.choice([0, 1, 0x1122334455667788,
                                    rnd.randrange(1 << 64)]),
                        rnd.randrange(1 << 32) if plid is None else plid,
                        rnd.randrange(1 << 32) if eid is None else eid))


def uh_payload(rnd, sev=None, flags=None, states=None):
    sev = rnd.choice([0, 0x10, 0x20, 0x21, 0x40, 0x51, 0x52, 0x61, 0x71,
                      0x99, rnd.randrange(256)]) if sev is None else sev
    flags = rnd.choice([0, 0x8000, 0x4000, 0x2000, 0xA000, 0x6000, 0xE000,
                        0xFFFF, 0x0920, rnd.randrange(1 << 16)]) \
        if flags is None else flags
    states = rnd.choice([0, 1, 2, 3, 0x0102, 0x0304, 0xFFFFFFFF, 0x00030002,
                         rnd.randrange(1 << 32)]) if states is None else states
    return (bytes([rnd.choice([0x10, 0x20, 0x8D, 0x76, 0x00, rnd.randrange(256)]),
                   rnd.randrange(0, 6), sev,
                   rnd.choice([0, 1, 2, 8, 0x30, 0x77])]) +
            struct.pack(">IBBHI", rnd.randrange(1 << 32), rnd.randrange(256),
                        rnd.randrange(256), flags, states))


def text_field(rnd, size):
    kind = rnd.choice([0, 1, 1, 1, 2, 2, 2, 3, 3, 4, 4, 1, 2, 1, 2, 5])
    if kind == 0:
        return bytes(size)
    if kind == 1:
        s = bytes(rnd.choice(b"ABCDEFGHIJ0123456789-_ ") for _ in range(size))
        return s
    if kind == 2:
        n = rnd.randrange(size + 1)
        s = bytes(rnd.choice(b"abcXYZ019") for _ in range(n))
        return s + bytes(size - n)
    if kind == 3:      # leading / embedded NULs
        s = bytearray(rnd.choice(b"QRS\0\0 ") for _ in range(size))
        return bytes(s)
    if kind == 4:      # multi byte utf-8
        s = ("\u00e9\u00fc" * size).encode()[:size]
        if size % 2:
            s = s[:-1] + b"x"
        return s
    return bytes(rnd.randrange(256) for _ in range(size))   # likely invalid


def eh_payload(rnd, symlen=None):
    if symlen is None:
        symlen = rnd.choice([0, 0, 4, 20, 40, 80])
    return (text_field(rnd, 8) + text_field(rnd, 12) + text_field(rnd, 16) +
            text_field(rnd, 16) + struct.pack(">I", rnd.randrange(1 << 32)) +
            bcd_ts(rnd) + bytes([rnd.randrange(256), rnd.randrange(256),
                                 rnd.randrange(256), symlen]) +
            (text_field(rnd, symlen) if symlen else b""))


def mt_payload(rnd):
    return text_field(rnd, 8) + text_field(rnd, 12)


def lp_payload(rnd, namelen=None, count=None, pad=True):
    namelen = rnd.choice([0, 0, 1, 5, 16, 31]) if namelen is None else namelen
    count = rnd.choice([0, 0, 1, 2, 3, 7]) if count is None else count
    out = struct.pack(">HBBI", rnd.randrange(1 << 16), namelen, count,
                      rnd.randrange(1 << 32))
    out += text_field(rnd, namelen) if namelen else b""
    out += b"".join(struct.pack(">H", rnd.randrange(1 << 16))
                    for _ in range(count))
    if count % 2 and pad:
        out += b"\0\0"
    return out


def ps_payload(rnd, creator, ascii_ref=None, words=9):
    if ascii_ref is None:
        ascii_ref = rnd.choice(["BD8D1001", "BC8A0401", "11002600", "B7001111",
                                "BD602001"])
    asc = ascii_ref.ljust(32).encode()
    return (bytes([2, rnd.choice([0, 0, 0x80, 0x10, 0x04]), 0, words]) +
            struct.pack(">HH", 0, 72) +
            b"".join(struct.pack(">I", rnd.randrange(1 << 32))
                     for _ in range(8)) + asc)


def build_pel(rnd, creator="O", sev=None, flags=None, extra=(), eid=None,
              plid=None, logid=None, with_src=True, ref=None, states=None,
              count_delta=0):
    sections = []
    if with_src:
        sections.append(hdr("PS", 72, 1, 1, rnd.choice(COMP_IDS)) +
                        ps_payload(rnd, creator, ref))
    eh = eh_payload(rnd)
    sections.append(hdr("EH", len(eh), 1, 0, rnd.choice(COMP_IDS)) + eh)
    mt = mt_payload(rnd)
    sections.append(hdr("MT", len(mt), 1, 0, rnd.choice(COMP_IDS)) + mt)
    for kind in extra:
        if kind == "LP":
            p = lp_payload(rnd)
            sections.append(hdr("LP", len(p), 1, 0, rnd.choice(COMP_IDS)) + p)
        elif kind == "UD":
            p = bytes(rnd.randrange(256)
                      for _ in range(rnd.choice([4, 16, 33, 70])))
            sections.append(hdr("UD", len(p), rnd.randrange(4),
                                rnd.randrange(4), rnd.choice(COMP_IDS)) + p)
        elif kind == "XX":
            p = bytes(rnd.randrange(256)
                      for _ in range(rnd.choice([1, 15, 16, 17, 48])))
            sections.append(hdr(rnd.choice(["DH", "SW", "ZZ", "CH"]), len(p),
                                1, 0, rnd.choice(COMP_IDS)) + p)
    count = 2 + len(sections) + count_delta
    php = ph_payload(rnd, creator, count, logid, plid, eid)
    uhp = uh_payload(rnd, sev, flags, states)
    return (hdr("PH", len(php), 1, 0, rnd.choice(COMP_IDS)) + php +
            hdr("UH", len(uhp), 1, 0, rnd.choice(COMP_IDS)) + uhp +
            b"".join(sections))


# --------------------------------------------------------------------------
# driver
# --------------------------------------------------------------------------

def outcome(fn):
    """Run fn, return a JSON serialisable description of what happened."""
    err = io.StringIO()
    try:
        with contextlib.redirect_stderr(err):
            val = fn()
        res = {"ok": val}
    except BaseException as e:      # incl. SystemExit
        res = {"exc": [type(e).__name__, str(e)]}
    if err.getvalue():
        res["stderr"] = err.getvalue()
    return res


def jsonable(v):
    if isinstance(v, (bytes, bytearray)):
        return {"__bytes__": type(v).__name__, "hex": bytes(v).hex()}
    if isinstance(v, memoryview):
        return {"__mv__": v.tobytes().hex()}
    if isinstance(v, dict):
        return {"__dict__": type(v).__name__,
                "items": [[jsonable(k), jsonable(x)] for k, x in v.items()]}
    if isinstance(v, (list, tuple)):
        return {"__seq__": type(v).__name__, "items": [jsonable(x) for x in v]}
    if isinstance(v, bool) or v is None or isinstance(v, (int, str, float)):
        return {"__v__": type(v).__name__, "v": v}
    return {"__repr__": repr(v)}


def public_state(obj):
    """All public instance attributes (the stream itself excluded)."""
    return [[name, jsonable(value)] for name, value in sorted(vars(obj).items())
            if not name.startswith("_") and name != "stream"]


def driver(root, env, workdir):
    sys.path.insert(0, os.path.join(root, "modules"))
    if env in ("registry", "badjson"):
        sys.path.insert(0, os.path.join(workdir, "env_" + env))
    rnd = random.Random(20260318)
    records = []

    def rec(label, res):
        records.append([label, res])

    from pel.datastream import DataStream
    import pel.hexdump as hd
    import pel.peltool.comp_id as comp_id
    if env == "bmc":
        comp_id.pelConfigRootPath = os.path.join(workdir, "env_bmc")
    from pel.peltool.private_header import PrivateHeader, getTimestamp
    from pel.peltool.user_header import UserHeader
    from pel.peltool.extend_user_header import ExtendedUserHeader
    from pel.peltool.failing_mtms import FailingMTMS
    from pel.peltool.imp_partition import ImpactedPartition
    import pel.peltool.pel_values as pel_values
    import pel.peltool.pel_types as pel_types

    # ---- tables and enums ------------------------------------------------
    if env == "none":
        for name in sorted(n for n in vars(pel_values)
                           if not n.startswith("_")):
            v = getattr(pel_values, name)
            if isinstance(v, dict):
                rec("pel_values." + name, jsonable(v))
        for name in ["SeverityValues", "ActionFlagsValues",
                     "TransmissionState", "SectionID", "SRCType"]:
            cls = getattr(pel_types, name)
            rec("pel_types." + name,
                [[m.name, jsonable(m.value), repr(m), str(m),
                  type(m).__name__, type(m).__mro__[1].__name__]
                 for m in cls])
            rec("pel_types." + name + ".lookup",
                [outcome(lambda m=m: cls(m.value).name) for m in cls] +
                [outcome(lambda: cls(0x7777).name),
                 outcome(lambda: cls["nope"].name),
                 outcome(lambda: len(cls)),
                 outcome(lambda: cls.__name__ + "|" + cls.__module__)])

    # ---- DataStream -------------------------------------------------------
    if env == "none":
        for case in range(260):
            size = rnd.choice([0, 1, 2, 3, 8, 17, 40])
            raw = bytes(rnd.randrange(256) for _ in range(size))
            kind = rnd.randrange(3)
            data = raw if kind == 0 else (memoryview(raw) if kind == 1
                                          else bytearray(raw))
            order = rnd.choice(["big", "little", None, "big", "middle"])
            signed = rnd.choice([True, False, None, False])
            args = rnd.randrange(4)
            if args == 0:
                mk = lambda: DataStream(data)
            elif args == 1:
                mk = lambda: DataStream(data, order)
            else:
                mk = lambda: DataStream(data, byte_order=order,
                                        is_signed=signed)
            s = mk()
            trace = [[s.size, s.index, repr(s.byte_order), repr(s.is_signed)]]
            for _ in range(rnd.randrange(1, 9)):
                op = rnd.choice(["check", "inc", "mem", "int", "int2", "int3"])
                n = rnd.choice([1, 1, 2, 4, 8, 3, 0, -1, 50, size, size + 1])
                if op == "check":
                    r = outcome(lambda: jsonable(s.check_range(n)))
                elif op == "inc":
                    r = outcome(lambda: jsonable(s.inc_index(n)))
                elif op == "mem":
                    r = outcome(lambda: jsonable(s.get_mem(n)))
                elif op == "int":
                    r = outcome(lambda: jsonable(s.get_int(n)))
                elif op == "int2":
                    bo = rnd.choice(["big", "little", None])
                    r = outcome(lambda: jsonable(s.get_int(n, bo)))
                else:
                    bo = rnd.choice(["big", "little", None])
                    sg = rnd.choice([True, False, None])
                    r = outcome(lambda: jsonable(
                        s.get_int(n, byte_order=bo, is_signed=sg)))
                trace.append([op, n, r, s.index])
            rec("datastream.%d" % case, trace)
        # odd argument types
        s = DataStream(b"0123456789", "big", False)
        rec("datastream.odd", [
            outcome(lambda: jsonable(s.get_mem(2.0))), s.index,
            outcome(lambda: jsonable(s.get_mem("2"))), s.index,
            outcome(lambda: jsonable(s.check_range(True))), s.index,
            outcome(lambda: jsonable(s.get_int(True))), s.index,
            outcome(lambda: jsonable(s.inc_index(None))), s.index,
            outcome(lambda: jsonable(s.check_range(1.5))), s.index,
            outcome(lambda: jsonable(s.get_int(2, 0, 0))), s.index,
            outcome(lambda: jsonable(s.get_int(2, "", False))), s.index,
        ])

    # ---- hexdump / parse --------------------------------------------------
    if env == "none":
        combos = [(16, 4), (8, 2), (1, 1), (16, 16), (16, 3), (7, 4), (4, 8),
                  (256, 256), (256, 1), (32, 5), (3, 2)]
        for case in range(170):
            size = rnd.choice([0, 1, 3, 4, 15, 16, 17, 31, 32, 33, 100, 300])
            mode = rnd.randrange(4)
            if mode == 0:
                raw = bytes(rnd.randrange(256) for _ in range(size))
            elif mode == 1:
                raw = bytes(rnd.randrange(0x1e, 0x82) for _ in range(size))
            elif mode == 2:
                raw = bytes(rnd.choice([0x1f, 0x20, 0x7e, 0x7f, 0x80, 0, 255])
                            for _ in range(size))
            else:
                raw = bytes(size)
            kind = rnd.randrange(4)
            data = [raw, memoryview(raw), bytearray(raw), list(raw)][kind]
            if case % 3 == 0:
                rec("hexdump.default.%d" % case,
                    outcome(lambda: jsonable(hd.hexdump(data))))
            else:
                bpl, bpc = rnd.choice(combos)
                rec("hexdump.%d.%d.%d" % (case, bpl, bpc),
                    outcome(lambda: jsonable(hd.hexdump(data, bpl, bpc))))
        raw = bytes(range(40))
        for bpl, bpc in [(0, 4), (257, 4), (16, 0), (16, 257), (-1, 4),
                         (16, -4), (0, 0), (300, 300), (1.5, 1), (16, 2.5),
                         ("16", 4), (None, 4), (True, True)]:
            rec("hexdump.bad.%r.%r" % (bpl, bpc),
                outcome(lambda: jsonable(hd.hexdump(raw, bpl, bpc))))
            rec("hexdump.badkw.%r.%r" % (bpl, bpc),
                outcome(lambda: jsonable(hd.hexdump(
                    raw, bytes_per_chunk=bpc, bytes_per_line=bpl))))
        for data in ["abc", [1, "x", 3], [1.5, 2], [300, -2, 65], None, 5,
                     [True, False], memoryview(b"abcdefgh").cast("H"),
                     (65, 66, 67), range(60, 90)]:
            rec("hexdump.oddtype.%s" % type(data).__name__,
                outcome(lambda: jsonable(hd.hexdump(data))))
            rec("hexdump.oddtype2.%s" % type(data).__name__,
                outcome(lambda: jsonable(hd.hexdump(data, 5, 2))))
        rec("hexdump.DEFAULT_LINE_FORMAT", hd.DEFAULT_LINE_FORMAT)

        formats = [None,
                   'DD DD DD DD DD DD DD DD DD DD DD DD DD DD DD DD '
                   'CCCCCCCCCCCCCCCC',
                   'AAAA: DDDD DDDD DDDD DDDD |CCCCCCCC|',
                   'D D D D', 'DDD', 'ADAD', '', 'CCDD', '|DD|DD|',
                   'AAAAAAAA     DDDDDDDD  DDDDDDDD     CCCCCCCC']
        for case in range(220):
            size = rnd.choice([0, 1, 5, 16, 17, 40, 64])
            raw = bytes(rnd.randrange(256) for _ in range(size))
            fmt = formats[case % len(formats)]
            if fmt is None or fmt.startswith('AAAAAAAA     DDDDDDDD  DDDDDDDD  '):
                lines = hd.hexdump(raw)
            elif fmt.startswith('DD DD'):
                lines = hd.hexdump(raw, 16, 1)
                lines = [l[13:].replace("  ", " ")[:48] + l[-16:]
                         for l in lines]
            elif fmt.startswith('AAAA:'):
                lines = ["%04x: " % (i * 8) + raw[i * 8:i * 8 + 8].hex() for
                         i in range((size + 7) // 8)]
                lines = [l[:10] + " " + l[10:14] + " " + l[14:18] + " " +
                         l[18:22] + " |........|" for l in lines]
            elif fmt.startswith('AAAAAAAA     DDDDDDDD  DDDDDDDD     '):
                lines = hd.hexdump(raw, 8, 4)
            else:
                lines = [raw.hex(), raw.hex()[:3], "|ab|cd|", "a b c d",
                         "zz", "12345", "1 2 3 4", "g1", "1g", "x9ab"]
            # mutate
            mut = rnd.randrange(7)
            lines = list(lines)
            if lines and mut == 1:
                k = rnd.randrange(len(lines))
                l = lines[k]
                if l:
                    p = rnd.randrange(len(l))
                    lines[k] = l[:p] + rnd.choice("gZ |-\t0aF") + l[p + 1:]
            elif lines and mut == 2:
                k = rnd.randrange(len(lines))
                lines[k] = lines[k][:rnd.randrange(len(lines[k]) + 1)]
            elif mut == 3:
                lines = [l + "\n" for l in lines]
            elif mut == 4:
                lines = [l + rnd.choice(["  ", "\n\n", "extra", "\r\n"])
                         for l in lines]
            elif mut == 5:
                lines.insert(rnd.randrange(len(lines) + 1),
                             rnd.choice(["", "garbage", "0000", "\n",
                                         "00000000     D"]))
            elif lines and mut == 6:
                k = rnd.randrange(len(lines))
                lines[k] = lines[k].lower()
            if fmt is None:
                rec("parse.default.%d" % case,
                    outcome(lambda: jsonable(hd.parse(lines))))
            else:
                rec("parse.%d" % case,
                    outcome(lambda: jsonable(hd.parse(lines, fmt))))
                rec("parse.kw.%d" % case,
                    outcome(lambda: jsonable(hd.parse(
                        line_format=fmt, lines=iter(lines)))))
        for lines in [None, "abc", [b"00"], [None], [12], ("00000000     AB",),
                      ["00000000     ABCDEF"], ["0000000\u0660     AB"],
                      ["00000000     \uff21B"], ["00000000     A\n"]]:
            rec("parse.odd.%r" % (lines,),
                outcome(lambda: jsonable(hd.parse(lines))))

    # ---- getTimestamp -----------------------------------------------------
    if env == "none":
        for case in range(60):
            n = rnd.choice([0, 1, 2, 3, 5, 7, 8, 9, 16, 20])
            raw = bytes(rnd.randrange(256) for _ in range(n))
            for data in (raw, memoryview(raw)):
                s = DataStream(data, "big", False)
                s.index = min(n, rnd.choice([0, 0, 1, 4]))
                trace = []
                for _ in range(3):
                    trace.append([outcome(lambda: jsonable(getTimestamp(s))),
                                  s.index])
                rec("timestamp.%d.%s" % (case, type(data).__name__), trace)

    # ---- getDisplayCompID -------------------------------------------------
    ids = list(COMP_IDS) + [rnd.randrange(1 << 16) for _ in range(12)] + \
        [-1, 0x12345, 0x41, 0x4100, 0x7F7F]
    trace = []
    for rep in range(2):
        for creator in CREATORS + ["BMC", None, 7, "o"]:
            for cid in ids:
                r = outcome(lambda: comp_id.getDisplayCompID(cid, creator))
                trace.append([rep, repr(creator), cid, r])
        trace.append(["state", comp_id.attemptedToParseCompIDs,
                      sorted(comp_id.componentIDs.keys())])
    trace.append(outcome(lambda: comp_id.getDisplayCompID("x", "O")))
    trace.append(outcome(lambda: comp_id.getDisplayCompID(1.5, "H")))
    trace.append(outcome(lambda: comp_id.getDisplayCompID([], [])))
    trace.append(outcome(lambda: jsonable(comp_id.getAllCreatorsCompIDs())))
    trace.append(jsonable(comp_id.componentIDs))
    for i, t in enumerate(trace):
        rec("compid.%d" % i, t)

    # ---- sections ---------------------------------------------------------
    def make(clsname, stream, ver, sub, comp, creator):
        if clsname == "PrivateHeader":
            return PrivateHeader(stream, 0x5048, 48, ver, sub, comp)
        cls = {"UserHeader": UserHeader,
               "ExtendedUserHeader": ExtendedUserHeader,
               "FailingMTMS": FailingMTMS,
               "ImpactedPartition": ImpactedPartition}[clsname]
        return cls(stream, 0x5555, 99, ver, sub, comp, creator)

    def run_section(label, clsname, data, order="big", signed=False,
                    repeat=1, ctor="kw"):
        ver, sub = rnd.randrange(256), rnd.randrange(256)
        comp, creator = rnd.choice(COMP_IDS), rnd.choice(CREATORS)
        if ctor == "kw":
            s = DataStream(data, byte_order=order, is_signed=signed)
        else:
            s = DataStream(data)
        obj = make(clsname, s, ver, sub, comp, creator)
        trace = [[ver, sub, comp, creator], public_state(obj)]
        for _ in range(repeat):
            def call():
                out = obj.toJSON()
                return [type(out).__name__, jsonable(out),
                        json.dumps(out, indent=4)]
            r = outcome(call)
            attrs = public_state(obj)
            if clsname == "UserHeader":
                attrs.append(["isHidden", outcome(
                    lambda: jsonable(obj.isHidden()))])
                attrs.append(["isServiceable", outcome(
                    lambda: jsonable(obj.isServiceable()))])
            trace.append([r, s.index, attrs])
        rec(label, trace)

    gens = {
        "PrivateHeader": lambda: ph_payload(
            rnd, rnd.choice(CREATORS[:-2] + [b"\xff", b"\xc3", b"\0", "~"]),
            rnd.randrange(256)),
        "UserHeader": lambda: uh_payload(rnd),
        "ExtendedUserHeader": lambda: eh_payload(rnd),
        "FailingMTMS": lambda: mt_payload(rnd),
        "ImpactedPartition": lambda: lp_payload(rnd, pad=rnd.random() < .8),
    }
    nwell = {"none": 40, "registry": 12, "bmc": 8, "badjson": 6}[env]
    for clsname, gen in gens.items():
        for case in range(nwell):
            p = gen()
            tag = "%s.%d" % (clsname, case)
            run_section(tag + ".full", clsname, p)
            run_section(tag + ".trail", clsname, p + b"\x01\x02\x03\x04")
            if env != "none":
                continue
            if case < 12:
                for cut in range(len(p)):
                    run_section(tag + ".cut%d" % cut, clsname, p[:cut])
            else:
                for _ in range(3):
                    run_section(tag + ".rcut", clsname,
                                p[:rnd.randrange(len(p) + 1)])
            for k in range(4):
                q = bytearray(p)
                for _ in range(rnd.randrange(1, 4)):
                    q[rnd.randrange(len(q))] = rnd.choice(
                        [0, 0xff, 0x80, 0xc3, rnd.randrange(256)])
                run_section(tag + ".mut%d" % k, clsname, bytes(q))
            run_section(tag + ".mv", clsname, memoryview(p))
            run_section(tag + ".ba", clsname, bytearray(p))
            run_section(tag + ".little", clsname, p, "little", False)
            run_section(tag + ".signed", clsname, p, "big", True)
            run_section(tag + ".noorder", clsname, p, None, None)
            run_section(tag + ".nosign", clsname, p, "big", None)
            run_section(tag + ".plain", clsname, p, ctor="plain")
            run_section(tag + ".twice", clsname, p + gen() + gen()[:-1],
                        repeat=3)
        if env == "none":
            for case in range(40):
                n = rnd.randrange(0, 120)
                run_section("%s.rand%d" % (clsname, case), clsname,
                            bytes(rnd.randrange(256) for _ in range(n)))

    # UserHeader predicates without decoding, with directly set attributes
    if env == "none":
        for sev in [0, 0x10, 0x20, 0x51, 0xff, 1]:
            for flags in [0, 0x8000, 0x4000, 0x2000, 0x6000, 0xA000, 0xC000,
                          0xE000, 0xFFFF, 0x1FFF]:
                uh = UserHeader(None, 1, 2, 3, 4, 5, "O")
                pre = [outcome(lambda: jsonable(uh.isHidden())),
                       outcome(lambda: jsonable(uh.isServiceable()))]
                uh.eventSeverity = sev
                uh.actionFlags = flags
                rec("uh.pred.%x.%x" % (sev, flags), pre + [
                    outcome(lambda: jsonable(uh.isHidden())),
                    outcome(lambda: jsonable(uh.isServiceable()))])

    json.dump(records, sys.stdout)


# --------------------------------------------------------------------------
# main
# --------------------------------------------------------------------------

def make_envs(workdir):
    reg = os.path.join(workdir, "env_registry", "pel_registry")
    os.makedirs(reg)
    with open(os.path.join(reg, "__init__.py"), "w") as f:
        f.write("import os\n"
                "def get_registry_path():\n"
                "    return os.path.join(os.path.dirname(__file__), "
                "'message_registry.json')\n")
    with open(os.path.join(reg, "message_registry.json"), "w") as f:
        json.dump({"PELs": [
            {"Name": "a", "SRC": {"ReasonCode": "0x1001",
                                  "Words6To9": {"6": {
                                      "Description": "word six",
                                      "AdditionalDataPropSource": "W6"}}},
             "Documentation": {"Message": "Message one %1",
                               "MessageArgSources": ["SRCWord6"]}},
            {"Name": "b", "SRC": {"ReasonCode": "0x0401", "Type": "BC"},
             "Documentation": {"Message": "hostboot thing"}},
            {"Name": "c", "SRC": {"ReasonCode": "0x2600", "Type": "11"},
             "Documentation": {"Message": "power thing"}}]}, f)

    def comp_files(d):
        files = {
            "O_component_ids.json": {"1000": "bmc-thousand", "2000": "logging",
                                     "ABCD": "upper", "abcd": "lower",
                                     "BD8D": "bd", "0000": "zero",
                                     "FFFF": "all", "-001": "neg"},
            "B_component_ids.json": {"0100": "hb-one", "3030": "zerozero",
                                     "4142": ""},
            "H_component_ids.json": {"4800": "never used for PHYP"},
            "X_component_ids.json": ["1000", "ABCD"],
            "T_component_ids.json.bak": {"1000": "occ-bak"},
            "_component_ids.json": {"1000": "empty creator"},
            "readme.txt": None,
            "K.json": {"1000": "nope"},
        }
        for name, content in files.items():
            with open(os.path.join(d, name), "w") as f:
                if content is None:
                    f.write("not json")
                else:
                    json.dump(content, f)

    comp_files(reg)
    bmc = os.path.join(workdir, "env_bmc")
    os.makedirs(bmc)
    comp_files(bmc)
    with open(os.path.join(bmc, "M_component_ids.json"), "w") as f:
        json.dump({"1000": "drawer"}, f)
    bad = os.path.join(workdir, "env_badjson", "pel_registry")
    os.makedirs(bad)
    shutil.copy(os.path.join(reg, "__init__.py"), bad)
    shutil.copy(os.path.join(reg, "message_registry.json"), bad)
    for name in ["A", "O", "B", "Z"]:
        with open(os.path.join(bad, name + "_component_ids.json"), "w") as f:
            f.write("{ this is : not json")


def make_pels(workdir):
    rnd = random.Random(777)
    d = os.path.join(workdir, "pels")
    os.makedirs(d)
    specs = [
        dict(creator="O", sev=0x40, flags=0xA000, extra=("UD",),
             eid=0x50000001, plid=0x50000001, logid=1, ref="BD8D1001"),
        dict(creator="O", sev=0x00, flags=0x0000, extra=("UD", "UD"),
             eid=0x50000002, plid=0x50000001, logid=2),
        dict(creator="B", sev=0x51, flags=0x2000, extra=("XX", "LP"),
             eid=0x90000003, plid=0x90000003, logid=3, ref="BC8A0401"),
        dict(creator="H", sev=0x20, flags=0x6000, extra=("LP", "LP", "XX"),
             eid=0x50000004, logid=4),
        dict(creator="O", sev=0x10, flags=0x8000, extra=(), eid=0x50000005,
             logid=5, ref="11002600"),
        dict(creator="T", sev=0x00, flags=0x8000, extra=("XX", "XX", "XX"),
             eid=0x50000006, logid=6),
        dict(creator="X", sev=0x71, flags=0xE000, extra=("UD",),
             eid=0x50000007, logid=7, with_src=False),
        dict(creator="M", sev=0x61, flags=0x2000, extra=("LP",),
             eid=0x50000008, logid=8, states=0x0302),
        dict(creator="O", sev=0x40, flags=0x2000, extra=("UD", "XX"),
             eid=0x50000009, logid=9, count_delta=1),       # too many
        dict(creator="O", sev=0x40, flags=0x2000, extra=("UD", "XX"),
             eid=0x5000000A, logid=10, count_delta=-1),
        dict(creator="S", sev=0x23, flags=0x2800, extra=("UD",),
             eid=0x5000000B, logid=11),
        dict(creator="C", sev=0x54, flags=0x4000, extra=(),
             eid=0x5000000C, logid=12),
    ]
    pels = []
    for i, spec in enumerate(specs):
        data = build_pel(rnd, **spec)
        pels.append(data)
        ext = ".pel" if i % 3 else ""
        with open(os.path.join(d, "%02d_%08X%s" % (i, spec["eid"], ext)),
                  "wb") as f:
            f.write(data)
    # malformed files
    base = pels[0]
    bad = {
        "20_empty": b"",
        "21_short_ph": base[:20],
        "22_cut_in_ph": base[:47],
        "23_cut_in_uh": base[:60],
        "24_cut_after_uh": base[:72],
        "25_cut_in_src": base[:100],
        "26_cut_in_eh.pel": pels[4][:72 + 80 + 30],
        "27_cut_in_mt": pels[4][:-5],
        "28_garbage": bytes(rnd.randrange(256) for _ in range(300)),
        "29_not_ph": b"XX" + base[2:],
        "30_not_uh.pel": base[:48] + b"QQ" + base[50:],
        "31_bad_creator": base[:24] + b"\xff" + base[25:],
        "32_bad_utf8_eh": pels[4][:72 + 80 + 8] + b"\xff\xfe" +
        pels[4][72 + 80 + 10:],
        "33_lp_cut": pels[3][:-3],
        "34_zero_len_section": base[:72] + b"ZZ\x00\x08\x01\x00\x10\x00" * 3,
        "35_text.txt": b"this is not a PEL\n" * 4,
    }
    for name, data in bad.items():
        with open(os.path.join(d, name), "wb") as f:
            f.write(data)
    with open(os.path.join(workdir, "exclude.txt"), "w") as f:
        f.write("BD8D1001\n")
    return d


def snapshot(d):
    out = []
    for dirpath, dirs, files in os.walk(d):
        dirs.sort()
        for name in sorted(files):
            p = os.path.join(dirpath, name)
            with open(p, "rb") as f:
                out.append([os.path.relpath(p, d), f.read().hex()])
    return out


def norm_err(text, root):
    text = text.replace(root, "<ROOT>")
    if "Traceback (most recent call last)" in text:
        # keep everything before the traceback and its last line only
        head, _, tail = text.partition("Traceback (most recent call last)")
        last = [l for l in tail.splitlines() if l.strip()][-1:]
        text = head + "<TRACEBACK> " + "".join(last)
    return text


def run_cli(root, workdir, env, opt, args, pel_src, scratch_tag):
    """Runs peltool with a private copy of the PEL dir; returns outcome."""
    scratch = os.path.join(workdir, "scratch_" + scratch_tag)
    if os.path.exists(scratch):
        shutil.rmtree(scratch)
    shutil.copytree(pel_src, os.path.join(scratch, "pels"))
    os.makedirs(os.path.join(scratch, "out"))
    shutil.copy(os.path.join(workdir, "exclude.txt"), scratch)
    pp = [os.path.join(root, "modules")]
    if env != "none":
        pp.insert(0, os.path.join(workdir, "env_" + env))
    environ = dict(os.environ, PYTHONPATH=os.pathsep.join(pp),
                   PYTHONDONTWRITEBYTECODE="1", PYTHONHASHSEED="0")
    cmd = [PY] + (["-O"] if opt else []) + \
        [os.path.join(root, "modules", "pel", "peltool", "peltool.py")] + \
        [a.replace("@", scratch) for a in args]
    p = subprocess.run(cmd, cwd=scratch, env=environ, capture_output=True,
                       timeout=300)
    res = {"rc": p.returncode,
           "stdout": p.stdout.decode("utf-8", "replace").replace(
               scratch, "<S>"),
           "stderr": norm_err(p.stderr.decode("utf-8", "replace"),
                              root).replace(scratch, "<S>"),
           "files": snapshot(scratch)}
    shutil.rmtree(scratch)
    return res


def cli_cases():
    P = ["-p", "@/pels"]
    cases = []
    for f in ["00_50000001", "01_50000002.pel", "02_90000003.pel",
              "03_50000004", "04_50000005.pel", "05_50000006.pel",
              "06_50000007", "07_50000008.pel", "08_50000009.pel",
              "09_5000000A", "10_5000000B.pel", "11_5000000C.pel",
              "20_empty", "21_short_ph", "22_cut_in_ph", "23_cut_in_uh",
              "24_cut_after_uh", "25_cut_in_src", "26_cut_in_eh.pel",
              "27_cut_in_mt", "28_garbage", "29_not_ph", "30_not_uh.pel",
              "31_bad_creator", "32_bad_utf8_eh", "33_lp_cut",
              "34_zero_len_section", "35_text.txt", "missing"]:
        cases.append(["-f", "@/pels/" + f, "-E"])
    cases += [
        ["-f", "@/pels/00_50000001"],
        ["-f", "@/pels/00_50000001", "-x"],
        ["-f", "@/pels/01_50000002.pel"],
        ["-f", "@/pels/01_50000002.pel", "-S", "Informational"],
        ["-f", "@/pels/03_50000004", "-H", "-P"],
        ["-f", "@/pels/02_90000003.pel", "-t", "-c"],
        ["-f", "@/pels/22_cut_in_ph", "-c", "-E"],
        P + ["-l"], P + ["-l", "-E"], P + ["-l", "-E", "-r"],
        P + ["-l", "-H", "-O"], P + ["-l", "-N"], P + ["-l", "-s", "-O"],
        P + ["-l", "-S", "Informational", "Recovered"],
        P + ["-l", "-O", "-S", "Unrecoverable", "Critical"],
        P + ["-l", "-E", "-e", ".pel"], P + ["-l", "-E", "-x"],
        P + ["-l", "-t"],
        P + ["-n"], P + ["-n", "-E"], P + ["-n", "-H", "-O"],
        P + ["-n", "-O", "-S", "Predictive", "Symptom"],
        P + ["-a"], P + ["-a", "-E"], P + ["-a", "-E", "-P"],
        P + ["-a", "-E", "-x"], P + ["-a", "-N", "-r"],
        P + ["-a", "-E", "-e", ".pel", "-r"],
        P + ["-j", "-o", "@/out"], P + ["-j", "-o", "@/out", "-E"],
        P + ["-j", "-E", "-c"], P + ["-j", "-E", "-e", ".pel", "-c", "-o",
                                     "@/out"],
        P + ["-i", "50000001"], P + ["-i", "0x90000003"],
        P + ["-i", "50000002", "-x"], P + ["-i", "5000"],
        P + ["-i", "DEADBEEF"],
        P + ["--bmc-id", "3"], P + ["--bmc-id", "1", "-x"],
        P + ["--bmc-id", "99"],
        P + ["--plid", "50000001"], P + ["--plid", "0x50000001", "-E"],
        P + ["--plid", "90000003", "-x", "-E"],
        P + ["--src", "BD8D1001", "-E"], P + ["--src", "BC", "-E", "-r"],
        P + ["--src-exclude", "@/exclude.txt", "-E"],
        P + ["-d", "50000005"], P + ["-D"],
        ["-l"], ["-p", "@/nonexistent", "-l"], ["--help"],
    ]
    return cases


def main():
    if len(sys.argv) >= 2 and sys.argv[1] == "--driver":
        driver(sys.argv[2], sys.argv[3], sys.argv[4])
        return 0
    pristine, patched = [os.path.abspath(p) for p in sys.argv[1:3]]
    quick = "--quick" in sys.argv
    workdir = tempfile.mkdtemp(prefix="diffcheck_")
    ncases = 0
    diffs = []
    try:
        make_envs(workdir)
        pel_dir = make_pels(workdir)
        # ----- library level
        for env in ["none", "registry", "bmc", "badjson"]:
            for opt in [False, True]:
                results = []
                for root in (pristine, patched):
                    cmd = [PY] + (["-O"] if opt else []) + \
                        [os.path.abspath(__file__), "--driver", root, env,
                         workdir]
                    environ = dict(os.environ, PYTHONDONTWRITEBYTECODE="1",
                                   PYTHONHASHSEED="0")
                    environ.pop("PYTHONPATH", None)
                    p = subprocess.run(cmd, env=environ, capture_output=True,
                                       timeout=1200)
                    if p.returncode != 0:
                        results.append([["driver-crash",
                                         norm_err(p.stderr.decode(), root)]])
                        if root == pristine:
                            print("driver crashed on pristine:\n" +
                                  p.stderr.decode(), file=sys.stderr)
                            return 2
                    else:
                        results.append(json.loads(p.stdout.decode()))
                a, b = results
                if len(a) != len(b):
                    diffs.append("lib %s -O=%s: record count %d != %d" %
                                 (env, opt, len(a), len(b)))
                for ra, rb in zip(a, b):
                    ncases += 1
                    if ra != rb:
                        diffs.append("lib %s -O=%s %s:\n   %s\n   %s" % (
                            env, opt, ra[0], json.dumps(ra[1])[:600],
                            json.dumps(rb[1])[:600]))
        # ----- CLI level
        combos = [("none", False), ("registry", False), ("none", True),
                  ("registry", True)]
        if quick:
            combos = combos[:1]
        for env, opt in combos:
            for i, args in enumerate(cli_cases()):
                ra = run_cli(pristine, workdir, env, opt, args, pel_dir, "a")
                rb = run_cli(patched, workdir, env, opt, args, pel_dir, "b")
                ncases += 1
                if ra != rb:
                    for k in ra:
                        if ra[k] != rb[k]:
                            diffs.append(
                                "cli %s -O=%s %s: %s differs\n   %s\n   %s" % (
                                    env, opt, " ".join(args), k,
                                    json.dumps(ra[k])[:600],
                                    json.dumps(rb[k])[:600]))
    finally:
        shutil.rmtree(workdir, ignore_errors=True)
    if diffs:
        print("DIFFERENT: %d of %d cases" % (len(diffs), ncases))
        for d in diffs[:40]:
            print(" *", d)
        return 1
    print("IDENTICAL (%d cases)" % ncases)
    return 0


if __name__ == "__main__":
    sys.exit(main())
