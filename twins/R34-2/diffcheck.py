#!/usr/bin/env python3
"""
Differential check for refactorings of modules/io_drawer/*.py.

Usage: diffcheck.py <pristine_root> <patched_root>

A driver script (see DRIVER below) is executed in a subprocess once per root
and per interpreter mode (normal and -O) with PYTHONPATH=<root>/modules.  It
builds a large, deterministic (seeded) set of well-formed, truncated,
corrupted and random inputs, feeds them to every layer of the io_drawer
package (trace entry / header / buffer readers, string file and PTE table
parsers, ilog/hlog/trace/dump formatters, the m2c00 user data parser) and
prints one record per case.  In addition the dump.py command line is run with
many option combinations.  All records (stdout, stderr, exit status) must be
byte identical between the two roots.
"""

import os
import shutil
import subprocess
import sys
import tempfile

PY = sys.executable

DRIVER = r'''
import io, json, os, random, struct, sys, contextlib

root = sys.argv[1]
work = sys.argv[2]

from pel.datastream import DataStream
import io_drawer.trace as T
import io_drawer.ilog as I
import io_drawer.hlog as H
import io_drawer.dump as D
import io_drawer.utils as U
from io_drawer.drawer_type import DRAWER_TYPES, MEX_DRAWER_TYPE, NIMITZ_DRAWER_TYPE
import udparsers.m2c00.m2c00 as M

rnd = random.Random(20240534)
ncase = 0


def emit(tag, value):
    global ncase
    ncase += 1
    sys.stdout.write('%05d %s %s\n' % (ncase, tag, json.dumps(value, default=repr)))


def guarded(fn):
    try:
        return ['ok', fn()]
    except BaseException as e:        # noqa
        return ['exc', type(e).__name__, str(e)]


def mv(b):
    return memoryview(bytes(b))


def rbytes(n):
    return bytes(rnd.getrandbits(8) for _ in range(n))


# ---------------------------------------------------------------- builders
def mk_entry(tbh=0x8AAB, tbl=0x0123, tag=0x4654, hash_value=0, line=10,
             data=b'', length=None, pad=None, size=None):
    if length is None:
        length = len(data)
    if pad is None:
        pad = (4 - (len(data) % 4)) % 4
    body = struct.pack('>HHHHII', tbh & 0xFFFF, tbl & 0xFFFF, length & 0xFFFF,
                       tag & 0xFFFF, hash_value & 0xFFFFFFFF,
                       line & 0xFFFFFFFF)
    body += data + b'\0' * pad
    if size is None:
        size = len(body) + 4
    return body + struct.pack('>I', size & 0xFFFFFFFF)


def mk_header(comp=b'POWR', size=32, ver=2, hdr_len=0x20, time_flg=1,
              endian=0x42, wrap=0, next_free=0, rsvd=b'\0\0\0\0'):
    comp = (comp + b' ' * 12)[:12]
    return (bytes([ver, hdr_len, time_flg, endian]) + comp + rsvd +
            struct.pack('>III', size & 0xFFFFFFFF, wrap & 0xFFFFFFFF,
                        next_free & 0xFFFFFFFF))


def entry_state(e):
    d = {}
    for k, v in sorted(vars(e).items()):
        if isinstance(v, memoryview):
            v = ['mv', v.tobytes().hex()]
        elif isinstance(v, (bytes, bytearray)):
            v = ['b', bytes(v).hex()]
        d[k] = v
    return d


# ----------------------------------------------------- trace strings in use
def load_hashes(path):
    out = []
    with open(path) as f:
        for ln in f:
            parts = ln.split('||')
            if len(parts) == 3 and parts[0].strip().isdigit():
                out.append(int(parts[0]))
    return out


MEX_STR = MEX_DRAWER_TYPE.get_trace_string_file_path()
NIM_STR = NIMITZ_DRAWER_TYPE.get_trace_string_file_path()
MEX_HDR = MEX_DRAWER_TYPE.get_header_file_path()
NIM_HDR = NIMITZ_DRAWER_TYPE.get_header_file_path()
mex_hashes = load_hashes(MEX_STR)
nim_hashes = load_hashes(NIM_STR)


def wfile(name, text, binary=False):
    path = os.path.join(work, name)
    if binary:
        with open(path, 'wb') as f:
            f.write(text)
    else:
        with open(path, 'w') as f:
            f.write(text)
    return path


# =================================================== 1. utils.format_timestamp
for ts in [-5, -1, 0, 1, 59, 60, 3599, 3600, 35553, 65534, 65535, 65536,
           100000] + [rnd.randrange(0, 70000) for _ in range(40)]:
    emit('ts', [ts, guarded(lambda: U.format_timestamp(ts))])


# ========================================================= 2. TraceEntry.read
def run_entry(raw, start=0, tag='entry'):
    def go():
        s = DataStream(mv(raw), byte_order='big', is_signed=False)
        if start:
            s.index = start
        e = T.TraceEntry()
        r = guarded(lambda: e.read(s))
        st = entry_state(e)
        extra = [guarded(e.get_args), guarded(e.is_binary_trace)]
        return [r, s.index, st, extra]
    emit(tag, [raw.hex(), start, guarded(go)])


good_entries = []
for dl in list(range(0, 26)) + [31, 32, 33, 100, 1023, 1024]:
    for tg in (0x4654, 0x4644):
        good_entries.append(mk_entry(tbh=rnd.randrange(65536),
                                     tbl=rnd.randrange(65536), tag=tg,
                                     hash_value=rnd.getrandbits(32),
                                     line=rnd.getrandbits(32),
                                     data=rbytes(dl)))
for ge in good_entries:
    run_entry(ge)
    run_entry(b'\xAA' * 5 + ge + b'\xBB' * 7, start=5)

# every truncation of a set of smaller entries
for dl in (0, 1, 2, 3, 4, 5, 7, 8, 13):
    ge = mk_entry(data=rbytes(dl), hash_value=rnd.getrandbits(32))
    for cut in range(0, len(ge) + 1):
        run_entry(ge[:cut], tag='entry-trunc')
    for cut in range(0, len(ge) + 1):
        run_entry(b'\x11\x22\x33' + ge[:cut], start=3, tag='entry-trunc-off')

# wrong length / pad / size fields
for dl in (0, 1, 3, 4, 6, 9):
    data = rbytes(dl)
    for length in (0, 1, dl, dl + 1, dl + 3, dl + 4, 1024, 1025, 2000, 65535):
        run_entry(mk_entry(data=data, length=length), tag='entry-len')
    for pad in (0, 1, 2, 3, 4, 5):
        run_entry(mk_entry(data=data, pad=pad), tag='entry-pad')
    for size in (0, 1, 16, 20, 20 + dl, 24 + dl, 0xFFFFFFFF):
        run_entry(mk_entry(data=data, size=size), tag='entry-size')

# length > remaining, big valid lengths with short data
for length in (1020, 1021, 1022, 1023, 1024, 1025):
    for have in (0, 5, length - 1, length, length + 1, length + 3, length + 4,
                 length + 8):
        raw = struct.pack('>HHHHII', 1, 2, length, 0x4654, 3, 4) + \
            b'\x5A' * have
        run_entry(raw, tag='entry-big')
    full = mk_entry(data=rbytes(length if length <= 1024 else 8),
                    length=length)
    run_entry(full, tag='entry-big-full')

# single byte corruption of good entries
for ge in good_entries[:24]:
    for _ in range(6):
        pos = rnd.randrange(len(ge))
        bad = bytearray(ge)
        bad[pos] ^= 1 << rnd.randrange(8)
        run_entry(bytes(bad), tag='entry-corrupt')

# random garbage
for _ in range(300):
    n = rnd.choice([0, 1, 15, 16, 17, 19, 20, 21, 24, 28, 40, 64])
    raw = bytearray(rbytes(n))
    if n >= 6 and rnd.random() < 0.7:
        raw[4] = 0
        raw[5] = rnd.randrange(0, 40)
    run_entry(bytes(raw), start=rnd.choice([0, 0, 0, 1, 2]) if n > 2 else 0,
              tag='entry-rand')

# get_args with directly assigned data
for tg in (0x4654, 0x4644, 0, None):
    for n in range(0, 27):
        def go():
            e = T.TraceEntry()
            e.tag = tg
            e.data = mv(rbytes(n))
            return [e.data.tobytes().hex(), e.get_args()]
        emit('args', [tg, n, guarded(go)])
    def go_none():
        e = T.TraceEntry()
        e.tag = tg
        return e.get_args()
    emit('args-none', [tg, guarded(go_none)])
for n in (0, 3, 4, 9, 20, 23):
    def go_b():
        e = T.TraceEntry()
        e.tag = 0x4654
        e.data = rbytes(n)
        return [e.data.hex(), e.get_args()]
    emit('args-bytes', [n, guarded(go_b)])


# ================================================== 3. TraceBufferHeader.read
def run_header(raw, start=0, tag='hdr'):
    def go():
        s = DataStream(mv(raw), byte_order='big', is_signed=False)
        if start:
            s.index = start
        h = T.TraceBufferHeader()
        before = entry_state(h)
        r = guarded(lambda: h.read(s))
        return [before, r, s.index, entry_state(h)]
    emit(tag, [raw.hex(), start, guarded(go)])


comps = [b'POWR', b'FANS', b'IICS', b'IICM', b'INFO', b'ERRL', b'',
         b'ABCDEFGHIJKL', b'AB\0\0CD  \0 ', b'\xff\xfeXY\x80', b'POWR\0\0\0\0',
         b'  lead', b'A \0 \0 ', b'\0\0\0\0\0\0\0\0\0\0\0\0']
for c in comps:
    h = mk_header(comp=c, size=rnd.getrandbits(32), wrap=rnd.getrandbits(32),
                  next_free=rnd.getrandbits(32), rsvd=rbytes(4))
    if c and c[-1:] == b'\0':
        h = h[:4] + (c + b'\0' * 12)[:12] + h[16:]
    run_header(h)
    run_header(b'zz' + h + b'tail', start=2)
    for cut in (0, 1, 4, 16, 20, 31, 32, 33):
        run_header(h[:cut], tag='hdr-trunc')
for _ in range(120):
    n = rnd.choice([0, 5, 31, 32, 33, 40, 64])
    run_header(rbytes(n), start=rnd.choice([0, 0, 1, 3]) if n > 3 else 0,
               tag='hdr-rand')


# ===================================================== 4. TraceBuffer.read
def run_buffer(raw, tag='buf'):
    def go():
        s = DataStream(mv(raw), byte_order='big', is_signed=False)
        b = T.TraceBuffer()
        r = guarded(lambda: b.read(s))
        hs = entry_state(b.header) if b.header is not None else None
        return [r, s.index, hs, [entry_state(e) for e in b.entries]]
    emit(tag, [len(raw), guarded(go)])


def rand_entries(k, hashes):
    out = []
    for _ in range(k):
        kind = rnd.random()
        if kind < 0.45 and hashes:
            hv = rnd.choice(hashes)
        elif kind < 0.7 and hashes:
            hv = rnd.choice(hashes) + 100000 * rnd.choice([1, 2, -1, 7])
        else:
            hv = rnd.getrandbits(32)
        tg = 0x4644 if rnd.random() < 0.25 else 0x4654
        dl = rnd.choice([0, 0, 4, 4, 8, 8, 12, 16, 20, 24, 1, 2, 3, 5, 7, 11])
        out.append(mk_entry(tbh=rnd.randrange(65536), tbl=rnd.randrange(65536),
                            tag=tg, hash_value=hv & 0xFFFFFFFF,
                            line=rnd.randrange(0, 200000), data=rbytes(dl)))
    return out


buffers = []
for i in range(60):
    hashes = mex_hashes if i % 2 == 0 else nim_hashes
    ents = rand_entries(rnd.randrange(0, 9), hashes)
    body = b''.join(ents)
    total = 32 + len(body)
    size = rnd.choice([total, total, total, 0, 31, 32, 33, total - 1,
                       total + 1, total + 100, 32 + len(ents[0]) if ents else 32,
                       0xFFFFFFFF])
    comp = rnd.choice([b'POWR', b'FANS', b'IICS', b'IICM', b'INFO', b'ERRL',
                       b'XYZ'])
    raw = mk_header(comp=comp, size=size, wrap=rnd.randrange(1000),
                    next_free=rnd.randrange(100000)) + body
    mode = rnd.random()
    if mode < 0.2 and len(raw) > 33:
        raw = raw[:rnd.randrange(30, len(raw))]
    elif mode < 0.4 and len(raw) > 40:
        bad = bytearray(raw)
        for _ in range(rnd.randrange(1, 4)):
            bad[rnd.randrange(32, len(bad))] ^= 1 << rnd.randrange(8)
        raw = bytes(bad)
    elif mode < 0.5:
        raw = raw + rbytes(rnd.randrange(1, 30))
    buffers.append(raw)
    run_buffer(raw)
for _ in range(40):
    run_buffer(rbytes(rnd.choice([0, 10, 32, 48, 52, 80, 200])), tag='buf-rand')


# ============================================= 5. string files / PTE tables
str_custom = wfile('custom_strings', '\n'.join([
    '#FSP_TRACE_v2|||Thu Sep 24 12:55:43 2020|||BUILD:Release',
    '100||plain message||a.cpp(1)',
    '  200  ||  one %d  ||  b.cpp(2)  ',
    '300||two %d %s||c.cpp(3)',
    '400||pct %d%%||d.cpp(4)',
    '500||five %d %d %d %d %d||e.cpp(5)',
    '600||six %d %d %d %d %d %d||f.cpp(6)',
    '100700||hex 0x%X 0x%08x||g.cpp(7)',
    '200700||later partial %u||h.cpp(8)',
    '800||a||b||c||d',
    '900||||',
    'abc||not a number||x',
    '1000|single bar|x',
    '',
    '1100||no newline at eof %c||z.cpp(11)']))
str_empty = wfile('empty_strings', '')
str_binary = wfile('binary_strings', b'100||ok||a\n\xff\xfe\x80||bad||b\n',
                   binary=True)
str_missing = os.path.join(work, 'does_not_exist_strings')

hdr_custom = wfile('custom_hdr.h', '\n'.join([
    '// comment',
    '  { "FFFFFFFF", "outside table", {}, "x.cpp", 1 },',
    'static struct pte_entry_struct static_pte_entry_table[PTE_TABLE_SIZE] =',
    '{',
    '  { "01040000", "Power on complete", {}, "states.cpp", 601 },',
    '  { "100100**", "PS%d - Faults Cleared   ", {4}, "mps.cpp", 759 },',
    '  { "0200****", "This PEROM level = %c%c", {3, 4}, "states.cpp", 254 },',
    '  { "E2082690", "P1 IO Bay VRM in \\"N-Mode\\"", {}, "vrm.cpp", 145 },',
    '  { "E30***04", "Err byte2 %d byte3 0x%X", {2,3}, "e.cpp", 5 },',
    '  { "E4******", "Bad params %d", {0, 5, 9, 2}, "e.cpp", 6 },',
    '  { "E5******", "Too few %d %d", {1}, "e.cpp", 7 },',
    '  { "E6******", "Too many", {1,2}, "e.cpp", 8 },',
    '  { "E7******", "Twelve {12}?", {12}, "e.cpp", 9 },',
    '  { "abcdef**", "lower case pattern", {}, "e.cpp", 10 },',
    '  { "0[0-9]AA....", "regexy pattern", {}, "e.cpp", 11 },',
    '  { "03", "short pattern", {}, "e.cpp", 12 },',
    '  { "04000000", "no trailing comma", {}, "e.cpp", 13 }',
    '  { "05000000", "", {}, "", 14 },',
    '  { ""        , "The End" }',
    '  { "06000000", "after end", {}, "x.cpp", 15 },',
    '};',
    'struct mex_hlog_field mex_hlog_fields[MEX_HLOG_FIELD_COUNT] =',
    '{',
    '  { 1, "hl_one" },',
    '  { 2, "hl_two" },',
    '  { 3, "hl_bad_size" },',
    '  { 1, "hl_three" }',
    '  {1,"hl_four"},',
    '  { 2, "" },',
    '  garbage line',
    '  { 2, "hl_five" }, ',
    '};',
    '  { 1, "hl_after" },',
    'static struct mex_hlog_field mex_hlog_fields[] = {',
    '  { 2, "hl_second_array" },',
    '};',
    'struct pte_entry_struct static_pte_entry_table[] = {',
    '  { "07000000", "second table", {}, "x.cpp", 16 },',
    '']))
hdr_badre = wfile('badre_hdr.h', '\n'.join([
    'static struct pte_entry_struct static_pte_entry_table[PTE_TABLE_SIZE] =',
    '  { "01040000", "fine", {}, "a.cpp", 1 },',
    '  { "(((", "breaks re.compile", {}, "a.cpp", 2 },',
    '  { "02040000", "never reached", {}, "a.cpp", 3 },',
    '']))
hdr_empty = wfile('empty_hdr.h', '')
hdr_binary = wfile('binary_hdr.h',
                   b'struct pte_entry_struct static_pte_entry_table[] = {\n'
                   b'  { "01040000", "fine", {}, "a.cpp", 1 },\n'
                   b'struct mex_hlog_field mex_hlog_fields[] = {\n'
                   b'  { 1, "hl_one" },\n'
                   b'\xff\xfe\x80\x81 junk\n'
                   b'  { 2, "hl_two" },\n', binary=True)
hdr_missing = os.path.join(work, 'does_not_exist.h')
hdr_dir = work

STRING_FILES = [MEX_STR, NIM_STR, str_custom, str_empty, str_binary,
                str_missing]
HEADER_FILES = [MEX_HDR, NIM_HDR, hdr_custom, hdr_badre, hdr_empty,
                hdr_binary, hdr_missing, hdr_dir]


def rel(p):
    return p.replace(root, '<ROOT>').replace(work, '<WORK>')


for sf in STRING_FILES:
    def go():
        f = T.TraceStringFile(sf)
        return [rel(f.string_file_path),
                [[t.hash_value, t.message_format, t.location]
                 for t in f.trace_strings]]
    r = guarded(go)
    if r[0] == 'ok' and len(r[1][1]) > 60:
        r[1][1] = [len(r[1][1])] + r[1][1][:30] + r[1][1][-30:]
    emit('strfile', [rel(sf), r])

csf = T.TraceStringFile(str_custom)
for hv in [100, 200, 300, 700, 100700, 200700, 300700, 99, 0, 100100,
           200100, 1100, 101100, 800, 900, 4294967295]:
    def go():
        t = csf.get_trace_string(hv)
        if t is None:
            return None
        return [t.hash_value, t.location, t.is_match(hv),
                t.is_partial_match(hv),
                [t.get_message(a) for a in
                 [(), (1,), (1, 2), (1, 2, 3, 4, 5), (65, 66)]]]
    emit('getstr', [hv, guarded(go)])
emit('addstr', guarded(lambda: [csf._add_trace_string(('1', 'a')),
                                  csf._add_trace_string(('1', 'a', 'b', 'c')),
                                  csf._add_trace_string((' 77 ', ' m ', ' l ')),
                                  len(csf.trace_strings),
                                  vars(csf.trace_strings[-1])]))
emit('addstr-bad', guarded(lambda: csf._add_trace_string(('x', 'a', 'b'))))

for hf in HEADER_FILES:
    def go():
        t = I.PTETable(hf)
        return [rel(t.header_file_path),
                [[e.pte_pattern, e.message_format, list(e.params), e.file,
                  e.line, e.pte_re.pattern, e.pte_re.flags]
                 for e in t.entries]]
    r = guarded(go)
    if r[0] == 'ok' and len(r[1][1]) > 60:
        r[1][1] = [len(r[1][1])] + r[1][1][:30] + r[1][1][-30:]
    emit('ptetable', [rel(hf), r])
    emit('hlogfields', [rel(hf), guarded(
        lambda: [list(f) for f in H.get_hlog_fields(hf)])])

ctab = I.PTETable(hdr_custom)
PTES = [0x01040000, 0x010400FF, 0x10010003, 0x100100FF, 0x02004142,
        0x0200FF00, 0xE2082690, 0xE20C2690, 0xE30A0B04, 0xE30E0B04,
        0xE4010203, 0xE4050203, 0xE5000000, 0xE6000000, 0xE7112233,
        0xABCDEF12, 0x05AA1234, 0x03, 0x04000000, 0x05000000, 0x06000000,
        0x07000000, 0xFFFFFFFF, 0, 0x1FFFFFFFF, -1, 0xE0040000, 0xD0040000]
for p in PTES + [rnd.getrandbits(32) for _ in range(60)]:
    def go():
        e = ctab.get_entry(p)
        if e is None:
            return None
        return [e.pte_pattern, e.matches(p), e._is_exact_match(p),
                e._is_reported_error_pte(p), e.get_message(p)]
    emit('getentry', [p, guarded(go)])
for tup in [('01040000', 'Power on complete', '', 'states.cpp', '601'),
            ('100100**', 'PS%d - Faults Cleared    ', '4', 'mps.cpp', '759'),
            ('2065****', 'IO Bay %d type = %d', '3, 4', 'x.cpp', '12'),
            ('E2082690', r'P1 IO Bay VRM in \"N-Mode\" ', '', 'v.cpp', '145'),
            ('15D10000', 'four fields', '', 'x.cpp'),
            ('15D10000', 'six', '', 'x.cpp', '1', 'extra'),
            ('15D10000', 'bad line', '', 'x.cpp', 'xyz'),
            ('((', 'bad re', '', 'x.cpp', '1'),
            ('15D1****', 'params', '0,1,2,3,4,5,6,7,8,9,10', 'x.cpp', '1'),
            ()]:
    def go():
        t = I.PTETable(hdr_empty)
        r = guarded(lambda: t._add_entry(tup))
        return [r, [[e.pte_pattern, e.message_format, list(e.params), e.file,
                     e.line] for e in t.entries]]
    emit('addentry', [list(tup), guarded(go)])
emit('reparse', guarded(lambda: [ctab._parse_header_file(),
                                   len(ctab.entries)]))


# ============================= 6. parse_trace_data / ilog / hlog / dump / UD
def datasets():
    out = [b'', b'\0', rbytes(7), rbytes(8), rbytes(9), b'\0' * 8,
           b'\0' * 24, rbytes(31), rbytes(32), rbytes(64)]
    for p in PTES[:24]:
        out.append(struct.pack('>HHI', rnd.randrange(65536),
                               rnd.randrange(65536), p & 0xFFFFFFFF))
    blob = b''
    for _ in range(40):
        p = rnd.choice(PTES[:24]) if rnd.random() < 0.6 else rnd.getrandbits(32)
        blob += struct.pack('>HHI', rnd.choice([0, 1, 35553, 65535,
                                                rnd.randrange(65536)]),
                            rnd.randrange(65536), p & 0xFFFFFFFF)
    out += [blob, blob[:-3], blob + b'\x01', blob[:100]]
    return out


ILOG_DATA = datasets()
for hf in HEADER_FILES:
    for d in ILOG_DATA:
        emit('ilog', [rel(hf), len(d),
                      guarded(lambda: I.parse_ilog_data(mv(d), hf))])
    for n in [0, 1, 2, 3, 5, 8, 20, 63, 64, 65, 100, 200, 400]:
        d = rbytes(n) if n % 2 else bytes(
            rnd.choice([0, 0, 0, rnd.getrandbits(8)]) for _ in range(n))
        emit('hlog', [rel(hf), n,
                      guarded(lambda: H.parse_hlog_data(mv(d), hf))])

for sf in STRING_FILES:
    for raw in buffers[:30] + [b'', rbytes(10), rbytes(40)]:
        emit('trace', [rel(sf), len(raw),
                       guarded(lambda: T.parse_trace_data(mv(raw), sf))])

# entries that use the custom string file
cents = []
for hv, args in [(100, ()), (200, (5,)), (300, (1, 2)), (400, (7,)),
                 (500, (1, 2, 3, 4, 5)), (600, (1, 2, 3, 4, 5, 6)),
                 (100700, (255, 4096)), (200700, (9,)), (300700, (9,)),
                 (700, (1, 2)), (1100, (65,)), (101100, (66,)), (999, (1,)),
                 (200, ()), (100, (1, 2, 3))]:
    for tg in (0x4654, 0x4644):
        data = b''.join(struct.pack('>I', a) for a in args)
        cents.append(mk_entry(tag=tg, hash_value=hv, data=data,
                              tbh=rnd.randrange(65536), line=rnd.randrange(99999)))
        cents.append(mk_entry(tag=tg, hash_value=hv, data=data + b'\x01\x02',
                              tbl=rnd.randrange(65536), line=rnd.randrange(999999)))
body = b''.join(cents)
cbuf = mk_header(comp=b'INFO', size=32 + len(body), wrap=3) + body
emit('trace-custom', guarded(lambda: T.parse_trace_data(mv(cbuf), str_custom)))
emit('trace-custom-short', guarded(
    lambda: T.parse_trace_data(mv(cbuf[:-9]), str_custom)))
for e in cents[:20]:
    def go():
        s = DataStream(mv(e), byte_order='big', is_signed=False)
        te = T.TraceEntry()
        ok = te.read(s)
        lines = ['pre']
        T._format_trace_entry(te, csf, lines)
        return [ok, lines]
    emit('fmt-entry', guarded(go))
def go_unread():
    te = T.TraceEntry()
    te.tbh, te.tbl, te.line, te.hash_value, te.tag = 1, 2, 3, 4, 0x4654
    lines = []
    T._format_trace_entry(te, csf, lines)
    return lines
emit('fmt-entry-nodata', guarded(go_unread))

# dumps
def mk_dump(i):
    ilog = rnd.choice(ILOG_DATA)
    parts = [ilog]
    names = [b'IICS', b'IICM', b'POWR', b'FANS', b'INFO', b'ERRL']
    rnd.shuffle(names)
    for nm in names[:rnd.randrange(0, 5)]:
        ents = rand_entries(rnd.randrange(0, 5), mex_hashes)
        b = b''.join(ents)
        sz = rnd.choice([32 + len(b), 32 + len(b), 0, 40, 32 + len(b) + 50])
        raw = mk_header(comp=nm, size=sz, wrap=rnd.randrange(50)) + b
        if rnd.random() < 0.2:
            raw = raw[:rnd.randrange(20, len(raw) + 1)]
        if rnd.random() < 0.2:
            raw += raw          # duplicate buffer name
        parts.append(raw)
    return b''.join(parts)


dumps = [mk_dump(i) for i in range(50)]
dumps += [b'', b'\x02\x20\x01\x42POWR', b'\x02\x20\x01\x42XXXX' + rbytes(40)]
for i, d in enumerate(dumps):
    hf = HEADER_FILES[i % 3]
    sf = STRING_FILES[i % 3]
    emit('dump', [i, len(d), guarded(lambda: D.parse_dump_data(mv(d), hf, sf))])
for hf, sf in [(hdr_missing, MEX_STR), (MEX_HDR, str_missing),
               (hdr_badre, MEX_STR), (hdr_binary, str_binary),
               (hdr_empty, str_empty)]:
    for d in dumps[:6]:
        emit('dump-badfiles', [rel(hf), rel(sf), len(d), guarded(
            lambda: D.parse_dump_data(mv(d), hf, sf))])
for d in dumps[:5]:
    def go():
        l1 = ['x']
        r1 = D._format_ilog_data(mv(d[:40]), l1, MEX_HDR)
        l2 = ['y']
        r2 = D._format_trace_data(mv(d[40:]), l2, MEX_STR)
        return [r1, l1, r2, l2]
    emit('dump-sections', guarded(go))
emit('dump-names', [D._get_drawer_type_names(),
                    [getattr(D._get_drawer_type(n), 'name', None)
                     for n in ('mex', 'nimitz', 'foo', '', None)],
                    D.TRACE_BUFFER_HEADER_START.hex(), D.HEX_DUMP_LINE_FORMATS,
                    D.DIVIDER_LINE])

# dump files listed in the work dir
for name in sorted(os.listdir(work)):
    if name.startswith('dumpfile_'):
        p = os.path.join(work, name)
        for hf, sf in [(MEX_HDR, MEX_STR), (NIM_HDR, NIM_STR),
                       (hdr_custom, str_custom)]:
            emit('dumpfile', [name, rel(hf), guarded(
                lambda: D.parse_dump_file(p, hf, sf))])
emit('dumpfile-missing', guarded(lambda: D.parse_dump_file(
    os.path.join(work, 'nope'), MEX_HDR, MEX_STR)))

# user data parser (the only in-tree client of hlog/ilog/trace)
ud_data = [b'', rbytes(5), rbytes(64), ILOG_DATA[-4], buffers[0], buffers[1],
           buffers[2], cbuf, dumps[0]]
for st in (72, 73, 84, 0, 99):
    for ver in (0, 1, 2, 3):
        for d in ud_data:
            emit('ud', [st, ver, len(d),
                        guarded(lambda: M.parseUDToJson(st, ver, mv(d)))])

# repeat some decodes at the end: results must not depend on history
for raw in buffers[:5]:
    emit('trace-again', guarded(lambda: T.parse_trace_data(mv(raw), MEX_STR)))
for d in ILOG_DATA[-4:]:
    emit('ilog-again', guarded(lambda: I.parse_ilog_data(mv(d), MEX_HDR)))
    emit('hlog-again', guarded(lambda: H.parse_hlog_data(mv(d), MEX_HDR)))

# public surface of the modules (names importable by tests / other modules)
for m in (T, I, H, D, U):
    names = sorted(n for n in dir(m) if not n.startswith('__'))
    emit('surface', [m.__name__, [n for n in names if n in (
        'TraceString', 'TraceStringFile', 'TraceBufferHeader', 'TraceEntry',
        'TraceBuffer', '_format_trace_entry', 'parse_trace_data',
        'PTETableEntry', 'PTETable', 'parse_ilog_data', 'ILOG_ENTRY_SIZE',
        'ERROR_MASK', 'ERROR_VALUE', 'REPORTED_MASK', 'REPORTED_VALUE',
        'TBL_START_RE', 'TBL_ENTRY_RE', 'TBL_END_RE', 'HistoryLogField',
        'HLOG_START_RE', 'HLOG_FIELD_RE', 'HLOG_END_RE', 'get_hlog_fields',
        'parse_hlog_data', '_get_drawer_type_names', '_get_drawer_type',
        '_format_ilog_data', '_format_trace_data', 'parse_dump_data',
        'parse_dump_file', 'parse_args', 'main', 'format_timestamp',
        'TRACE_BUFFER_HEADER_START', 'HEX_DUMP_LINE_FORMATS', 'DIVIDER_LINE')]])
emit('consts', [T.TraceBufferHeader.SIZE, T.TraceBufferHeader.BUFFER_NAMES,
                T.TraceEntry.FIXED_SIZE, T.TraceEntry.MAX_DATA_LEN,
                T.TraceEntry.TYPE_FIELDTRACE, T.TraceEntry.TYPE_FIELDBIN,
                T.TraceEntry.MAX_ARGS, T.TraceStringFile.LINE_RE.pattern,
                sorted(vars(T.TraceEntry())), sorted(vars(T.TraceBufferHeader())),
                sorted(vars(T.TraceBuffer()))])
sys.stdout.write('TOTAL %d\n' % ncase)
'''


def hexdump_bmc(data):
    out = []
    for i in range(0, len(data), 16):
        chunk = data[i:i + 16]
        hx = chunk.hex().upper()
        groups = ' '.join(hx[j:j + 8] for j in range(0, len(hx), 8))
        txt = ''.join(chr(b) if 0x20 <= b < 0x7f else '.' for b in chunk)
        out.append('%04X:  %-35s  <%-16s>' % (i & 0xFFFF, groups, txt))
    return out


def hexdump_old(data):
    out = []
    for i in range(0, len(data), 16):
        chunk = data[i:i + 16]
        hx = ' '.join('%02x' % b for b in chunk)
        txt = ''.join(chr(b) if 0x20 <= b < 0x7f else '.' for b in chunk)
        out.append('%-47s %s' % (hx, txt))
    return out


def build_dump_files(work):
    """Creates hex dump text files used by both the driver and the CLI runs."""
    import random
    import struct
    rnd = random.Random(77)

    def entry(hv, data, tag=0x4654):
        pad = (4 - len(data) % 4) % 4
        body = struct.pack('>HHHHII', rnd.randrange(65536),
                           rnd.randrange(65536), len(data), tag, hv,
                           rnd.randrange(5000)) + data + b'\0' * pad
        return body + struct.pack('>I', len(body) + 4)

    def buf(name, ents, size=None):
        body = b''.join(ents)
        if size is None:
            size = 32 + len(body)
        return (b'\x02\x20\x01\x42' + (name + b' ' * 12)[:12] + b'\0' * 4 +
                struct.pack('>III', size, rnd.randrange(300), 61) + body)

    ilog = bytes.fromhex('8ADF0F19010000DE' '00010002E30C7704'
                         '0000000000000000' 'FFFF000315A00000')
    b1 = buf(b'FANS', [entry(0xFFFFFFFF, bytes.fromhex('01020304DEADBE'),
                             0x4644),
                       entry(92602121, struct.pack('>I', 7)),
                       entry(92702121, struct.pack('>I', 7))])
    b2 = buf(b'POWR', [entry(32403714, struct.pack('>II', 0x5C, 3))])
    b3 = buf(b'ERRL', [], size=5)
    raw_sets = {
        'full': ilog + b1 + b2 + b3,
        'ilogonly': ilog,
        'traceonly': b2,
        'reordered': ilog + b2 + b1,
        'truncated': (ilog + b1 + b2)[:-7],
        'random': bytes(rnd.getrandbits(8) for _ in range(150)),
    }
    files = []
    for name, raw in raw_sets.items():
        for fmt, fn in (('bmc', hexdump_bmc), ('old', hexdump_old)):
            p = os.path.join(work, 'dumpfile_%s_%s.txt' % (name, fmt))
            with open(p, 'w') as f:
                f.write('\n'.join(fn(raw)) + '\n')
            files.append(p)
    p = os.path.join(work, 'dumpfile_mixed.txt')
    with open(p, 'w') as f:
        f.write('some header text\n')
        f.write('\n'.join(hexdump_bmc(raw_sets['full'])[:5]) + '\n')
        f.write('garbage zz zz\n')
        f.write('\n'.join(hexdump_old(raw_sets['full'])[:3]) + '\n')
    files.append(p)
    p = os.path.join(work, 'dumpfile_empty.txt')
    open(p, 'w').close()
    files.append(p)
    p = os.path.join(work, 'dumpfile_nothex.txt')
    with open(p, 'w') as f:
        f.write('hello world\nthis is not a hex dump\n')
    files.append(p)
    p = os.path.join(work, 'dumpfile_binary.txt')
    with open(p, 'wb') as f:
        f.write(b'0000:  8ADF0F19 010000DE 02200142 46414e53  <\xff\xfe>\n')
    files.append(p)
    return files


def run(cmd, root, cwd):
    env = dict(os.environ)
    env['PYTHONPATH'] = os.path.join(root, 'modules')
    env['PYTHONHASHSEED'] = '0'
    env['PYTHONDONTWRITEBYTECODE'] = '1'
    env['COLUMNS'] = '80'
    p = subprocess.run(cmd, cwd=cwd, env=env, stdout=subprocess.PIPE,
                       stderr=subprocess.PIPE, timeout=1200)
    norm = lambda b: b.replace(root.encode(), b'<ROOT>')
    return (p.returncode, norm(p.stdout), norm(p.stderr))


def main():
    if len(sys.argv) != 3:
        print('usage: diffcheck.py <pristine_root> <patched_root>')
        return 2
    roots = [os.path.abspath(a).rstrip('/') for a in sys.argv[1:3]]
    work = tempfile.mkdtemp(prefix='iodiff_')
    try:
        dump_files = build_dump_files(work)
        driver = os.path.join(work, 'driver.py')
        with open(driver, 'w') as f:
            f.write(DRIVER)

        total = 0
        failures = []

        # ---- driver, in normal and optimised mode
        for flags in ([], ['-O']):
            res = [run([PY] + flags + [driver, r, work], r, work)
                   for r in roots]
            label = 'driver' + ''.join(flags)
            if res[0][0] != 0:
                failures.append('%s: pristine driver failed rc=%d\n%s' % (
                    label, res[0][0], res[0][2].decode(errors='replace')[-2000:]))
                continue
            a = res[0][1].split(b'\n')
            b = res[1][1].split(b'\n')
            n = sum(1 for ln in a if ln and not ln.startswith(b'TOTAL'))
            total += n
            if res[0] != res[1]:
                for i in range(max(len(a), len(b))):
                    la = a[i] if i < len(a) else b'<missing>'
                    lb = b[i] if i < len(b) else b'<missing>'
                    if la != lb:
                        failures.append('%s: first difference at record %d\n'
                                        '  pristine: %s\n  patched : %s' % (
                                            label, i + 1,
                                            la.decode(errors='replace')[:1500],
                                            lb.decode(errors='replace')[:1500]))
                        break
                else:
                    failures.append('%s: rc/stderr differ: %r / %r' % (
                        label, (res[0][0], res[0][2][-800:]),
                        (res[1][0], res[1][2][-800:])))

        # ---- command line of dump.py
        hdr = os.path.join(work, 'custom_hdr.h')
        sfile = os.path.join(work, 'custom_strings')
        cli = [['--help'], ['-h'], [], ['-t', 'mex'], ['nofile', '-t', 'mex'],
               ['nofile'], ['nofile', '-t', 'foo'], ['nofile', '-t'],
               ['nofile', '-t', 'mex', '--bogus'],
               ['a', 'b', '-t', 'mex'], ['-t', 'mex', '-t', 'nimitz', 'nofile'],
               ['nofile', '--drawer-type=nimitz', '-d', hdr, '-s', sfile],
               ['nofile', '--drawer-type', 'MEX']]
        for df in dump_files:
            cli.append([df, '-t', 'mex'])
            cli.append([df, '--drawer-type', 'nimitz'])
            cli.append(['-t', 'mex', df, '-d', hdr])
            cli.append(['-t', 'nimitz', df, '-s', sfile])
            cli.append([df, '-t', 'mex', '--header-file', hdr,
                        '--string-file', sfile])
            cli.append([df, '-t', 'mex', '-d', '', '-s', ''])
            cli.append([df, '-t', 'mex', '-d', os.path.join(work, 'missing.h')])
            cli.append([df, '-t', 'mex', '-s', os.path.join(work, 'missing')])
            cli.append([df, '-t', 'mex', '--head', hdr, '--str', sfile])
        for k, args in enumerate(cli):
            for flags in ([], ['-O']) if k % 3 == 0 else ([],):
                res = [run([PY] + flags +
                           [os.path.join(r, 'modules', 'io_drawer', 'dump.py')]
                           + args, r, work) for r in roots]
                total += 1
                if res[0] != res[1]:
                    failures.append('cli %s %s differs:\n  pristine: %r\n'
                                    '  patched : %r' % (flags, args,
                                                        res[0], res[1]))
        # work dir must not have gained or lost files
        if failures:
            print('DIFFERENT (%d problems, %d cases)' % (len(failures), total))
            for f in failures[:10]:
                print(f)
            return 1
        print('IDENTICAL (%d cases)' % total)
        return 0
    finally:
        shutil.rmtree(work, ignore_errors=True)


if __name__ == '__main__':
    sys.exit(main())
