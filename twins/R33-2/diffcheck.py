#!/usr/bin/env python3
"""
Differential check for the PEL section decoders of openpower-pel-parsers
(private/user/extended user header, failing MTMS, impacted partition, default
section, component id display, DataStream).

usage: diffcheck.py <pristine_root> <patched_root>

Runs an in-process driver (plain python and python -O, several component id
configurations) and the peltool CLI against both source trees and compares
everything that is observable: stdout, (normalised) stderr, exit status and
the files present afterwards.
"""
import json
import os
import random
import shutil
import struct
import subprocess
import sys
import tempfile

PY = sys.executable
HERE = os.path.dirname(os.path.abspath(__file__))

DRIVER = r'''
import json, os, random, sys

variant = sys.argv[1]
cfgdir = sys.argv[2]

import pel.peltool.comp_id as comp_id
if variant in ("bmcpath", "brokenpath", "emptypath"):
    comp_id.pelConfigRootPath = cfgdir

from pel.datastream import DataStream
import pel.datastream as datastream_mod
from pel.peltool.private_header import PrivateHeader, getTimestamp
import pel.peltool.private_header as private_header_mod
from pel.peltool.user_header import UserHeader
from pel.peltool.extend_user_header import ExtendedUserHeader
from pel.peltool.failing_mtms import FailingMTMS
from pel.peltool.imp_partition import ImpactedPartition
from pel.peltool.default import Default
from pel.peltool.config import Config
from pel.peltool.comp_id import getDisplayCompID, getAllCreatorsCompIDs
import pel.peltool.pel_values as pel_values

n = 0
def show(v):
    if isinstance(v, (bytes, bytearray)):
        return "%s:%s" % (type(v).__name__, bytes(v).hex())
    if isinstance(v, memoryview):
        return "mv:%s" % bytes(v).hex()
    return repr(v)

def emit(tag, fn):
    global n
    n += 1
    try:
        res = fn()
        print("%d\t%s\tOK\t%s" % (n, tag, show(res)))
    except BaseException as e:
        print("%d\t%s\tEXC\t%s\t%s" % (n, tag, type(e).__name__, e))
    sys.stdout.flush()

rnd = random.Random(77)
def rbytes(k):
    return bytes(rnd.getrandbits(8) for _ in range(k))

def state(obj):
    d = {}
    for k, v in sorted(vars(obj).items()):
        if k == 'stream':
            d[k] = ('index', v.index, 'size', v.size)
        elif isinstance(v, (bytes, bytearray, memoryview)):
            d[k] = show(v)
        else:
            d[k] = v
    return d

def comp_state():
    return (json.dumps(comp_id.componentIDs, sort_keys=True),
            comp_id.attemptedToParseCompIDs)

# ------------------------------------------------------------ Config
emit("config", lambda: sorted(vars(Config()).items()))
def config_independent():
    a = Config(); b = Config()
    a.severities.append(4)
    return (a.severities, b.severities)
emit("config-independent", config_independent)

# ------------------------------------------------------------ DataStream
def ds_script(data, ctor_kw, ops):
    s = DataStream(data, **ctor_kw)
    log = []
    for op, args, kw in ops:
        try:
            r = getattr(s, op)(*args, **kw)
            log.append((op, show(r), s.index))
        except BaseException as e:
            log.append((op, type(e).__name__, str(e), s.index))
    return log, s.size, s.byte_order, s.is_signed

SIZES = [-3, -1, 0, 1, 2, 3, 4, 5, 8, 9, 16, 100, 1.5, True, None, "2"]
ORDERS = [None, 'big', 'little', 'middle', 0]
SIGNS = [None, True, False, 0, 1]
for i in range(400):
    data = rbytes(rnd.choice((0, 1, 2, 7, 8, 16, 33)))
    if i % 3 == 1:
        data = memoryview(data)
    elif i % 3 == 2:
        data = bytearray(data)
    kw = {}
    if rnd.random() < 0.7:
        kw['byte_order'] = rnd.choice(ORDERS)
    if rnd.random() < 0.7:
        kw['is_signed'] = rnd.choice(SIGNS)
    ops = []
    for _ in range(rnd.randrange(1, 9)):
        op = rnd.choice(('check_range', 'inc_index', 'get_mem', 'get_int', 'get_int', 'get_int'))
        size = rnd.choice(SIZES) if rnd.random() < 0.5 else rnd.choice((1, 2, 4, 8))
        okw = {}
        if op == 'get_int':
            if rnd.random() < 0.4:
                okw['byte_order'] = rnd.choice(ORDERS)
            if rnd.random() < 0.4:
                okw['is_signed'] = rnd.choice(SIGNS)
        ops.append((op, (size,), okw))
    emit("ds-%d" % i, lambda: ds_script(data, kw, ops))
emit("ds-positional", lambda: ds_script(b'\x01\x02\x03\x04\x05\x06', {},
     [('get_int', (2, 'little', True), {}), ('get_int', (2, 'big'), {'is_signed': False}),
      ('get_int', (1,), {}), ('get_int', (), {}), ('get_mem', (), {}), ('get_int', (1, 'big', False, 3), {})]))
emit("ds-ctor-positional", lambda: ds_script(b'\xff\xfe\x03', {}, [])[1:] and
     (lambda s: (s.get_int(2), s.index, s.data, s.size))(DataStream(b'\xff\xfe\x03', 'little', True)))
emit("ds-ctor-bad", lambda: DataStream(None))
emit("ds-ctor-int", lambda: DataStream(5))
emit("ds-str", lambda: ds_script("abcdef", {'byte_order': 'big', 'is_signed': False},
     [('get_mem', (2,), {}), ('get_int', (2,), {})]))
emit("ds-names", lambda: sorted(k for k in vars(DataStream) if not k.startswith('_')))

# ------------------------------------------------------------ timestamps
for size in range(0, 12):
    data = rbytes(size)
    def ts():
        s = DataStream(data, byte_order='big', is_signed=False)
        try:
            return (getTimestamp(s), s.index)
        except BaseException as e:
            return (type(e).__name__, str(e), s.index)
    emit("ts-%d" % size, ts)
def ts_mv():
    s = DataStream(memoryview(b'\x20\x24\x12\x31\x23\x59\x58\x99\x19\x99\x01\x02\x03\x04\x05\x06'))
    return (getTimestamp(s), getTimestamp(s), s.index)
emit("ts-mv", ts_mv)
emit("ts-none", lambda: getTimestamp(None))
emit("ts-same-function", lambda: private_header_mod.getTimestamp is
     __import__('pel.peltool.extend_user_header', fromlist=['x']).getTimestamp)

# ------------------------------------------------------------ sections
def ts_bytes():
    return bytes((rnd.choice((0x19, 0x20)), rnd.randrange(0x100), rnd.randrange(0x13),
                  rnd.randrange(0x32), rnd.randrange(0x24), rnd.randrange(0x60),
                  rnd.randrange(0x60), rnd.randrange(0x100)))

CREATORS = [b'O', b'B', b'H', b'C', b'K', b'L', b'M', b'P', b'S', b'T', b'X', b'\x00', b'\xff', b'o']

def ph_payload():
    return (ts_bytes() + ts_bytes() + rnd.choice(CREATORS) + rbytes(2) +
            bytes([rnd.randrange(0, 12)]) + rbytes(4) + rbytes(8) + rbytes(4) + rbytes(4))

def uh_payload():
    subsys = rnd.choice(list(pel_values.subsystemValues) + [0, 0xFF, 0x99])
    scope = rnd.choice(list(pel_values.eventScopeValues) + [0, 0xFF])
    sev = rnd.choice(list(pel_values.severityValues) + [0x51, 0xFF, 0x00, 0x10])
    etype = rnd.choice(list(pel_values.eventTypeValues) + [0x77])
    flags = rnd.choice((0, 0x8000, 0x4000, 0x2000, 0xA000, 0x6000, 0xE000, 0xFFFF, rnd.getrandbits(16)))
    states = rnd.choice((0, 1, 2, 3, 0x0102, 0x0303, 0x0400, 0x04, rnd.getrandbits(32)))
    return (bytes([subsys, scope, sev, etype]) + rbytes(4) + rbytes(2) +
            flags.to_bytes(2, 'big') + states.to_bytes(4, 'big'))

def text(k):
    kind = rnd.randrange(16)
    if kind == 0:
        return rbytes(k)
    if kind == 1:
        return b'\x00' * k
    body = bytes(rnd.choice(b'ABCDEFGHIJ0123456789-_. ') for _ in range(rnd.randrange(0, k + 1)))
    if kind == 2:
        return body.rjust(k, b'\x00')
    if kind == 3:
        return (b'\x00' + body + b'\x00Z')[:k].ljust(k, b'\x00')
    return body.ljust(k, b'\x00')

def eh_payload():
    symlen = rnd.choice((0, 0, 1, 4, 8, 20, 80, 255))
    sym = text(symlen) if rnd.random() < 0.8 else text(max(symlen - 3, 0))
    return (text(8) + text(12) + text(16) + text(16) + rbytes(4) + ts_bytes() +
            rbytes(3) + bytes([symlen]) + sym)

def mt_payload():
    return text(8) + text(12)

def ip_payload():
    namelen = rnd.choice((0, 0, 1, 4, 8, 13, 40))
    count = rnd.choice((0, 0, 1, 2, 3, 4, 7))
    pad = b'\x00\x00' if count % 2 and rnd.random() < 0.8 else b''
    return (rbytes(2) + bytes([namelen, count]) + rbytes(4) + text(namelen) +
            rbytes(2 * count) + pad + (rbytes(3) if rnd.random() < 0.3 else b''))

def mk(cls, stream, hdr, creator):
    sid, slen, ver, sub, comp = hdr
    if cls in (PrivateHeader, Default):
        return cls(stream, sid, slen, ver, sub, comp)
    return cls(stream, sid, slen, ver, sub, comp, creator)

def decode(cls, payload, hdr, creator, stream_kw, as_type, twice):
    data = {'bytes': payload, 'mv': memoryview(payload), 'ba': bytearray(payload)}[as_type]
    s = DataStream(data, **stream_kw)
    log = []
    obj = None
    try:
        obj = mk(cls, s, hdr, creator)
        if cls is UserHeader:
            log.append(('pre', obj.isHidden(), obj.isServiceable()))
        for _ in range(2 if twice else 1):
            out = obj.toJSON()
            log.append(('json', type(out).__name__, json.dumps(out)))
            if cls is UserHeader:
                log.append(('post', obj.isHidden(), obj.isServiceable()))
    except BaseException as e:
        log.append(('exc', type(e).__name__, str(e)))
    log.append(('state', state(obj) if obj is not None else None, s.index))
    return log

BIG = {'byte_order': 'big', 'is_signed': False}
STREAM_KWS = [BIG] * 6 + [{'byte_order': 'little', 'is_signed': False},
                           {'byte_order': 'big', 'is_signed': True},
                           {'byte_order': 'little', 'is_signed': True},
                           {}, {'byte_order': 'big'}, {'is_signed': False}]
COMPS = [0x1000, 0x2000, 0x3100, 0xBD00, 0x4142, 0x4100, 0x0041, 0, 0xFFFF, 0xabcd, 0x12345, -1, 0xE500]
CREATOR_STRS = ['O', 'B', 'H', 'C', 'K', 'L', 'M', 'P', 'S', 'T', 'X', '', 'OO', '\x00']

SECTIONS = [
    (PrivateHeader, ph_payload, 0x5048),
    (UserHeader, uh_payload, 0x5548),
    (ExtendedUserHeader, eh_payload, 0x4548),
    (FailingMTMS, mt_payload, 0x4D54),
    (ImpactedPartition, ip_payload, 0x4C50),
]
for cls, gen, sid in SECTIONS:
    for i in range(160):
        payload = gen()
        mode = i % 8
        if mode == 5:
            payload = payload[:rnd.randrange(0, len(payload) + 1)]
        elif mode == 6:
            payload = rbytes(rnd.randrange(0, 90))
        elif mode == 7:
            payload = payload + rbytes(5)
        hdr = (sid, 8 + len(payload), rnd.randrange(0, 4), rnd.randrange(0, 256), rnd.choice(COMPS))
        creator = rnd.choice(CREATOR_STRS)
        kw = rnd.choice(STREAM_KWS)
        as_type = 'bytes' if i % 10 else rnd.choice(('mv', 'ba'))
        twice = (i % 7 == 0)
        emit("%s-%d" % (cls.__name__, i),
             lambda: decode(cls, payload, hdr, creator, kw, as_type, twice))
    # every truncation of one good payload
    payload = gen()
    for cut in range(len(payload) + 1):
        emit("%s-cut-%d" % (cls.__name__, cut),
             lambda: decode(cls, payload[:cut], (sid, 8 + cut, 1, 0, 0x1000), 'O', BIG, 'bytes', False))

# all user header flag / severity combinations that matter for the filters
for sev in (0x00, 0x10, 0x20, 0x40, 0x51, 0x71):
    for flags in (0, 0x8000, 0x4000, 0x2000, 0xC000, 0xA000, 0x6000, 0xE000, 0x0920):
        for states in (0, 0x0201, 0x0399):
            payload = bytes([0x10, 0x03, sev, 0x00]) + bytes(6) + flags.to_bytes(2, 'big') + states.to_bytes(4, 'big')
            emit("uh-flt-%02x-%04x-%x" % (sev, flags, states),
                 lambda: decode(UserHeader, payload, (0x5548, 24, 1, 0, 0x2000), 'O', BIG, 'bytes', False))
# user header attributes assigned by a caller, without any decoding
def uh_manual(sev, flags):
    u = UserHeader(None, 0x5548, 24, 1, 0, 0x1000, 'O')
    u.eventSeverity = sev
    u.actionFlags = flags
    return (u.isHidden(), u.isServiceable())
for sev in (0, 0x10, 0x51, None):
    for flags in (0, 0x8000, 0x4000, 0x2000, 0x6000, 0xFFFF, -1, None, 1.5):
        emit("uh-manual-%r-%r" % (sev, flags), lambda: uh_manual(sev, flags))

# default section
for i in range(60):
    size = rnd.choice((0, 1, 4, 15, 16, 17, 40))
    payload = rbytes(size)
    slen = rnd.choice((8 + size, 8 + size, 8 + size, 8, 7, 0, 9, 8 + size + 1, 8 + size - 1, 4))
    comp = rnd.choice(COMPS)
    emit("Default-%d" % i,
         lambda: decode(Default, payload, (0x4448, slen, 1, 2, comp), None, BIG,
                        rnd.choice(('bytes', 'mv', 'ba')), i % 5 == 0))

# several decodes from one stream, like peltool does
def chain():
    blob = ph_payload() + uh_payload() + eh_payload()
    s = DataStream(blob, byte_order='big', is_signed=False)
    ph = PrivateHeader(s, 0x5048, 48, 1, 0, 0x1000)
    a = ph.toJSON()
    uh = UserHeader(s, 0x5548, 24, 1, 0, 0x1000, ph.creatorID)
    b = uh.toJSON()
    eh = ExtendedUserHeader(s, 0x4548, 0, 1, 0, 0x1000, ph.creatorID)
    c = eh.toJSON()
    return (json.dumps([a, b, c]), s.index, state(ph), state(uh), state(eh))
for i in range(25):
    emit("chain-%d" % i, chain)

# ------------------------------------------------------------ comp ids
emit("comp-state-0", comp_state)
for creator in CREATOR_STRS + [None, 5, 'notes', 'B2']:
    for comp in COMPS + [0x4200, 0x0042, 0x00FF, 0xFF00, 0x1F600, 0xD800, 1.5, None, '1000']:
        emit("comp-%r-%r" % (creator, comp), lambda: getDisplayCompID(comp, creator))
emit("comp-state-1", comp_state)
emit("comp-reload", lambda: getAllCreatorsCompIDs())
emit("comp-state-2", comp_state)
def comp_forced():
    comp_id.attemptedToParseCompIDs = False
    try:
        getAllCreatorsCompIDs()
    except BaseException as e:
        return (type(e).__name__, str(e).replace(cfgdir, '<CFG>'), comp_state())
    return comp_state()
emit("comp-forced", comp_forced)
emit("comp-forced-again", comp_forced)
emit("comp-after", lambda: [getDisplayCompID(c, k) for c in (0x1000, 0x2000, 0xE500) for k in ('O', 'B', 'notes')])
emit("comp-kw", lambda: getDisplayCompID(creatorID='O', componentID=0x1000))
emit("comp-names", lambda: sorted(k for k in ('componentIDs', 'pelConfigRootPath', 'attemptedToParseCompIDs',
                                              'getAllCreatorsCompIDs', 'getDisplayCompID', 'creatorIDs')
                                  if hasattr(comp_id, k)))
emit("comp-same-dict", lambda: comp_id.componentIDs is sys.modules['pel.peltool.comp_id'].componentIDs)
print("TOTAL", n)
'''

# --------------------------------------------------------------------------
# PEL construction


def sec_header(sid, length, ver=1, subtype=0, comp=0x1000):
    if isinstance(sid, str):
        sid = sid.encode()
    return sid + struct.pack('>HBBH', length & 0xFFFF, ver, subtype, comp & 0xFFFF)


def private_header(nsec, creator=b'O', comp=0x1000, obmc=0x1234, plid=0x50000001,
                   eid=0x50000001, ver=1, subtype=0,
                   created=bytes.fromhex('2022030818402755'),
                   committed=bytes.fromhex('2022030818402899'),
                   cver=b'\x01\x02\x03\x04\x05\x06\x07\x08'):
    body = created + committed + creator + b'\x00\x00' + bytes([nsec & 0xFF]) + \
        struct.pack('>I', obmc) + cver + struct.pack('>II', plid, eid)
    return sec_header('PH', 48, ver, subtype, comp) + body


def user_header(subsys=0x10, scope=0x03, sev=0x40, etype=0x00, domain=0, vector=0,
                flags=0xA000, states=0, comp=0x1000, ver=1, subtype=0):
    body = bytes([subsys, scope, sev, etype]) + b'\x00' * 4 + \
        bytes([domain, vector]) + struct.pack('>HI', flags, states)
    return sec_header('UH', 24, ver, subtype, comp) + body


def src_section(sid='PS', ascii_str=b'BD8D1001', comp=0x1000, flags=0, words=9):
    body = bytes([2, flags, 0, words]) + struct.pack('>HH', 0, 72)
    body += struct.pack('>8I', 0x020000E0, 0x00010000, 0x11223344, 0x03000000,
                        0xAABBCCDD, 5, 6, 7)
    body += ascii_str.ljust(32, b' ')
    return sec_header(sid, 8 + len(body), 1, 1, comp) + body


def ext_user_header(mtm=b'9105-22A', sn=b'SN1234567\x00\x00\x00', fw=b'FW1030.00\x00\x00\x00\x00\x00\x00\x00',
                    subfw=b'fw1030.00-1\x00\x00\x00\x00\x00', symptom=b'BD8D1001_11223344\x00\x00\x00',
                    symlen=None, comp=0x1000,
                    ref=bytes.fromhex('2022030818402700')):
    if symlen is None:
        symlen = len(symptom)
    body = mtm + sn + fw + subfw + b'\x00' * 4 + ref + b'\x00' * 3 + bytes([symlen]) + symptom
    return sec_header('EH', 8 + len(body), 1, 0, comp) + body


def mtms_section(mtm=b'9105-22A', sn=b'SN1234567\x00\x00\x00', comp=0x1000):
    return sec_header('MT', 28, 1, 0, comp) + mtm + sn


def imp_partition(part=0x0102, name=b'lpar-one\x00\x00\x00\x00', lps=(1, 2, 3), logid=0x99, comp=0x1000, pad=True):
    body = struct.pack('>HBBI', part, len(name), len(lps), logid) + name
    for lp in lps:
        body += struct.pack('>H', lp)
    if len(lps) % 2 and pad:
        body += b'\x00\x00'
    return sec_header('LP', 8 + len(body), 1, 0, comp) + body


def generic_section(sid, payload, ver=1, subtype=0, comp=0x2000, length=None):
    if length is None:
        length = 8 + len(payload)
    return sec_header(sid, length, ver, subtype, comp) + payload


def build_pels(rnd):
    pels = {}

    def pel(sections, uh=None, **ph):
        return private_header(2 + len(sections), **ph) + user_header(**(uh or {})) + b''.join(sections)

    def full(i, creator=b'O', uh=None, **kw):
        return pel([src_section(comp=kw.pop('srccomp', 0x1000)), ext_user_header(), mtms_section(),
                    imp_partition(), generic_section('DH', b'0123456789abcdef!')],
                   uh=uh, creator=creator, eid=0x50000000 + i, plid=0x50000000 + (i // 2),
                   obmc=100 + i, **kw)

    i = 1
    # every filter relevant severity / action flag combination
    for sev in (0x00, 0x10, 0x20, 0x40, 0x51, 0x61, 0x71):
        for flags in (0x0000, 0x8000, 0x4000, 0x2000, 0xA000, 0x6000, 0xE800):
            pels['f_%02x_%04x' % (sev, flags)] = full(i, uh=dict(sev=sev, flags=flags, states=i & 0x3FF))
            i += 1
    # creators and component ids
    for creator in (b'O', b'B', b'H', b'C', b'M', b'T', b'X', b'\x00', b'\xc3'):
        for comp in (0x1000, 0x2000, 0xE500, 0x4142, 0x4100, 0xBD00):
            pels['c_%s_%04x' % (creator.hex(), comp)] = full(
                i, creator=creator, comp=comp, uh=dict(comp=comp, subsys=0x20 + (i % 6)), srccomp=comp)
            i += 1
    # odd timestamps / ids
    pels['ts'] = full(i, created=bytes.fromhex('19991231235959ff'), committed=bytes(8),
                      cver=b'\x00' * 7 + b'\x05'); i += 1
    pels['cver_big'] = full(i, cver=b'\xff' * 8); i += 1
    pels['no_extra'] = pel([], eid=0x500000F0)
    pels['count_lies_small'] = private_header(2, eid=0x500000F1) + user_header() + src_section()
    pels['count_lies_big'] = private_header(9, eid=0x500000F2) + user_header() + src_section()
    pels['count_zero'] = private_header(0, eid=0x500000F3) + user_header() + src_section()
    pels['uh_first'] = user_header() + private_header(2)
    pels['ph_twice'] = private_header(3) + private_header(3)
    pels['bad_uh_id'] = private_header(3) + generic_section('UX', bytes(16)) + src_section()
    # extended user header variations
    pels['eh_nosym'] = pel([src_section(), ext_user_header(symptom=b'')], eid=0x500000E0)
    pels['eh_symshort'] = pel([src_section(), ext_user_header(symptom=b'ABC', symlen=20)], eid=0x500000E1)
    pels['eh_symlong'] = pel([src_section(), ext_user_header(symptom=b'A' * 80, symlen=80), mtms_section()], eid=0x500000E2)
    pels['eh_nuls'] = pel([src_section(), ext_user_header(mtm=b'\x00' * 8, sn=b'\x00A\x00B\x00\x00\x00\x00\x00\x00\x00\x00',
                                                          fw=b'\x00' * 16, subfw=b'x' * 16)], eid=0x500000E3)
    pels['eh_badutf8'] = pel([src_section(), ext_user_header(mtm=b'\xff\xfe\xfd\xfc\xfb\xfa\xf9\xf8')], eid=0x500000E4)
    pels['mt_badutf8'] = pel([src_section(), mtms_section(sn=b'\x80' * 12)], eid=0x500000E5)
    pels['mt_nuls'] = pel([src_section(), mtms_section(mtm=b'\x00\x00AB\x00\x00\x00\x00', sn=b'\x00' * 12)], eid=0x500000E6)
    # impacted partition variations
    pels['lp_none'] = pel([src_section(), imp_partition(name=b'', lps=())], eid=0x500000D0)
    pels['lp_odd'] = pel([src_section(), imp_partition(lps=(7,)), mtms_section()], eid=0x500000D1)
    pels['lp_odd_nopad'] = pel([src_section(), imp_partition(lps=(7, 8, 9), pad=False), mtms_section()], eid=0x500000D2)
    pels['lp_even'] = pel([src_section(), imp_partition(lps=(1, 2, 3, 4), name=b'p\x00\x00\x00'), mtms_section()], eid=0x500000D3)
    pels['lp_twice'] = pel([imp_partition(lps=(1,)), imp_partition(lps=(2, 3)), src_section()], eid=0x500000D4)
    pels['lp_badname'] = pel([src_section(), imp_partition(name=b'\xff\xff\xff\xff')], eid=0x500000D5)
    # default sections
    pels['dflt'] = pel([src_section(), generic_section('EP', bytes(range(40)), comp=0x4142),
                        generic_section('CH', b''), generic_section('IE', b'x' * 17)], eid=0x500000C0)
    pels['dflt_shortlen'] = pel([generic_section('DH', b'ABCDEFGH', length=4)], eid=0x500000C1)
    pels['dflt_longlen'] = pel([generic_section('DH', b'ABCDEFGH', length=100)], eid=0x500000C2)
    # truncations of a good one
    good = full(i); i += 1
    for cut in list(range(0, 80, 3)) + list(range(80, len(good), 11)) + [len(good) - 1]:
        pels['trunc_%03d' % cut] = good[:cut]
    # random corruption
    for k in range(40):
        b = bytearray(good)
        for _ in range(rnd.randrange(1, 6)):
            b[rnd.randrange(len(b))] = rnd.getrandbits(8)
        pels['corrupt_%02d' % k] = bytes(b)
    # corruption limited to the two headers
    for k in range(30):
        b = bytearray(good)
        for _ in range(rnd.randrange(1, 4)):
            b[rnd.randrange(8, 72)] = rnd.getrandbits(8)
        pels['hdrcorrupt_%02d' % k] = bytes(b)
    pels['random'] = bytes(rnd.getrandbits(8) for _ in range(300))
    pels['empty'] = b''
    return pels


def write_registry(path, broken=False):
    """A stand-in for the pel_registry package / the BMC config directory."""
    os.makedirs(path)
    with open(os.path.join(path, '__init__.py'), 'w') as fd:
        fd.write("import os\n"
                 "def get_registry_path():\n"
                 "    return os.path.join(os.path.dirname(__file__), 'message_registry.json')\n")
    with open(os.path.join(path, 'message_registry.json'), 'w') as fd:
        json.dump({"PELs": [{"Name": "x", "SRC": {"ReasonCode": "0x1001"},
                             "Documentation": {"Message": "Test message", "Description": "d"}}]}, fd)
    with open(os.path.join(path, 'O_component_ids.json'), 'w') as fd:
        json.dump({"1000": "bmc common function", "2000": "bmc error logging",
                   "E500": "bmc hw isolation", "abcd": "lower case key", "ABCD": "upper case key"}, fd)
    with open(os.path.join(path, 'B_component_ids.json'), 'w') as fd:
        json.dump({"1000": "hb common", "BD00": "hb something"}, fd)
    with open(os.path.join(path, 'notes_component_ids.json.bak'), 'w') as fd:
        json.dump({"1000": "from backup file"}, fd)
    with open(os.path.join(path, '_component_ids.json'), 'w') as fd:
        json.dump({"FFFF": "empty creator"}, fd)
    with open(os.path.join(path, 'H_component_ids.json'), 'w') as fd:
        json.dump([], fd)
    with open(os.path.join(path, 'unrelated.json'), 'w') as fd:
        fd.write('{not json')
    if broken:
        for name in ('A_component_ids.json', 'P_component_ids.json', 'Z_component_ids.json'):
            with open(os.path.join(path, name), 'w') as fd:
                fd.write('{"1000": ')
        os.makedirs(os.path.join(path, 'D_component_ids.json'))


FILTERS = [
    [], ['-E'], ['-s'], ['-N'], ['-H'], ['-t'], ['-s', '-O'], ['-N', '-O'], ['-H', '-O'],
    ['-S', 'Informational'], ['-S', 'Recovered', 'Predictive'], ['-O', '-S', 'Unrecoverable'],
    ['-O', '-S', 'Critical', 'Diagnostic', 'Symptom'], ['-s', '-S', 'Informational', '-O'],
    ['-H', '-N', '-t'], ['-E', '-r'], ['-E', '-e', '.pel'], ['-E', '-e', '.bin'],
]
LOOKUPS = [
    ['-i', '5000000A'], ['-i', '0x5000000a'], ['-i', '500000D1', '-x'], ['-i', '123'],
    ['--bmc-id', '110'], ['--bmc-id', '101', '-x'], ['--bmc-id', '99999'],
    ['--plid', '50000005'], ['--plid', '0x50000005', '-x'], ['--plid', '50000005', '-r'],
    ['--src', 'BD8D1001'], ['--src', 'BD8D', '-x'], ['--src', 'ZZZZ'],
    ['-d', '5000000A'], ['-D'],
]


def normalise_err(text, root):
    text = text.replace(root, '<ROOT>')
    if 'Traceback (most recent call last):' in text:
        text = '\n'.join(l for l in text.splitlines() if not l.startswith(' '))
    return text


def run(cmd, root, cwd, optimise=False, extra_path=None):
    env = dict(os.environ)
    paths = [os.path.join(root, 'modules')]
    if extra_path:
        paths.append(extra_path)
    env['PYTHONPATH'] = os.pathsep.join(paths)
    env['PYTHONDONTWRITEBYTECODE'] = '1'
    env['PYTHONHASHSEED'] = '0'
    env['PYTHONWARNINGS'] = 'ignore'
    full = [PY] + (['-O'] if optimise else []) + cmd
    p = subprocess.run(full, cwd=cwd, env=env, stdout=subprocess.PIPE,
                       stderr=subprocess.PIPE, timeout=900)
    return (p.returncode, p.stdout.decode('utf-8', 'replace'),
            normalise_err(p.stderr.decode('utf-8', 'replace'), root))


def tree_state(path):
    state = []
    for r, _, files in sorted(os.walk(path)):
        for f in sorted(files):
            full = os.path.join(r, f)
            with open(full, 'rb') as fd:
                state.append((os.path.relpath(full, path), fd.read()))
    return state


def first_difference(a, b):
    la, lb = a[1].splitlines(), b[1].splitlines()
    for x, y in zip(la, lb):
        if x != y:
            return '  %s\n  %s' % (x[:400], y[:400])
    return '  rc/stderr/length: %r vs %r' % ((a[0], a[2][-300:], len(la)), (b[0], b[2][-300:], len(lb)))


def main():
    if len(sys.argv) != 3:
        sys.exit(__doc__)
    roots = [os.path.abspath(a) for a in sys.argv[1:3]]
    work = tempfile.mkdtemp(prefix='work_', dir=HERE)
    cases = 0
    diffs = []
    try:
        driver = os.path.join(work, 'driver.py')
        with open(driver, 'w') as fd:
            fd.write(DRIVER)
        # stand-ins for the component id configuration
        regpkg = os.path.join(work, 'regpkg')
        write_registry(os.path.join(regpkg, 'pel_registry'))
        brokenpkg = os.path.join(work, 'brokenpkg')
        write_registry(os.path.join(brokenpkg, 'pel_registry'), broken=True)
        emptydir = os.path.join(work, 'emptycfg')
        os.makedirs(emptydir)

        variants = [
            ('none', emptydir, None),
            ('package', emptydir, regpkg),
            ('brokenpackage', emptydir, brokenpkg),
            ('bmcpath', os.path.join(regpkg, 'pel_registry'), None),
            ('brokenpath', os.path.join(brokenpkg, 'pel_registry'), None),
            ('emptypath', emptydir, None),
        ]

        # 1. in-process driver
        for opt in (False, True):
            for variant, cfgdir, extra in variants:
                results = [run([driver, variant, cfgdir], root, work, optimise=opt, extra_path=extra)
                           for root in roots]
                if results[0] != results[1]:
                    diffs.append('driver(%s, -O=%s):\n%s' % (variant, opt, first_difference(*results)))
                lines = results[0][1].strip().splitlines()
                if not lines or not lines[-1].startswith('TOTAL') or results[0][0] != 0:
                    diffs.append('driver(%s) did not complete: rc=%s %s' % (
                        variant, results[0][0], results[0][2][-600:]))
                else:
                    cases += int(lines[-1].split()[1])

        # 2. CLI
        rnd = random.Random(4242)
        pels = build_pels(rnd)
        peldir = os.path.join(work, 'pels')
        outdir = os.path.join(work, 'out')
        exclude = os.path.join(work, 'exclude.txt')
        with open(exclude, 'w') as fd:
            fd.write('BD8D1001\n')

        def fresh():
            for d in (peldir, outdir):
                shutil.rmtree(d, ignore_errors=True)
                os.makedirs(d)
            for name, blob in pels.items():
                ext = '.bin' if name.startswith('c_4f') else '.pel'
                with open(os.path.join(peldir, name + ext), 'wb') as fd:
                    fd.write(blob)

        jobs = []
        for flt in FILTERS:
            for mode in (['-l'], ['-n'], ['-a']):
                jobs.append((False, None, ['-p', peldir] + mode + flt))
        for mode in (['-l'], ['-a'], ['-n']):
            jobs.append((False, regpkg, ['-p', peldir] + mode + ['-E']))
            jobs.append((False, brokenpkg, ['-p', peldir] + mode + ['-E']))
            jobs.append((True, None, ['-p', peldir] + mode + ['-E']))
            jobs.append((True, regpkg, ['-p', peldir] + mode + ['-s', '-H']))
        jobs.append((False, None, ['-p', peldir, '-a', '-x', '-E']))
        jobs.append((False, None, ['-p', peldir, '-l', '-x']))
        jobs.append((False, None, ['-p', peldir, '-a', '-E', '-P']))
        for lk in LOOKUPS:
            jobs.append((False, None, ['-p', peldir] + lk))
        jobs.append((False, regpkg, ['-p', peldir, '--src-exclude', exclude]))
        jobs.append((False, None, ['-p', peldir, '--src-exclude', exclude, '-x']))
        jobs.append((False, None, ['-p', peldir, '-j', '-o', outdir]))
        jobs.append((False, regpkg, ['-p', peldir, '-j', '-o', outdir, '-E']))
        jobs.append((False, None, ['-p', peldir, '-j', '-E', '-c']))
        jobs.append((True, None, ['-p', peldir, '-j', '-o', outdir, '-E', '-c', '-e', '.pel']))
        jobs.append((False, None, ['-p', peldir, '-j', '-o', outdir, '-H', '-O', '-c']))
        for name in sorted(pels):
            ext = '.bin' if name.startswith('c_4f') else '.pel'
            path = os.path.join(peldir, name + ext)
            jobs.append((False, None, ['-f', path]))
            if name.startswith(('c_', 'trunc', 'hdrcorrupt')):
                jobs.append((False, regpkg, ['-f', path]))
            if name.startswith(('f_', 'trunc', 'corrupt', 'eh_', 'lp_', 'dflt')):
                jobs.append((True, None, ['-f', path]))
            if name.startswith(('f_00', 'trunc_0', 'lp_')):
                jobs.append((False, None, ['-f', path, '-x', '-c']))
                jobs.append((False, brokenpkg, ['-f', path, '-N', '-c']))
        jobs.append((False, None, ['-f', os.path.join(peldir, 'does_not_exist.pel')]))
        jobs.append((False, None, ['-f', peldir]))
        jobs.append((False, None, []))
        jobs.append((False, None, ['-p', os.path.join(work, 'nodir'), '-l']))

        for opt, extra, job in jobs:
            res = []
            for root in roots:
                fresh()
                tool = os.path.join(root, 'modules', 'pel', 'peltool', 'peltool.py')
                r = run([tool] + job, root, work, optimise=opt, extra_path=extra)
                res.append((r, tree_state(peldir), tree_state(outdir)))
            cases += 1
            if res[0] != res[1]:
                diffs.append('CLI(-O=%s, registry=%s) %s\n%s' % (
                    opt, os.path.basename(extra) if extra else None, ' '.join(job),
                    first_difference(res[0][0], res[1][0])))
    finally:
        shutil.rmtree(work, ignore_errors=True)

    if diffs:
        print('DIFFERENT (%d of %d cases)' % (len(diffs), cases))
        for d in diffs[:20]:
            print(d)
        sys.exit(1)
    print('IDENTICAL (%d cases)' % cases)
    sys.exit(0)


if __name__ == '__main__':
    main()
