#!/usr/bin/env python3
"""
Differential check for refactorings in the user-data / datastream / hexdump
area of openpower-pel-parsers.

usage: diffcheck.py <pristine_root> <patched_root>

Both trees are exercised in separate subprocesses (PYTHONPATH=<root>/modules),
once with plain `python` and once with `python -O`.  Two kinds of cases:

  * in-process cases: a worker script imports the modules of the tree and runs
    several thousand calls (DataStream, hexdump, hexdump.parse, ParseUserData,
    UserData/ExtUserData/Default, parsePEL, io_drawer dump parsing) on
    well-formed, truncated, corrupted and random inputs; every result /
    exception / captured stdout+stderr / internal cache state is recorded.
  * CLI cases: peltool.py is run on generated PEL directories with several
    option combinations; stdout, stderr, exit status and the resulting
    directory content are recorded.

Prints "IDENTICAL (<n> cases)" and exits 0 if everything matches, else exits 1.
"""
import hashlib
import json
import os
import random
import shutil
import struct
import subprocess
import sys
import tempfile

PY = sys.executable

# --------------------------------------------------------------------------
# Worker: runs inside a subprocess with PYTHONPATH=<root>/modules
# --------------------------------------------------------------------------
WORKER = r'''
import sys, os, json, io, random, struct, contextlib, importlib, importlib.abc
import importlib.util, builtins

ROOT = sys.argv[1]
OUT = sys.argv[2]

results = []


def norm(s):
    return s.replace(ROOT, '<ROOT>')


def show(v):
    """Stable textual form of a result value."""
    if isinstance(v, memoryview):
        return 'memoryview:' + v.tobytes().hex()
    if isinstance(v, (bytes, bytearray)):
        return type(v).__name__ + ':' + bytes(v).hex()
    if isinstance(v, (list, tuple)):
        return type(v).__name__ + '[' + ', '.join(show(x) for x in v) + ']'
    if isinstance(v, dict):
        return type(v).__name__ + '{' + ', '.join(
            show(k) + ': ' + show(x) for k, x in v.items()) + '}'
    return type(v).__name__ + ':' + norm(repr(v))


def run(name, fn, *extra):
    out, err = io.StringIO(), io.StringIO()
    try:
        with contextlib.redirect_stdout(out), contextlib.redirect_stderr(err):
            r = fn()
        res = 'OK ' + show(r)
    except BaseException as e:
        res = 'EXC ' + type(e).__name__ + ': ' + norm(str(e))
    rec = [name, res, norm(out.getvalue()), norm(err.getvalue())]
    for x in extra:
        rec.append(show(x()))
    results.append(rec)


rnd = random.Random(20240607)


def rbytes(n):
    return bytes(rnd.randrange(256) for _ in range(n))


# ------------------------------------------------------------------ DataStream
from pel.datastream import DataStream


def ds_cases():
    ctor_opts = [(None, None), ('big', False), ('little', False),
                 ('big', True), ('little', True), ('big', None), (None, False)]
    sizes = [0, 1, 2, 3, 4, 8, -1, -5, 100, 1.5, 0.0, True, False, 7, 16, 17]
    call_bo = [None, 'big', 'little', 'middle']
    call_sg = [None, True, False]
    for n in range(160):
        data = rbytes(rnd.choice([0, 1, 2, 5, 8, 16, 33]))
        kind = rnd.choice(['bytes', 'mv', 'ba'])
        buf = {'bytes': data, 'mv': memoryview(data),
               'ba': bytearray(data)}[kind]
        bo, sg = rnd.choice(ctor_opts)
        pos = rnd.randrange(3)
        if pos == 0:
            s = DataStream(buf, bo, sg)
        elif pos == 1:
            s = DataStream(buf, byte_order=bo, is_signed=sg)
        else:
            s = DataStream(buf) if (bo, sg) == (None, None) else \
                DataStream(buf, is_signed=sg, byte_order=bo)
        state = lambda s=s: (s.index, s.size, s.byte_order, s.is_signed,
                             len(s.data))
        run('ds%d.init' % n, lambda: None, state)
        for k in range(rnd.randrange(3, 14)):
            op = rnd.choice(['check_range', 'inc_index', 'get_mem', 'get_int',
                             'get_int', 'get_int_kw', 'get_int_pos'])
            nb = rnd.choice(sizes)
            tag = 'ds%d.%d.%s(%r)' % (n, k, op, nb)
            if op == 'check_range':
                run(tag, lambda: s.check_range(nb), state)
            elif op == 'inc_index':
                run(tag, lambda: s.inc_index(nb), state)
            elif op == 'get_mem':
                run(tag, lambda: s.get_mem(nb), state)
            elif op == 'get_int':
                run(tag, lambda: s.get_int(nb), state)
            elif op == 'get_int_kw':
                b, g = rnd.choice(call_bo), rnd.choice(call_sg)
                run(tag + repr((b, g)),
                    lambda: s.get_int(nb, byte_order=b, is_signed=g), state)
            else:
                b, g = rnd.choice(call_bo), rnd.choice(call_sg)
                run(tag + repr((b, g)), lambda: s.get_int(nb, b, g), state)
    # keyword names of the public API
    s = DataStream(data=b'\x01\x02\x03\x04', byte_order='big', is_signed=False)
    run('ds.kw.check', lambda: s.check_range(num_bytes=2))
    run('ds.kw.inc', lambda: s.inc_index(num_bytes=1))
    run('ds.kw.mem', lambda: s.get_mem(num_bytes=1))
    run('ds.kw.int', lambda: s.get_int(num_bytes=2), lambda: s.index)
    run('ds.str', lambda: DataStream(b'ab', 'big', False).get_mem('1'))
    run('ds.none', lambda: DataStream(b'ab', 'big', False).get_int(None))
    run('ds.nolen', lambda: DataStream(5))
    run('ds.doc', lambda: (DataStream.__doc__, DataStream.get_int.__doc__,
                           DataStream.get_mem.__doc__,
                           DataStream.inc_index.__doc__,
                           DataStream.check_range.__doc__))


ds_cases()

# --------------------------------------------------------------------- hexdump
import pel.hexdump as hd


def hexdump_cases():
    params = [(16, 4), (8, 2), (16, 16), (16, 1), (7, 3), (1, 1), (256, 256),
              (5, 8), (32, 4), (0, 4), (16, 0), (257, 4), (16, 257), (-4, 4),
              (16, -4), (-16, -4), (16, 2.0), (8.0, 4), (3, 2), ('16', 4),
              (16, None), (1, 256), (256, 1), (10, 4)]
    n = 0
    for ln in [0, 1, 3, 4, 5, 15, 16, 17, 31, 32, 33, 64, 70, 300]:
        for rep in range(3):
            data = rbytes(ln) if rep else bytes((i * 37 + 30) % 256
                                                for i in range(ln))
            run('hd.def.%d' % n, lambda: hd.hexdump(memoryview(data)))
            run('hd.defb.%d' % n, lambda: hd.hexdump(data))
            n += 1
            for p in rnd.sample(params, 7):
                kind = rnd.choice(['bytes', 'mv', 'ba', 'list'])
                buf = {'bytes': data, 'mv': memoryview(data),
                       'ba': bytearray(data), 'list': list(data)}[kind]
                how = rnd.randrange(3)
                tag = 'hd.%d.%s.%r.%d' % (n, kind, p, how)
                if how == 0:
                    run(tag, lambda: hd.hexdump(buf, p[0], p[1]))
                elif how == 1:
                    run(tag, lambda: hd.hexdump(buf, bytes_per_line=p[0],
                                                bytes_per_chunk=p[1]))
                else:
                    run(tag, lambda: hd.hexdump(data=buf,
                                                bytes_per_chunk=p[1],
                                                bytes_per_line=p[0]))
                n += 1
    run('hd.onlyline', lambda: hd.hexdump(b'0123456789', bytes_per_line=6))
    run('hd.onlychunk', lambda: hd.hexdump(b'0123456789', bytes_per_chunk=3))
    run('hd.str', lambda: hd.hexdump('abcdef'))
    run('hd.wide', lambda: hd.hexdump(memoryview(
        struct.pack('=8H', 1, 300, 65535, 65, 66, 126, 127, 32)).cast('H')))
    run('hd.signed', lambda: hd.hexdump(memoryview(
        bytes([1, 200, 255, 65, 128])).cast('b')))
    run('hd.listbig', lambda: hd.hexdump([1, 2, 300, 70000, -3, 65]))
    run('hd.listbad', lambda: hd.hexdump([1, 2, 'x', 4]))
    run('hd.listflt', lambda: hd.hexdump([65, 66.0, 67]))
    run('hd.none', lambda: hd.hexdump(None))
    run('hd.fmt', lambda: hd.DEFAULT_LINE_FORMAT)
    run('hd.doc', lambda: (hd.hexdump.__doc__, hd.parse.__doc__))


hexdump_cases()


def mutate(line):
    if not line:
        return rnd.choice(['', 'x', ' '])
    how = rnd.randrange(8)
    i = rnd.randrange(len(line))
    alphabet = '0123456789abcdefABCDEFgGxz :|<>.\t\n１١é'
    if how == 0:
        return line[:i] + rnd.choice(alphabet) + line[i + 1:]
    if how == 1:
        return line[:i]
    if how == 2:
        return line[:i] + rnd.choice(alphabet) + line[i:]
    if how == 3:
        return line[:i] + line[i + 1:]
    if how == 4:
        return line + rnd.choice(['\n', '\n\n', ' ', 'ZZ', '\r\n'])
    if how == 5:
        return line.lower()
    if how == 6:
        return line.rstrip()
    return ''.join(rnd.choice(alphabet) for _ in range(rnd.randrange(80)))


def to_format(data, fmt, addr):
    """Render one line of data bytes according to a line format template."""
    hexs = data.hex().upper()
    a = '%0*X' % (fmt.count('A'), addr) if fmt.count('A') else ''
    out = []
    hi = ai = ci = 0
    for ch in fmt:
        if ch == 'A':
            out.append(a[ai]); ai += 1
        elif ch == 'D':
            out.append(hexs[hi] if hi < len(hexs) else ' '); hi += 1
        elif ch == 'C':
            b = data[ci] if ci < len(data) else 0x20
            out.append(chr(b) if 0x20 <= b < 0x7f else '.'); ci += 1
        else:
            out.append(ch)
    return ''.join(out)


def parse_cases():
    fmts = [hd.DEFAULT_LINE_FORMAT,
            'AAAA:  DDDDDDDD DDDDDDDD DDDDDDDD DDDDDDDD  <CCCCCCCCCCCCCCCC>',
            'DD DD DD DD DD DD DD DD DD DD DD DD DD DD DD DD CCCCCCCCCCCCCCCC',
            'DDDDDDDDDDDDDDDDDDDDDDDDDDDDDDDD',
            'AAAAAAAA|DD DD DD DD|CCCC',
            'D D D D',          # nibbles separated by literals
            'DDD DDD',          # odd number of digits per group
            'AD AD',
            '',
            'CCCC',
            'xDDx']
    n = 0
    for rep in range(60):
        ln = rnd.choice([0, 1, 7, 16, 17, 32, 40, 64])
        data = rbytes(ln)
        lines = hd.hexdump(memoryview(data))
        run('hp.rt.%d' % n, lambda: hd.parse(lines))
        run('hp.rtnl.%d' % n, lambda: hd.parse([l + '\n' for l in lines]))
        run('hp.rtkw.%d' % n, lambda: hd.parse(
            lines=lines, line_format=hd.DEFAULT_LINE_FORMAT))
        for f in fmts:
            run('hp.rtf.%d.%r' % (n, f), lambda: hd.parse(lines, f))
        mut = [mutate(l) if rnd.random() < 0.6 else l for l in lines]
        mut.insert(rnd.randrange(len(mut) + 1), mutate('garbage line'))
        run('hp.mut.%d' % n, lambda: hd.parse(mut))
        for f in rnd.sample(fmts, 3):
            run('hp.mutf.%d.%r' % (n, f), lambda: hd.parse(mut, f))
        n += 1
    for fi, f in enumerate(fmts):
        per = f.count('D') // 2 or 1
        for rep in range(12):
            data = rbytes(rnd.choice([1, per, per + 1, 2 * per, 3 * per + 2]))
            lines = [to_format(data[i:i + per], f, i)
                     for i in range(0, len(data), per)]
            run('hp.fmt.%d.%d' % (fi, rep), lambda: hd.parse(lines, f))
            lines2 = [mutate(l) if rnd.random() < 0.5 else l for l in lines]
            run('hp.fmtm.%d.%d' % (fi, rep), lambda: hd.parse(lines2, f))
            lines3 = [l.rstrip() + '\n' for l in lines]
            run('hp.fmts.%d.%d' % (fi, rep), lambda: hd.parse(lines3, f))
    run('hp.empty', lambda: hd.parse([]))
    run('hp.tuple', lambda: hd.parse(('00000000     DEADBEEF',)))
    run('hp.gen', lambda: hd.parse(iter(['00000000     DEADBEEF  0',
                                         '00000010     01'])))
    run('hp.bytesline', lambda: hd.parse([b'00000000     DEADBEEF']))
    run('hp.noneline', lambda: hd.parse(['00000000     AA', None]))
    run('hp.none', lambda: hd.parse(None))
    run('hp.str', lambda: hd.parse('00000000     DEADBEEF'))
    run('hp.fmtnone', lambda: hd.parse(['AB'], None))
    run('hp.fmtlist', lambda: hd.parse(['AB', 'A|', 'ABC'], ['D', 'D']))
    run('hp.partial', lambda: hd.parse(
        ['00000000     DEADBEEF  BADCXFFE  42414443  30464645     ....']))
    run('hp.oddnib', lambda: hd.parse(['00000000     DEA', '00000010     BC']))
    run('hp.uni', lambda: hd.parse(['0000000１     DEADBEEF',
                                    '00000000     ١٢ADBEEF',
                                    '00000000     DE\nAD']))
    run('hp.type', lambda: type(hd.parse(['00000000     DEADBEEF'])).__name__)


parse_cases()

# --------------------------------------------------- fake user data plugins
PLUGINS = {
    'za001': """
import json
def parseUDToJson(subType, version, data):
    return json.dumps({"A": subType, "V": version, "L": len(data),
                       "T": type(data).__name__, "H": bytes(data).hex()})
""",
    'za002': "def parseUDToJson(s, v, d):\n    return 'null'\n",
    'za003': "def parseUDToJson(s, v, d):\n    return None\n",
    'za004': "def parseUDToJson(s, v, d):\n    return 'not json {'\n",
    'za005': "def parseUDToJson(s, v, d):\n    return '[1, 2, \"x\"]'\n",
    'za006': """
calls = [0]
def parseUDToJson(s, v, d):
    calls[0] += 1
    if calls[0] % 2:
        raise ImportError("inner import problem %d" % calls[0])
    return '{"calls": %d}' % calls[0]
""",
    'za007': "def parseUDToJson(s, v, d):\n    raise ValueError('bad \\u00e9 data')\n",
    'za008': """
import builtins
builtins._za008 = getattr(builtins, '_za008', 0) + 1
raise ValueError("import boom %d" % builtins._za008)
""",
    'za009': """
import builtins
builtins._za009 = getattr(builtins, '_za009', 0) + 1
import nonexistent_xyz_module_for_test
""",
    'za00a': "def parseUDToJson(s, v, d):\n    return 5\n",
    'za00b': "def parseUDToJson(s, v, d):\n    return '\"just a string\"'\n",
    'za00c': """
def parseUDToJson(s, v, d):
    return '{"Section Version": "override", "Data": {"n": [1, 2]}, "Z": null}'
""",
    'za00d': "x = 1\n",
    'za00e': "def parseUDToJson(s, v, d):\n    raise KeyboardInterrupt('stop')\n",
    'za00f': "def parseUDToJson(s, v, d):\n    return ''\n",
    'za010': "def parseUDToJson(s, v, d):\n    return b'{\"b\": 1}'\n",
    'za011': "def parseUDToJson(s, v, d):\n    return b'\\xff\\xfe{'\n",
    'za012': "def parseUDToJson(s, v, d):\n    return ' null '\n",
    'za013': "def parseUDToJson(s, v, d):\n    return 'NaN'\n",
    'za014': "def parseUDToJson(s, v, d):\n    return '\\u00e9\\u4e2d not json'\n",
    'za015': """
class E(Exception):
    def __str__(self):
        raise RuntimeError("str failed")
def parseUDToJson(s, v, d):
    raise E()
""",
    'za016': "def parseUDToJson(s, v, d):\n    return 'true'\n",
    'za017': "def parseUDToJson(s, v, d):\n    return '{}'\n",
    'za018': "def parseUDToJson(s, v, d):\n    raise ModuleNotFoundError('nested')\n",
}


class FakeFinder(importlib.abc.MetaPathFinder, importlib.abc.Loader):
    def find_spec(self, fullname, path, target=None):
        parts = fullname.split('.')
        if parts[0] != 'udparsers' or len(parts) < 2 or \
                parts[1] not in PLUGINS:
            return None
        if len(parts) == 2:
            return importlib.util.spec_from_loader(fullname, self,
                                                   is_package=True)
        if len(parts) == 3 and parts[2] == parts[1]:
            return importlib.util.spec_from_loader(fullname, self)
        return None

    def create_module(self, spec):
        return None

    def exec_module(self, module):
        parts = module.__name__.split('.')
        if len(parts) == 3:
            exec(PLUGINS[parts[1]], module.__dict__)


sys.meta_path.insert(0, FakeFinder())

import pel.peltool.parse_user_data as pud
from pel.peltool.parse_user_data import ParseUserData, UserDataFormat
from pel.peltool.config import Config
from pel.peltool.user_data import UserData
from pel.peltool.ext_user_data import ExtUserData
from pel.peltool.default import Default


def cache_state():
    return sorted((k, v is None) for k, v in pud.userDataParsers.items())


def cfg(plugins=True):
    c = Config()
    c.allow_plugins = plugins
    c.every_pel = True
    return c


TEXTS = [
    b'hello world', b'line1\nline2\nline3', b'\n\nlead\n\ntrail\n\n',
    b'tab\there\x01\x7f~ \x1f', b'abc\n\x00\x00', b'abc\x00\n\x00',
    b'\x00\x00\x00', b'', b'   ', b'\n', b'a\n\nb', b'x\r\ny\r\n',
    'café 中文\nline'.encode(), b'\xff\xfe bad utf8',
    b'{"a": 1, "b": [1, 2, 3]}', b'  {"k": "v"}\x00\x00\x00',
    b'[1, 2, 3]', b'"str"', b'null', b'12', b'{"a": ', b'{"Data": 5}',
    b'\x1c\x1d text \x85', 'a \n b\n'.encode(), b'end\n\x00',
    b'{"Section Version": 9, "Created by": "me"}\n', b'true', b'NaN',
    b'\x00leading nul', b'a' * 70 + b'\n' + b'b' * 5,
]


def pud_cases():
    n = 0
    # Builtin BMC formats
    for sub in [0, 1, 2, 3, 4, 5, 0x48, 255]:
        for t in TEXTS + [rbytes(20), rbytes(33)]:
            for plug in (True, False):
                for kind in ('bytes', 'mv', 'ba'):
                    if kind != 'bytes' and rnd.random() < 0.7:
                        continue
                    buf = {'bytes': t, 'mv': memoryview(t),
                           'ba': bytearray(t)}[kind]
                    p = ParseUserData('O', 0x2000, sub, 1, buf)
                    run('pud.bi.%d.%d.%s.%s' % (n, sub, plug, kind),
                        lambda: p.parse(cfg(plug)), cache_state)
                    n += 1
            p = ParseUserData('O', 0x2000, sub, 1, t)
            run('pud.bi.direct.%d' % n, p.getBuiltinFormatJSON)
            n += 1
    # Custom parsers: fake plugins, real plugins, missing plugins; two rounds
    # so that the module cache is exercised too.
    combos = [('Z', 0xA000 + i) for i in range(1, 0x19)] + \
             [('z', 0xA001), ('B', 0x0100), ('b', 0x0100), ('H', 0x4142),
              ('O', 0x2001), ('O', 0xE500), ('M', 0x2C00), ('M', 0x2C01),
              ('X', 0), ('?', 0xFFFF), ('O', 0x1000), ('Z', 0xA00A),
              ('é', 0x1234), ('', 0x0001), ('B', 0x10000), ('B', -1)]
    for rnd_round in range(3):
        for creator, comp in combos:
            for data in (b'', b'\x01\x02\x03', rbytes(21)):
                for plug in (True, False):
                    sub = rnd.choice([0, 1, 72, 73, 84, 255])
                    ver = rnd.choice([0, 1, 2, 9])
                    p = ParseUserData(creator, comp, sub, ver, data)
                    tag = 'pud.cu.%d.%r.%x.%d.%s' % (n, creator, comp,
                                                     len(data), plug)
                    run(tag, lambda: p.parse(cfg(plug)), cache_state)
                    n += 1
                p = ParseUserData(creator, comp, 3, 1, memoryview(data))
                run('pud.cu.direct.%d' % n, p.parseCustom, cache_state)
                n += 1
    run('pud.builtins', lambda: (getattr(builtins, '_za008', None),
                                 getattr(builtins, '_za009', None)))
    # odd attribute types
    run('pud.none.creator',
        lambda: ParseUserData(None, 0x2000, 1, 1, b'x').parse(cfg()))
    run('pud.str.comp',
        lambda: ParseUserData('B', 'abc', 1, 1, b'x').parse(cfg()))
    run('pud.str.sub',
        lambda: ParseUserData('Z', 0xA007, 'q', 1, b'x').parse(cfg()))
    run('pud.none.data',
        lambda: ParseUserData('Z', 0xA001, 1, 1, None).parse(cfg()))
    run('pud.none.data.np',
        lambda: ParseUserData('Z', 0xA001, 1, 1, None).parse(cfg(False)))
    run('pud.str.data',
        lambda: ParseUserData('B', 0x0100, 1, 1, 'text').parse(cfg()))
    run('pud.str.data.bmc',
        lambda: ParseUserData('O', 0x2000, 1, 1, 'text').parse(cfg()))
    run('pud.noconfig',
        lambda: ParseUserData('B', 0x0100, 1, 1, b'x').parse(None))
    run('pud.noconfig.bmc',
        lambda: ParseUserData('O', 0x2000, 1, 1, b'"x"').parse(None))
    run('pud.kw', lambda: ParseUserData(creatorID='O', compID=0x2000,
                                        subType=3, version=2,
                                        data=b'a\nb').parse(config=cfg()))
    run('pud.attrs', lambda: sorted(vars(
        ParseUserData('O', 0x2000, 3, 2, b'a\nb')).items()))
    run('pud.enum', lambda: [(m.name, m.value) for m in UserDataFormat])
    run('pud.get_value', lambda: [pud.get_value(b'\x01\x02\x03\x04\x05', a, b)
                                  for a in range(5) for b in range(4)])


pud_cases()


# ----------------------------------------- UserData / ExtUserData / Default
def hdr(sid, length, ver, sub, comp):
    return struct.pack('>HHBBH', sid & 0xFFFF, length & 0xFFFF, ver & 0xFF,
                       sub & 0xFF, comp & 0xFFFF)


def section_cases():
    n = 0
    payloads = TEXTS[:12] + [rbytes(1), rbytes(4), rbytes(16), rbytes(40)]
    for rep in range(300):
        data = rnd.choice(payloads)
        slack = rnd.choice([0, 0, 0, 0, 0, 0, 3, -1, -3, -len(data), 8])
        seclen_delta = rnd.choice([0, 0, 0, 0, 0, 0, 0, 1, -1, -8, -12, 4, 100])
        creator, comp = rnd.choice([('O', 0x2000), ('Z', 0xA001),
                                    ('Z', 0xA002), ('Z', 0xA004),
                                    ('B', 0x0100), ('M', 0x2C00),
                                    ('H', 0x4142), ('Z', 0xA00C),
                                    ('Z', 0xA00B), ('Z', 0xA007),
                                    ('Z', 0xA00A), ('Z', 0xA00F),
                                    ('Z', 0xA010), ('Z', 0xA011),
                                    ('Z', 0xA013), ('Z', 0xA014),
                                    ('Z', 0xA003), ('Z', 0xA005)])
        sub = rnd.choice([1, 2, 3, 4, 0, 72])
        ver = rnd.choice([1, 2])
        plug = rnd.random() < 0.7
        # UserData
        body = data + rbytes(max(slack, 0))
        if slack < 0:
            body = body[:slack]
        seclen = 8 + len(data) + seclen_delta
        s = DataStream(body, byte_order='big', is_signed=False)
        state = lambda s=s: (s.index, s.size)

        def ud():
            u = UserData(s, 0x5544, seclen, ver, sub, comp, creator)
            a = sorted((k, show(v)) for k, v in vars(u).items()
                       if k != 'stream')
            j = u.toJSON(cfg(plug))
            return (a, type(j).__name__, json.dumps(j), list(j.keys()))
        run('sec.ud.%d' % n, ud, state, cache_state)
        # ExtUserData
        ebody = creator.encode('latin-1', 'replace')[:1] + \
            bytes([rnd.randrange(256)]) + rbytes(2) + body
        seclen = 12 + len(data) + seclen_delta
        s2 = DataStream(ebody[:len(ebody) + min(slack, 0)]
                        if rnd.random() < 0.2 else ebody,
                        byte_order='big', is_signed=False)
        state2 = lambda s2=s2: (s2.index, s2.size)

        def ed():
            u = ExtUserData(s2, 0x4544, seclen, ver, sub, comp)
            a = sorted((k, show(v)) for k, v in vars(u).items())
            j = u.toJSON(cfg(plug))
            return (a, type(j).__name__, json.dumps(j), list(j.keys()))
        run('sec.ed.%d' % n, ed, state2, cache_state)
        # Default
        s3 = DataStream(memoryview(body) if rnd.random() < 0.5 else body,
                        byte_order='big', is_signed=False)
        seclen = 8 + len(data) + seclen_delta
        state3 = lambda s3=s3: (s3.index, s3.size)

        def df():
            u = Default(s3, 0x4D49, seclen, ver, sub, comp)
            a = sorted((k, show(v)) for k, v in vars(u).items()
                       if k != 'stream')
            j = u.toJSON()
            return (a, type(j).__name__, json.dumps(j), list(j.keys()))
        run('sec.df.%d' % n, df, state3)
        n += 1
    run('sec.df.bigcomp', lambda: Default(
        DataStream(b'abcd', 'big', False), 1, 12, 1, 2, 0x12345).toJSON())
    run('sec.df.negcomp', lambda: Default(
        DataStream(b'abcd', 'big', False), 1, 12, 1, 2, -1).toJSON())
    run('sec.df.strcomp', lambda: Default(
        DataStream(b'abcd', 'big', False), 1, 12, 1, 2, 'ab').toJSON())
    run('sec.df.nonecomp', lambda: Default(
        DataStream(b'abcd', 'big', False), 1, 12, 1, 2, None).toJSON())
    run('sec.docs', lambda: (UserData.__doc__, ExtUserData.__doc__,
                             Default.__doc__, ParseUserData.__doc__))


section_cases()

# ---------------------------------------------------------------- whole PELs
import pel.peltool.peltool as pt


def bcd_time():
    return bytes.fromhex('20240308184027' + '00')


def make_pel(sections, creator=b'O', count=None, sev=0x40, flags=0xA000,
             eid=0x50000001, obmc=7):
    n = 2 + len(sections) if count is None else count
    ph = hdr(0x5048, 48, 1, 0, 0x2000) + bcd_time() + bcd_time() + creator + \
        bytes([0, 0, n & 0xFF]) + struct.pack('>IQII', obmc, 0x0102030405060708,
                                              eid, eid)
    uh = hdr(0x5548, 24, 1, 0, 0x2000) + bytes([0x72, 0x03, sev, 0x00]) + \
        bytes(4) + bytes([0, 0]) + struct.pack('>HI', flags, 0)
    return ph + uh + b''.join(sections)


def ud_sec(data, comp=0x2000, sub=1, ver=1, sid=0x5544, lendelta=0):
    return hdr(sid, 8 + len(data) + lendelta, ver, sub, comp) + data


def ed_sec(data, creator=b'O', comp=0x2000, sub=1, ver=1, lendelta=0):
    return hdr(0x4544, 12 + len(data) + lendelta, ver, sub, comp) + creator + \
        bytes(3) + data


def random_sections():
    secs = []
    for _ in range(rnd.randrange(0, 6)):
        data = rnd.choice(TEXTS + [rbytes(9), rbytes(32)]) or b'\x00'
        kind = rnd.choice([0, 0, 0, 1, 1, 1, 2, 2, 3]) if rnd.random() < 0.8 \
            else rnd.randrange(3)
        comp = rnd.choice([0x2000, 0x2000, 0xA001, 0xA002, 0xA004, 0xA006,
                           0xA007, 0x0100, 0x2C00, 0xE500, 0xA00C, 0xA00A,
                           0xA00F, 0xA010, 0xA011, 0xA013, 0xA014])
        sub = rnd.choice([1, 2, 3, 4, 9, 72])
        if kind == 0:
            secs.append(ud_sec(data, comp, sub, rnd.choice([1, 2])))
        elif kind == 1:
            secs.append(ed_sec(data, rnd.choice([b'O', b'Z', b'B', b'M']),
                               comp, sub))
        elif kind == 2:
            secs.append(ud_sec(data, comp, sub,
                               sid=rnd.choice([0x4D49, 0x5858, 0x4549])))
        else:
            secs.append(ud_sec(data, comp, sub,
                               lendelta=rnd.choice([0, 0, -1, 1, 50, -8])))
    return secs


def pel_cases():
    n = 0
    pels = []
    for rep in range(120):
        creator = rnd.choice([b'O', b'O', b'Z', b'B', b'H', b'M'])
        pels.append(make_pel(random_sections(), creator=creator,
                             sev=rnd.choice([0x40, 0x00, 0x51, 0x20]),
                             flags=rnd.choice([0xA000, 0x4000, 0x8000, 0]),
                             eid=0x50000000 + rep))
    variants = []
    for p in pels:
        variants.append(p)
        how = rnd.randrange(5)
        if how == 0:
            variants.append(p[:rnd.randrange(len(p))])
        elif how == 1:
            b = bytearray(p)
            for _ in range(rnd.randrange(1, 4)):
                b[rnd.randrange(len(b))] = rnd.randrange(256)
            variants.append(bytes(b))
        elif how == 2:
            b = bytearray(p)
            i = rnd.randrange(72, len(b)) if len(b) > 72 else 0
            b[i] ^= 1 << rnd.randrange(8)
            variants.append(bytes(b))
        elif how == 3:
            variants.append(p + rbytes(5))
        else:
            b = bytearray(p)
            b[27] = (b[27] + rnd.choice([1, 2, 200])) & 0xFF   # section count
            variants.append(bytes(b))
    variants += [b'', b'PH', rbytes(100), bytes(100)]
    for v in variants:
        for plug in (True, False):
            c = cfg(plug)
            if rnd.random() < 0.15:
                c.every_pel = False
            kind = 'mv' if rnd.random() < 0.08 else 'bytes'
            buf = v if kind == 'bytes' else memoryview(v)
            s = DataStream(buf, byte_order='big', is_signed=False)
            run('pel.%d.%s.%s' % (n, plug, kind),
                lambda: pt.parsePEL(s, c, False),
                lambda s=s: (s.index, s.size), cache_state)
            s2 = DataStream(buf, byte_order='big', is_signed=False)
            run('pelsum.%d.%s.%s' % (n, plug, kind),
                lambda: pt.parsePELSummary(s2, c),
                lambda s2=s2: (s2.index, s2.size))
            n += 1
    for v in variants[:12]:
        run('pelhex.%d' % n, lambda: pt.printPELInHexFormat(v))
        n += 1


pel_cases()


# -------------------------------------------------- io_drawer (hexdump.parse)
def drawer_cases():
    import tempfile
    from io_drawer import dump
    from io_drawer.drawer_type import DRAWER_TYPES
    tmp = tempfile.mkdtemp()
    try:
        n = 0
        for rep in range(12):
            data = rbytes(rnd.choice([16, 48, 50, 160]))
            for fi, f in enumerate(dump.HEX_DUMP_LINE_FORMATS):
                lines = [to_format(data[i:i + 16], f, i)
                         for i in range(0, len(data), 16)]
                if rep % 3 == 1:
                    lines = [mutate(l) if rnd.random() < 0.3 else l
                             for l in lines]
                if rep % 3 == 2:
                    lines = ['header text', ''] + lines + ['trailer']
                path = os.path.join(tmp, 'dump%d.txt' % n)
                with open(path, 'w') as fd:
                    fd.write('\n'.join(lines) + '\n')
                dt = DRAWER_TYPES[rep % len(DRAWER_TYPES)]
                run('drawer.%d' % n, lambda: dump.parse_dump_file(
                    path, dt.get_header_file_path(),
                    dt.get_trace_string_file_path()))
                n += 1
    finally:
        import shutil
        shutil.rmtree(tmp, ignore_errors=True)


drawer_cases()

with open(OUT, 'w') as fd:
    json.dump({'optimize': sys.flags.optimize, 'results': results}, fd)
'''


# --------------------------------------------------------------------------
# CLI cases
# --------------------------------------------------------------------------
def hdr(sid, length, ver, sub, comp):
    return struct.pack('>HHBBH', sid & 0xFFFF, length & 0xFFFF, ver & 0xFF,
                       sub & 0xFF, comp & 0xFFFF)


def make_pel(sections, creator=b'O', count=None, sev=0x40, flags=0xA000,
             eid=0x50000001, obmc=7):
    n = 2 + len(sections) if count is None else count
    t = bytes.fromhex('2024030818402700')
    ph = hdr(0x5048, 48, 1, 0, 0x2000) + t + t + creator + \
        bytes([0, 0, n & 0xFF]) + struct.pack('>IQII', obmc,
                                              0x0102030405060708, eid, eid)
    uh = hdr(0x5548, 24, 1, 0, 0x2000) + bytes([0x72, 0x03, sev, 0x00]) + \
        bytes(4) + bytes([0, 0]) + struct.pack('>HI', flags, 0)
    return ph + uh + b''.join(sections)


def ud_sec(data, comp=0x2000, sub=1, ver=1, sid=0x5544, lendelta=0):
    return hdr(sid, 8 + len(data) + lendelta, ver, sub, comp) + data


def ed_sec(data, creator=b'O', comp=0x2000, sub=1, ver=1):
    return hdr(0x4544, 12 + len(data), ver, sub, comp) + creator + \
        bytes(3) + data


def build_pel_files():
    rnd = random.Random(99)
    rb = lambda n: bytes(rnd.randrange(256) for _ in range(n))
    files = {}
    files['a_json.pel'] = make_pel([
        ud_sec(b'{"Key": "Value", "List": [1, 2, 3]}\x00\x00', sub=1),
        ud_sec(b'first line\nsecond \x01 line\n\nlast\x00', sub=3),
        ud_sec(rb(40), sub=2),
        ud_sec(rb(19), sub=4),
        ud_sec(b'not json at all', sub=1),
    ], eid=0x50000011, obmc=11)
    files['b_plugins.pel'] = make_pel([
        ud_sec(rb(24), comp=0x2C00, sub=72, ver=1),
        ud_sec(rb(24), comp=0x2C00, sub=9, ver=7),
        ud_sec(rb(36), comp=0xE500, sub=1),
        ud_sec(rb(20), comp=0x0100, sub=1),
        ed_sec(rb(17), creator=b'B', comp=0x0100),
        ed_sec(b'text\nfrom ed', creator=b'O', comp=0x2000, sub=3),
        ud_sec(rb(12), sid=0x4D49, comp=0x3100),
        ud_sec(rb(33), sid=0x5858, comp=0xFFFF),
    ], creator=b'M', eid=0x50000022, obmc=22)
    files['c_hidden.pel'] = make_pel([ud_sec(b'"hidden"', sub=1)],
                                     flags=0x4000, eid=0x50000033, obmc=33)
    files['d_info.pel'] = make_pel([ud_sec(b'info\ntext', sub=3)], sev=0x00,
                                   flags=0x0000, eid=0x50000044, obmc=44)
    good = files['a_json.pel']
    files['e_trunc.pel'] = good[:len(good) - 7]
    files['f_trunc_hdr.pel'] = good[:75]
    files['g_garbage.pel'] = rb(120)
    files['h_empty.pel'] = b''
    files['i_badlen.pel'] = make_pel([ud_sec(b'abcdef', lendelta=-8),
                                      ud_sec(b'x')], eid=0x50000055, obmc=55)
    files['j_badutf.pel'] = make_pel([ud_sec(b'\xff\xfe\xfd', sub=3)],
                                     eid=0x50000066, obmc=66)
    files['k_count.pel'] = make_pel([ud_sec(b'"one"')], count=9,
                                    eid=0x50000077, obmc=77)
    files['l_other.txt'] = make_pel([ed_sec(rb(8), creator=b'H',
                                            comp=0x4142)],
                                    creator=b'H', eid=0x50000088, obmc=88)
    b = bytearray(files['b_plugins.pel'])
    b[90] ^= 0x40
    files['m_flip.pel'] = bytes(b)
    return files


CLI_CASES = [
    ['-p', 'pels', '-a', '-E'],
    ['-p', 'pels', '-a'],
    ['-p', 'pels', '-a', '-E', '-P'],
    ['-p', 'pels', '-a', '-E', '-x'],
    ['-p', 'pels', '-a', '-E', '-r', '-e', '.pel'],
    ['-p', 'pels', '-a', '-H', '-O'],
    ['-p', 'pels', '-l', '-E'],
    ['-p', 'pels', '-l'],
    ['-p', 'pels', '-l', '-E', '-x'],
    ['-p', 'pels', '-n', '-E'],
    ['-p', 'pels', '-n', '-N', '-S', 'Informational'],
    ['-p', 'pels', '-j', '-E'],
    ['-p', 'pels', '-j', '-E', '-o', 'out'],
    ['-p', 'pels', '-j', '-E', '-c'],
    ['-p', 'pels', '-j', '-c', '-o', 'out', '-P'],
    ['-p', 'pels', '-i', '50000011'],
    ['-p', 'pels', '-i', '0x50000022', '-P'],
    ['-p', 'pels', '-i', '50000099'],
    ['-p', 'pels', '--bmc-id', '22'],
    ['-p', 'pels', '--bmc-id', '66', '-x'],
    ['-p', 'pels', '--plid', '50000011'],
    ['-p', 'pels', '-d', '50000033'],
    ['-f', 'pels/a_json.pel'],
    ['-f', 'pels/a_json.pel', '-P'],
    ['-f', 'pels/a_json.pel', '-x'],
    ['-f', 'pels/a_json.pel', '-c'],
    ['-f', 'pels/b_plugins.pel'],
    ['-f', 'pels/b_plugins.pel', '-P', '-c'],
    ['-f', 'pels/c_hidden.pel'],
    ['-f', 'pels/c_hidden.pel', '-H'],
    ['-f', 'pels/e_trunc.pel'],
    ['-f', 'pels/e_trunc.pel', '-c'],
    ['-f', 'pels/f_trunc_hdr.pel'],
    ['-f', 'pels/g_garbage.pel'],
    ['-f', 'pels/h_empty.pel', '-c'],
    ['-f', 'pels/i_badlen.pel'],
    ['-f', 'pels/j_badutf.pel', '-c'],
    ['-f', 'pels/k_count.pel'],
    ['-f', 'pels/l_other.txt', '-E'],
    ['-f', 'pels/m_flip.pel', '-E'],
    ['-f', 'pels/missing.pel'],
    ['-p', 'nodir', '-a'],
]
# subset that is also run with `python -O`
CLI_OPT_CASES = [0, 2, 3, 6, 9, 12, 13, 22, 26, 30, 35, 37]


def snapshot(top):
    snap = []
    for root, dirs, files in os.walk(top):
        dirs.sort()
        for d in dirs:
            snap.append(('D', os.path.relpath(os.path.join(root, d), top)))
        for f in sorted(files):
            p = os.path.join(root, f)
            with open(p, 'rb') as fd:
                h = hashlib.sha256(fd.read()).hexdigest()
            snap.append(('F', os.path.relpath(p, top), h))
    return sorted(snap)


def run_cli(root, work, files, args, optimize):
    cwd = os.path.join(work, 'cli')
    shutil.rmtree(cwd, ignore_errors=True)
    os.makedirs(os.path.join(cwd, 'pels'))
    os.makedirs(os.path.join(cwd, 'out'))
    for name, content in files.items():
        with open(os.path.join(cwd, 'pels', name), 'wb') as fd:
            fd.write(content)
    env = dict(os.environ)
    env['PYTHONPATH'] = os.path.join(root, 'modules')
    env['PYTHONDONTWRITEBYTECODE'] = '1'
    env['PYTHONHASHSEED'] = '0'
    cmd = [PY] + (['-O'] if optimize else []) + \
        [os.path.join(root, 'modules', 'pel', 'peltool', 'peltool.py')] + args
    p = subprocess.run(cmd, cwd=cwd, env=env, stdout=subprocess.PIPE,
                       stderr=subprocess.PIPE, timeout=120)
    norm = lambda b: b.decode('utf-8', 'replace').replace(root, '<ROOT>')
    res = {'rc': p.returncode, 'stdout': norm(p.stdout),
           'stderr': norm(p.stderr), 'tree': snapshot(cwd)}
    shutil.rmtree(cwd, ignore_errors=True)
    return res


def run_worker(root, work, optimize):
    out = os.path.join(work, 'worker_out.json')
    script = os.path.join(work, 'worker.py')
    with open(script, 'w', encoding='utf-8') as fd:
        fd.write(WORKER)
    env = dict(os.environ)
    env['PYTHONPATH'] = os.path.join(root, 'modules')
    env['PYTHONDONTWRITEBYTECODE'] = '1'
    env['PYTHONHASHSEED'] = '0'
    cmd = [PY] + (['-O'] if optimize else []) + [script, root, out]
    p = subprocess.run(cmd, cwd=work, env=env, stdout=subprocess.PIPE,
                       stderr=subprocess.PIPE, timeout=1200)
    if p.returncode != 0:
        print('worker failed for', root, 'optimize =', optimize)
        print(p.stdout.decode('utf-8', 'replace'))
        print(p.stderr.decode('utf-8', 'replace'))
        sys.exit(2)
    with open(out) as fd:
        data = json.load(fd)
    os.remove(out)
    assert data['optimize'] == (1 if optimize else 0)
    return data['results']


def main():
    if len(sys.argv) != 3:
        print(__doc__)
        sys.exit(2)
    roots = [os.path.abspath(a) for a in sys.argv[1:3]]
    for r in roots:
        if not os.path.isfile(os.path.join(r, 'modules', 'pel', 'hexdump.py')):
            print('not a source tree:', r)
            sys.exit(2)
    work = tempfile.mkdtemp(prefix='diffcheck_')
    cases = 0
    diffs = []
    try:
        # in-process cases
        for optimize in (False, True):
            res = [run_worker(r, work, optimize) for r in roots]
            if len(res[0]) != len(res[1]):
                diffs.append(('worker', optimize, 'number of results',
                              len(res[0]), len(res[1])))
            for a, b in zip(res[0], res[1]):
                cases += 1
                if a != b:
                    diffs.append(('worker -O' if optimize else 'worker',
                                  a[0], a, b))
            # sanity: the worker must have produced a meaningful mix
            ok = sum(1 for r in res[0] if r[1].startswith('OK'))
            if ok < 1000 or len(res[0]) - ok < 200:
                print('suspicious case mix: %d ok of %d' % (ok, len(res[0])))
                sys.exit(2)
        # CLI cases
        files = build_pel_files()
        for i, args in enumerate(CLI_CASES):
            for optimize in (False, True):
                if optimize and i not in CLI_OPT_CASES:
                    continue
                a = run_cli(roots[0], work, files, args, optimize)
                b = run_cli(roots[1], work, files, args, optimize)
                cases += 1
                if a != b:
                    diffs.append(('cli -O' if optimize else 'cli', args, a, b))
    finally:
        shutil.rmtree(work, ignore_errors=True)

    if diffs:
        for d in diffs[:25]:
            print('DIFFERENCE:', d[0], d[1])
            for x in d[2:]:
                print('    ', json.dumps(x)[:3000])
        print('DIFFERENT (%d of %d cases differ)' % (len(diffs), cases))
        sys.exit(1)
    print('IDENTICAL (%d cases)' % cases)
    sys.exit(0)


if __name__ == '__main__':
    main()
