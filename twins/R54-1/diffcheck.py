#!/usr/bin/env python3
"""
Differential check for the R54 refactorings (user_data.py, ext_user_data.py,
parse_user_data.py, default.py, hexdump.py).

usage: diffcheck.py <pristine_root> <patched_root>

Both trees are exercised in separate subprocesses (PYTHONPATH=<root>/modules),
with and without `python -O`:

  * an in-process driver calls hexdump(), hexdump.parse(), Default, UserData,
    ExtUserData and ParseUserData directly on many generated inputs (every
    case list is run twice per process to catch state kept between decodes);
  * the peltool CLI is run on generated binary PEL files (well-formed,
    truncated, corrupted, random) with several option combinations.

Prints "IDENTICAL (<n> cases)" and exits 0 when every observable output
(stdout, stderr, exit status, files created/removed) is the same.
"""
import concurrent.futures
import json
import os
import random
import shutil
import struct
import subprocess
import sys
import tempfile

PY = sys.executable
HERE = os.path.dirname(os.path.abspath(__file__))
WORK_PARENT = os.path.dirname(HERE)

DRIVER = r'''
import json, os, sys, types, traceback

spec_file, plugin_dir = sys.argv[1], sys.argv[2]

import udparsers
udparsers.__path__.append(plugin_dir)

from pel.datastream import DataStream
from pel.peltool.config import Config
import pel.hexdump as hd
import pel.peltool.parse_user_data as pud
from pel.peltool.parse_user_data import ParseUserData
from pel.peltool.user_data import UserData
from pel.peltool.ext_user_data import ExtUserData
from pel.peltool.default import Default


class Weird(BaseException):
    pass


def _mod(name, fn=None):
    full = "udparsers." + name + "." + name
    m = types.ModuleType(full)
    if fn is not None:
        m.parseUDToJson = fn
    sys.modules[full] = m


def _raise(exc):
    def f(sub, ver, mv):
        raise exc
    return f


_mod("b9001", lambda s, v, d: None)
_mod("b9002", lambda s, v, d: 'null')
_mod("b9003", _raise(ValueError("bad stuff é")))
_mod("b9004", lambda s, v, d: 'not json at all {')
_mod("b9005", lambda s, v, d: '[1, 2, "x"]')
_mod("b9006", lambda s, v, d: json.dumps(
    {"A": 1, "Section Version": "overridden", "len": len(d), "sub": s, "ver": v}))
_mod("b9007", lambda s, v, d: '"just a string"')
_mod("b9008", lambda s, v, d: {"not": "a string"})
_mod("b9009", lambda s, v, d: '')
_mod("b900a")
_mod("b900b", _raise(Weird("weird")))
_mod("b900c", lambda s, v, d: ' null')
_mod("b900d", lambda s, v, d: '12.5')
_mod("b900e", _raise(KeyError("k")))
_mod("b900f", lambda s, v, d: bytes(d).hex())
_mod("\xe99010", lambda s, v, d: '{"latin": true}')


def conv(hexdata, dtype):
    if dtype == 'none':
        return None
    raw = bytes.fromhex(hexdata)
    if dtype == 'bytes':
        return raw
    if dtype == 'mv':
        return memoryview(raw)
    if dtype == 'ba':
        return bytearray(raw)
    if dtype == 'list':
        return list(raw)
    if dtype == 'str':
        return raw.decode('latin-1')
    if dtype == 'mvc':
        return memoryview(raw).cast('c')
    if dtype == 'mvh':
        return memoryview(raw + b'\0' * (len(raw) % 2)).cast('H')
    if dtype == 'floats':
        return [float(b) for b in raw]
    raise RuntimeError(dtype)


def show(v):
    try:
        return json.dumps(v)
    except Exception:
        return "REPR " + repr(v)


def attrs(obj):
    out = {}
    for k, v in sorted(vars(obj).items()):
        if isinstance(v, DataStream):
            out[k] = "stream@%d" % v.index
        elif isinstance(v, (bytes, bytearray, memoryview)):
            out[k] = type(v).__name__ + ":" + bytes(v).hex()
        else:
            out[k] = repr(v)
    return out


def run(case):
    op = case['op']
    if op == 'hexdump':
        data = conv(case['data'], case['dtype'])
        kw = {}
        if case.get('bpl') is not None:
            kw['bytes_per_line'] = case['bpl']
        if case.get('bpc') is not None:
            kw['bytes_per_chunk'] = case['bpc']
        if case.get('positional'):
            res = hd.hexdump(data, *kw.values())
        else:
            res = hd.hexdump(data, **kw)
        return show([type(res).__name__, res])
    if op == 'parse':
        if case.get('fmt') is None:
            res = hd.parse(case['lines'])
        else:
            res = hd.parse(case['lines'], case['fmt'])
        return show([type(res).__name__, bytes(res).hex()])
    cfg = Config()
    cfg.allow_plugins = case.get('plugins', True)
    if op in ('default', 'ud', 'ed'):
        raw = bytes.fromhex(case['stream'])
        if case.get('as_mv'):
            raw = memoryview(raw)
        st = DataStream(raw, byte_order=case.get('bo', 'big'),
                        is_signed=case.get('signed', False))
        if case.get('skip'):
            st.inc_index(case['skip'])
        a = (st, case['sid'], case['slen'], case['ver'], case['sub'], case['comp'])
        try:
            if op == 'default':
                o = Default(*a)
            elif op == 'ud':
                o = UserData(*a, case['creator'])
            else:
                o = ExtUserData(*a)
        except BaseException as e:
            return "CTOR-EXC %s: %s @%d" % (type(e).__name__, e, st.index)
        pre = attrs(o)
        try:
            if op == 'default':
                j = o.toJSON()
            else:
                j = o.toJSON(cfg)
            r = "%s %s" % (type(j).__name__, show(j))
        except BaseException as e:
            r = "JSON-EXC %s: %s" % (type(e).__name__, e)
        # a second call on the same object must behave the same
        try:
            j2 = o.toJSON() if op == 'default' else o.toJSON(cfg)
            r2 = show(j2)
        except BaseException as e:
            r2 = "JSON-EXC %s: %s" % (type(e).__name__, e)
        return show([pre, r, r2, attrs(o), st.index])
    if op == 'pud':
        data = conv(case['data'], case['dtype'])
        p = ParseUserData(case['creator'], case['comp'], case['sub'],
                          case['ver'], data)
        m = case['method']
        if m == 'parse':
            res = p.parse(cfg)
        elif m == 'parseCustom':
            res = p.parseCustom()
        else:
            res = p.getBuiltinFormatJSON()
        return show([type(res).__name__, res, attrs(p)])
    raise RuntimeError(op)


with open(spec_file) as f:
    cases = json.load(f)

for rnd in (1, 2):
    for n, case in enumerate(cases):
        try:
            out = run(case)
        except BaseException as e:
            out = "EXC %s: %s" % (type(e).__name__, e)
        sys.stdout.write("%d.%d\t%s\n" % (rnd, n, out.replace("\n", "\\n")))
    cache = sorted((repr(k), v is None) for k, v in pud.userDataParsers.items())
    sys.stdout.write("cache.%d\t%s\n" % (rnd, json.dumps(cache)))
names = sorted(n for n in dir(hd) if not n.startswith('__'))
sys.stdout.write("debug\t%s\n" % __debug__)
sys.stdout.flush()
'''

PLUGINS = {
    'b0bad': 'raise ValueError("boom at import")\n',
    'b0139': 'import surely_not_existing_module_xyz\n'
             'def parseUDToJson(s, v, d):\n    return "{}"\n',
    'b0511': 'def broken(:\n',
    'b0081': 'import json\n'
             'COUNT = [0]\n'
             'def parseUDToJson(s, v, d):\n'
             '    COUNT[0] += 1\n'
             '    return json.dumps({"calls": COUNT[0], "n": len(d), "first": d[0]})\n',
}


# --------------------------------------------------------------------------
# input generation
# --------------------------------------------------------------------------

def rbytes(rng, n):
    return bytes(rng.randrange(256) for _ in range(n))


def interesting_payloads(rng):
    out = [
        b'{"a": 1, "b": [1, 2, 3]}',
        b'{"a": 1, "Section Version": 99}\x00\x00\x00',
        b'  {"nested": {"x": "y"}}  \n\x00',
        b'[1, 2, 3]',
        b'"text"',
        b'12',
        b'null',
        b'{"broken": ',
        b'not json',
        b'',
        b'\x00',
        b'\x00\x00\x00\x00',
        b'line one\nline two\n\nline four\x01\x7f~ \n',
        b'\n\n\n',
        b'no newline at end',
        b'tab\there\r\nwindows\r\n\x00\x00',
        b'trailing\n\x00',
        'unicode é中 text\nsecond ü'.encode('utf-8'),
        b'\xff\xfe invalid utf8',
        b'\xc3',
        b'   \n  ',
        b'a\n\nb\n\n',
        b'\x00lead',
        b'x' * 16,
        b'y' * 17,
        bytes(range(256)),
    ]
    for n in (1, 2, 3, 4, 5, 15, 16, 17, 31, 32, 33, 48, 100):
        out.append(rbytes(rng, n))
    for _ in range(6):
        n = rng.randrange(1, 60)
        out.append(bytes(rng.choice(b'abc XYZ\n\n\t~\x7f\x1f{}"') for _ in range(n)))
    return out


def hexdump_line(off, chunk):
    """Independent re-implementation only used to produce parse() inputs."""
    groups = [chunk[i:i + 4].hex().upper() for i in range(0, len(chunk), 4)]
    raw = '  '.join(groups).ljust(38)
    txt = ''.join(chr(b) if 0x20 <= b < 0x7f else '.' for b in chunk).ljust(16)
    return '%08X     %s     %s' % (off, raw, txt)


def build_driver_cases(rng):
    cases = []
    payloads = interesting_payloads(rng)

    # ---- hexdump ----------------------------------------------------------
    for n in list(range(0, 40)) + [63, 64, 65, 255, 256, 257, 300]:
        cases.append(dict(op='hexdump', data=rbytes(rng, n).hex(), dtype='mv'))
    for p in payloads:
        cases.append(dict(op='hexdump', data=p.hex(), dtype='bytes'))
    combos = [(16, 4), (8, 2), (1, 1), (256, 256), (256, 1), (3, 2), (5, 7),
              (16, 16), (16, 5), (7, 3), (32, 8), (2, 1), (10, 4), (16, 1),
              (257, 2), (8, 257), (0, 4), (16, 0), (0, 0), (-16, 4), (16, -4),
              (-1, -1), (16.0, 4), (16, 4.0), (16, 2.5), (True, True),
              (None, 4), (16, None), ('16', 4), (16, '4'), (1000, 4), (16, 1000)]
    for bpl, bpc in combos:
        for n in (0, 1, 9, 16, 35):
            cases.append(dict(op='hexdump', data=rbytes(rng, n).hex(), dtype='mv',
                              bpl=bpl, bpc=bpc))
    for bpl, bpc in [(8, 2), (4, 4), (0, 1), (300, 300)]:
        cases.append(dict(op='hexdump', data=rbytes(rng, 21).hex(), dtype='mv',
                          bpl=bpl, bpc=bpc, positional=True))
    for dtype in ('bytes', 'mv', 'ba', 'list', 'str', 'mvc', 'mvh', 'floats', 'none'):
        for n in (0, 1, 18, 32):
            cases.append(dict(op='hexdump', data=rbytes(rng, n).hex(), dtype=dtype))
            cases.append(dict(op='hexdump', data=rbytes(rng, n).hex(), dtype=dtype,
                              bpl=6, bpc=4))

    # ---- hexdump.parse ----------------------------------------------------
    fmts = [
        None,
        'DD DD DD DD DD DD DD DD DD DD DD DD DD DD DD DD CCCCCCCCCCCCCCCC',
        'AAAA:  DDDDDDDD DDDDDDDD DDDDDDDD DDDDDDDD  <CCCCCCCCCCCCCCCC>',
        'AAAAAAAA     DDDDDDDD  DDDDDDDD  DDDDDDDD  DDDDDDDD',
        'DDDDDDDDDDDDDDDDDDDDDDDDDDDDDDDD',
        'D D D D',
        'DDD',
        'ADADAD',
        'CCCC',
        '',
        '|DD|',
        'AD DA',
        'D\nDD',
    ]
    good = []
    for _ in range(12):
        n = rng.randrange(0, 70)
        data = rbytes(rng, n)
        good.append([hexdump_line(i, data[i:i + 16]) for i in range(0, len(data), 16)])
    for lines in good:
        cases.append(dict(op='parse', lines=lines, fmt=None))
        cases.append(dict(op='parse', lines=[l + '\n' for l in lines], fmt=None))
        cases.append(dict(op='parse', lines=[l.lower() for l in lines], fmt=None))
        cases.append(dict(op='parse', lines=[l.rstrip() for l in lines], fmt=None))
        cases.append(dict(op='parse', lines=[l + ' ' for l in lines], fmt=None))
        cases.append(dict(op='parse', lines=[l + '\n\n' for l in lines], fmt=None))
    alphabet = '0123456789abcdefABCDEFgGxX .:|<>\n\t-é١１'
    for lines in good:
        for _ in range(4):
            mutated = []
            for l in lines:
                chars = list(l)
                for _ in range(rng.randrange(0, 4)):
                    if not chars:
                        break
                    pos = rng.randrange(len(chars))
                    kind = rng.randrange(3)
                    if kind == 0:
                        chars[pos] = rng.choice(alphabet)
                    elif kind == 1:
                        del chars[pos]
                    else:
                        chars.insert(pos, rng.choice(alphabet))
                if rng.random() < 0.2:
                    chars = chars[:rng.randrange(len(chars) + 1)]
                mutated.append(''.join(chars))
            cases.append(dict(op='parse', lines=mutated, fmt=None))
    for fmt in fmts:
        if fmt is None:
            continue
        for _ in range(10):
            # build a line that mostly follows the format
            line = []
            for c in fmt:
                r = rng.random()
                if r < 0.06:
                    line.append(rng.choice(alphabet))
                elif c in 'AD':
                    line.append(rng.choice('0123456789abcdefABCDEF'))
                elif c == 'C':
                    line.append(rng.choice('abc. ~'))
                else:
                    line.append(c)
            s = ''.join(line)
            if rng.random() < 0.4:
                s = s[:rng.randrange(len(s) + 1)]
            if rng.random() < 0.15:
                s += rng.choice(['\n', ' ', 'F', '\n\n'])
            cases.append(dict(op='parse', lines=[s, s.upper(), s + '\n'], fmt=fmt))
        cases.append(dict(op='parse', lines=[], fmt=fmt))
        cases.append(dict(op='parse', lines=['', '\n', ' ', 'zz'], fmt=fmt))
    for _ in range(40):
        n = rng.randrange(0, 90)
        s = ''.join(rng.choice(alphabet) for _ in range(n))
        cases.append(dict(op='parse', lines=[s], fmt=rng.choice(fmts)))
    cases.append(dict(op='parse', lines=['0 1 2 3', 'A B C D', 'A  B', '0 1'], fmt='D D D D'))
    cases.append(dict(op='parse', lines=['ABC', 'AB', 'A'], fmt='DDD'))
    cases.append(dict(op='parse', lines=['A\nBC', 'A\n'], fmt='D\nDD'))
    cases.append(dict(op='parse', lines=[5], fmt=None))
    cases.append(dict(op='parse', lines=[None], fmt=None))
    cases.append(dict(op='parse', lines='AB', fmt='DD'))
    cases.append(dict(op='parse', lines=['ABCD'], fmt=['D', 'D', 'D', 'D']))
    cases.append(dict(op='parse', lines=['ABCD'], fmt=5))

    # ---- Default / UserData / ExtUserData on raw streams --------------------
    idents = [('O', 0x2000), ('O', 0xE500), ('O', 0x1000), ('M', 0x2C00),
              ('H', 0x4142), ('H', 0x0041), ('B', 0x0100), ('B', 0x9001),
              ('B', 0x9002), ('B', 0x9003), ('B', 0x9004), ('B', 0x9005),
              ('B', 0x9006), ('B', 0x9007), ('B', 0x9008), ('B', 0x9009),
              ('B', 0x900A), ('B', 0x900B), ('B', 0x900C), ('B', 0x900D),
              ('B', 0x900E), ('B', 0x900F), ('B', 0x0BAD), ('B', 0x0139),
              ('B', 0x0511), ('B', 0x0081), ('\xe9', 0x9010), ('Z', 0xFFFF),
              ('', 0x0000), ('T', 0x0000), ('o', 0x2000)]
    # note: the on-disk plugins b0bad / b0139 / b0511 / b0081 are reached through
    # creator "B" and component IDs 0x0BAD / 0x0139 / 0x0511 / 0x0081
    for creator, comp in idents:
        for sub in (0, 1, 2, 3, 4, 5, 0x10, 0xFF):
            for plugins in (True, False):
                p = rng.choice(payloads)
                if not p:
                    p = b'\x00'
                ver = rng.randrange(0, 4)
                cases.append(dict(op='ud', stream=p.hex(), sid=0x5544, slen=8 + len(p),
                                  ver=ver, sub=sub, comp=comp, creator=creator,
                                  plugins=plugins))
                if len(creator) == 1 and ord(creator) < 256:
                    st = bytes([ord(creator), rng.randrange(256)]) + rbytes(rng, 2) + p
                    cases.append(dict(op='ed', stream=st.hex(), sid=0x4544,
                                      slen=12 + len(p), ver=ver, sub=sub, comp=comp,
                                      plugins=plugins))
    for p in payloads:
        if not p:
            continue
        for sub in (1, 2, 3, 4, 9):
            for plugins in (True, False):
                cases.append(dict(op='ud', stream=p.hex(), sid=0x5544, slen=8 + len(p),
                                  ver=1, sub=sub, comp=0x2000, creator='O',
                                  plugins=plugins))
                st = b'O\x00\x00\x00' + p
                cases.append(dict(op='ed', stream=st.hex(), sid=0x4544, slen=12 + len(p),
                                  ver=1, sub=sub, comp=0x2000, plugins=plugins))
        cases.append(dict(op='default', stream=p.hex(), sid=0x1234, slen=8 + len(p),
                          ver=2, sub=3, comp=rng.randrange(0x10000)))
        cases.append(dict(op='default', stream=p.hex(), sid=0x1234, slen=8 + len(p),
                          ver=2, sub=3, comp=rng.randrange(0x100), as_mv=True))
    # real plugins loaded from disk (good, failing import, ...)
    for creator, comp in [('B', 0x0BAD), ('b', 0x0BAD)]:
        for _ in range(3):
            p = rbytes(rng, 9)
            cases.append(dict(op='ud', stream=p.hex(), sid=0x5544, slen=17, ver=1,
                              sub=1, comp=comp, creator=creator, plugins=True))
    # wrong / short lengths
    for slen in (-5, 0, 1, 7, 8, 9, 11, 12, 13, 14, 20, 21, 22, 40, 0xFFFF):
        for avail in (0, 1, 3, 4, 5, 12, 13, 30):
            st = rbytes(rng, avail)
            for skip in (0, 2):
                if skip >= avail and skip:
                    continue
                base = dict(stream=st.hex(), slen=slen, ver=1, sub=1, skip=skip)
                cases.append(dict(base, op='default', sid=0x4444, comp=0x1234))
                cases.append(dict(base, op='ud', sid=0x5544, comp=0x2000, creator='O'))
                cases.append(dict(base, op='ud', sid=0x5544, comp=0x3000, creator='B',
                                  plugins=False))
                cases.append(dict(base, op='ed', sid=0x4544, comp=0x2000))
    # other stream settings
    for bo, signed in (('little', False), ('big', True), ('little', True)):
        for first in (0x4F, 0xC2, 0x80, 0x00):
            st = bytes([first]) + rbytes(rng, 3) + b'{"k": 2}'
            cases.append(dict(op='ed', stream=st.hex(), sid=0x4544, slen=20, ver=1,
                              sub=1, comp=0x2000, bo=bo, signed=signed))
            cases.append(dict(op='ud', stream=st.hex(), sid=0x5544, slen=20, ver=1,
                              sub=1, comp=0x2000, creator='O', bo=bo, signed=signed))
            cases.append(dict(op='default', stream=st.hex(), sid=0x5544, slen=20, ver=1,
                              sub=1, comp=-3, bo=bo, signed=signed))
    cases.append(dict(op='default', stream='00' * 9, sid=1, slen=12, ver=1, sub=1, comp='x'))
    cases.append(dict(op='default', stream='00' * 9, sid=1, slen=12, ver=1, sub=1, comp=1.5))
    cases.append(dict(op='default', stream='00' * 9, sid=1, slen=12, ver=1, sub=1, comp=None))
    cases.append(dict(op='ud', stream='7b7d', sid=1, slen=10, ver='v', sub=1, comp=0x2000,
                      creator='O'))
    cases.append(dict(op='ud', stream='7b7d', sid=1, slen=10, ver=1, sub='1', comp=0x2000,
                      creator='O'))

    # ---- ParseUserData directly -------------------------------------------
    for creator, comp in idents:
        for method in ('parse', 'parseCustom', 'builtin'):
            for dtype in ('bytes', 'mv', 'ba', 'none'):
                for plugins in (True, False):
                    p = rng.choice(payloads)
                    cases.append(dict(op='pud', creator=creator, comp=comp,
                                      sub=rng.choice([0, 1, 2, 3, 4, 5, 200]),
                                      ver=rng.randrange(3), data=p.hex(), dtype=dtype,
                                      method=method, plugins=plugins))
    for p in payloads:
        for sub in (1, 2, 3, 4, 0):
            cases.append(dict(op='pud', creator='O', comp=0x2000, sub=sub, ver=1,
                              data=p.hex(), dtype='bytes', method='builtin'))
            cases.append(dict(op='pud', creator='O', comp=0x2000, sub=sub, ver=1,
                              data=p.hex(), dtype='bytes', method='parse',
                              plugins=bool(sub % 2)))
    for sub in (1.0, True, '1', None, 3.0, [3]):
        cases.append(dict(op='pud', creator='O', comp=0x2000, sub=sub, ver=1,
                          data=b'a\nb'.hex(), dtype='bytes', method='parse'))
        cases.append(dict(op='pud', creator='B', comp=0x9003, sub=sub, ver=1,
                          data=b'a\nb'.hex(), dtype='bytes', method='parse'))
        cases.append(dict(op='pud', creator='B', comp=0x9001, sub=sub, ver=sub,
                          data=b'a\nb'.hex(), dtype='bytes', method='parse'))
    for comp in (-1, 1.5, '2000', None, 0x12345, True):
        for creator in ('O', 'B', None, 5):
            for plugins in (True, False):
                cases.append(dict(op='pud', creator=creator, comp=comp, sub=1, ver=1,
                                  data='4142', dtype='bytes', method='parse',
                                  plugins=plugins))
    return cases


# ---- binary PEL construction ------------------------------------------------

def sec_hdr(sid, slen, ver, sub, comp):
    return struct.pack('>HHBBH', sid & 0xFFFF, slen & 0xFFFF, ver & 0xFF,
                       sub & 0xFF, comp & 0xFFFF)


def private_header(creator, nsections, eid, plid=0x50000001, comp=0x2000):
    body = bytes.fromhex('2024031518402700') + bytes.fromhex('2024031518402855')
    body += creator + b'\x00\x00' + bytes([nsections & 0xFF])
    body += struct.pack('>I', 77) + struct.pack('>Q', 0x0102030405060708)
    body += struct.pack('>II', plid, eid)
    return sec_hdr(0x5048, 48, 1, 0, comp) + body


def user_header(sev=0x40, flags=0xA800, comp=0x2000):
    body = bytes([0x10, 0x03, sev, 0x00]) + b'\x00' * 4 + bytes([0, 0])
    body += struct.pack('>H', flags) + struct.pack('>I', 0)
    return sec_hdr(0x5548, 24, 1, 0, comp) + body


def ud_section(ver, sub, comp, data, slen=None):
    return sec_hdr(0x5544, 8 + len(data) if slen is None else slen, ver, sub, comp) + data


def ed_section(ver, sub, comp, creator, data, slen=None):
    inner = creator + bytes([0x11]) + b'\x22\x33' + data
    return sec_hdr(0x4544, 8 + len(inner) if slen is None else slen, ver, sub, comp) + inner


def other_section(sid, ver, sub, comp, data, slen=None):
    return sec_hdr(sid, 8 + len(data) if slen is None else slen, ver, sub, comp) + data


def build_pels(rng):
    payloads = [p for p in interesting_payloads(rng) if p]
    pels = []

    def pel(creator, sections, eid, **kw):
        return (private_header(creator, 2 + len(sections), eid, **kw) + user_header()
                + b''.join(sections))

    eid = 0x50001000
    # BMC built-in formats
    for sub in (1, 2, 3, 4, 7):
        secs = []
        for p in rng.sample(payloads, 5):
            secs.append(ud_section(1, sub, 0x2000, p))
        secs.append(ed_section(1, sub, 0x2000, b'O', rng.choice(payloads)))
        secs.append(other_section(0x4448, 1, sub, 0xBEEF, rng.choice(payloads)))
        eid += 1
        pels.append(pel(b'O', secs, eid))
    # plugin / no plugin creators
    for creator, comp in [(b'O', 0xE500), (b'M', 0x2C00), (b'H', 0x4142), (b'B', 0x0100),
                          (b'O', 0x1000), (b'T', 0x2A00), (b'Z', 0x0001), (b'\x00', 0x0)]:
        secs = []
        for sub in (1, 2, 3, 4, 5, 0x41, 0x42, 0x43):
            secs.append(ud_section(rng.randrange(1, 3), sub, comp, rng.choice(payloads)))
        secs.append(ed_section(1, 1, 0x2000, b'O', b'{"from": "ED"}'))
        secs.append(ed_section(1, 3, comp, creator, rng.choice(payloads)))
        secs.append(ed_section(1, 3, comp, b'\xff', rng.choice(payloads)))
        secs.append(other_section(rng.randrange(0x10000), 2, 9, 0x77, rbytes(rng, 23)))
        secs.append(other_section(0x4D54, 1, 0, 0x2000, rbytes(rng, 20)))
        eid += 1
        pels.append(pel(creator, secs, eid))
    # valid / invalid JSON user data
    secs = [ud_section(1, 1, 0x2000, p) for p in payloads[:10]]
    eid += 1
    pels.append(pel(b'O', secs, eid))
    # bad section lengths
    for slen in (0, 4, 8, 9, 11, 12, 13, 500, 0xFFFF):
        eid += 1
        pels.append(pel(b'O', [ud_section(1, 1, 0x2000, b'{"a": 1}', slen=slen),
                               ud_section(1, 3, 0x2000, b'after')], eid))
        eid += 1
        pels.append(pel(b'O', [ed_section(1, 1, 0x2000, b'O', b'{"a": 1}', slen=slen),
                               ud_section(1, 3, 0x2000, b'after')], eid))
        eid += 1
        pels.append(pel(b'B', [other_section(0x5858, 1, 1, 0x2000, b'0123456789', slen=slen),
                               ud_section(1, 3, 0x2000, b'after')], eid))
    # truncated and corrupted copies
    base = list(pels[:12])
    for b in base:
        for _ in range(2):
            cut = rng.randrange(60, len(b))
            pels.append(b[:cut])
        for _ in range(2):
            m = bytearray(b)
            for _ in range(rng.randrange(1, 5)):
                m[rng.randrange(72, len(m))] = rng.randrange(256)
            pels.append(bytes(m))
    # random garbage / tiny
    pels.append(b'')
    pels.append(b'PH')
    pels.append(rbytes(rng, 200))
    pels.append(private_header(b'O', 3, 0x50009999) + user_header())
    # hidden / informational (not considered by default)
    pels.append(private_header(b'O', 3, 0x5000AAAA) + user_header(sev=0, flags=0x4000)
                + ud_section(1, 1, 0x2000, b'{"hidden": 1}'))
    return pels


# --------------------------------------------------------------------------
# running
# --------------------------------------------------------------------------

def env_for(root):
    env = dict(os.environ)
    env['PYTHONPATH'] = os.path.join(root, 'modules')
    env['PYTHONDONTWRITEBYTECODE'] = '1'
    env['PYTHONHASHSEED'] = '0'
    env['COLUMNS'] = '80'
    return env


def run_proc(root, pyflags, args, cwd):
    cmd = [PY] + pyflags + args
    p = subprocess.run(cmd, env=env_for(root), cwd=cwd, stdout=subprocess.PIPE,
                       stderr=subprocess.PIPE, timeout=600)
    # messages (e.g. SyntaxWarnings, tracebacks) may mention the tree location
    tag = root.encode()
    return (p.returncode, p.stdout.replace(tag, b'<ROOT>'),
            p.stderr.replace(tag, b'<ROOT>'))


def snapshot(d):
    out = {}
    for dirpath, _, files in os.walk(d):
        for f in files:
            full = os.path.join(dirpath, f)
            with open(full, 'rb') as fd:
                out[os.path.relpath(full, d)] = fd.read()
    return out


def main():
    if len(sys.argv) != 3:
        sys.exit(__doc__)
    roots = [os.path.abspath(sys.argv[1]), os.path.abspath(sys.argv[2])]
    work = tempfile.mkdtemp(prefix='dc_', dir=WORK_PARENT)
    failures = []
    ncases = 0
    try:
        rng = random.Random(5454)
        cases = build_driver_cases(rng)
        spec = os.path.join(work, 'cases.json')
        with open(spec, 'w') as f:
            json.dump(cases, f)
        driver = os.path.join(work, 'driver.py')
        with open(driver, 'w') as f:
            f.write(DRIVER)
        plug = os.path.join(work, 'plugins')
        for name, src in PLUGINS.items():
            os.makedirs(os.path.join(plug, name))
            with open(os.path.join(plug, name, name + '.py'), 'w') as f:
                f.write(src)

        # ---- in-process driver ------------------------------------------------
        for pyflags in ([], ['-O']):
            res = [run_proc(r, pyflags, [driver, spec, plug], work) for r in roots]
            (rc0, out0, err0), (rc1, out1, err1) = res
            l0, l1 = out0.decode().splitlines(), out1.decode().splitlines()
            if rc0 != 0 or len(l0) < 2 * len(cases):
                failures.append(('driver did not complete on pristine', pyflags, rc0,
                                 err0.decode()[-2000:]))
            if rc0 != rc1 or err0 != err1 or len(l0) != len(l1):
                failures.append(('driver rc/stderr/len', pyflags, rc0, rc1,
                                 err0.decode()[-1500:], err1.decode()[-1500:]))
            for a, b in zip(l0, l1):
                ncases += 1
                if a != b:
                    key = a.split('\t')[0]
                    idx = key.split('.')
                    c = cases[int(idx[1])] if idx[0] in ('1', '2') else None
                    failures.append(('driver', pyflags, c, a[:600], b[:600]))

        # ---- peltool CLI ------------------------------------------------------
        pels = build_pels(random.Random(777))
        peldir = os.path.join(work, 'pels')
        os.makedirs(peldir)
        files = []
        for i, data in enumerate(pels):
            path = os.path.join(peldir, 'pel%03d.bin' % i)
            with open(path, 'wb') as f:
                f.write(data)
            files.append(path)

        jobs = []
        for i, path in enumerate(files):
            variants = [([], ['-f', path]), ([], ['-f', path, '-P'])]
            if i % 4 == 0:
                variants.append(([], ['-f', path, '-x']))
            if i % 5 == 0:
                variants.append((['-O'], ['-f', path]))
            for pyflags, args in variants:
                jobs.append((pyflags, args))
        for pyflags, args in [([], ['-p', peldir, '-a']),
                              ([], ['-p', peldir, '-a', '-P']),
                              (['-O'], ['-p', peldir, '-a', '-E']),
                              ([], ['-p', peldir, '-a', '-x', '-E']),
                              ([], ['-p', peldir, '-l', '-E']),
                              ([], ['-p', peldir, '-n', '-E']),
                              ([], ['-p', peldir, '-a', '-H', '-r']),
                              ([], ['-p', peldir, '-i', '50001003']),
                              ([], ['-p', peldir, '--bmc-id', '77']),
                              ([], ['-p', peldir, '--plid', '50000001'])]:
            jobs.append((pyflags, args))

        def do(job):
            pyflags, args = job
            out = []
            for r in roots:
                tool = os.path.join(r, 'modules', 'pel', 'peltool', 'peltool.py')
                out.append(run_proc(r, pyflags, [tool] + args, work))
            return job, out

        with concurrent.futures.ThreadPoolExecutor(max_workers=8) as ex:
            for job, (a, b) in ex.map(do, jobs):
                ncases += 1
                if a != b:
                    failures.append(('cli', job, a[0], b[0], a[1][-800:], b[1][-800:],
                                     a[2][-800:], b[2][-800:]))
        if snapshot(peldir) != dict(('pel%03d.bin' % i, d) for i, d in enumerate(pels)):
            failures.append(('cli modified the input directory',))

        # -j (writes files) and -j -c (also removes the originals)
        for extra in ([], ['-c'], ['-P']):
            snaps = []
            for n, r in enumerate(roots):
                src = os.path.join(work, 'in_%d_%s' % (n, ''.join(extra).strip('-')))
                dst = os.path.join(work, 'out_%d_%s' % (n, ''.join(extra).strip('-')))
                shutil.copytree(peldir, src)
                os.makedirs(dst)
                tool = os.path.join(r, 'modules', 'pel', 'peltool', 'peltool.py')
                rc, out, err = run_proc(r, [], [tool, '-p', src, '-j', '-o', dst] + extra, work)
                snaps.append((rc, out.replace(src.encode(), b'<SRC>'),
                              err.replace(src.encode(), b'<SRC>'),
                              snapshot(src), snapshot(dst)))
            ncases += 1
            if snaps[0] != snaps[1]:
                failures.append(('cli -j', extra, snaps[0][:3], snaps[1][:3],
                                 sorted(snaps[0][4]) == sorted(snaps[1][4])))
    finally:
        shutil.rmtree(work, ignore_errors=True)

    if failures:
        for f in failures[:20]:
            print('DIFF:', f)
        print('DIFFERENT (%d of %d cases)' % (len(failures), ncases))
        sys.exit(1)
    print('IDENTICAL (%d cases)' % ncases)
    sys.exit(0)


if __name__ == '__main__':
    main()
