"""
Corpus builder for diffcheck.py: binary PELs, IO drawer data and fake plugin
modules.  Everything is deterministic (fixed seeds).
"""
import os
import random
import struct
import json


def hdr(sid, length, ver=1, sub=0, comp=0x2000):
    if isinstance(sid, str):
        sid = (ord(sid[0]) << 8) | ord(sid[1])
    return struct.pack('>HHBBH', sid, length & 0xFFFF, ver & 0xFF, sub & 0xFF,
                       comp & 0xFFFF)


def ts(y=0x2023, mo=0x03, d=0x08, h=0x18, mi=0x40, s=0x27, hs=0x11):
    return struct.pack('>HBBBBBB', y, mo, d, h, mi, s, hs)


def fixed(s, n):
    b = s.encode() if isinstance(s, str) else s
    return (b + b'\0' * n)[:n]


def sec_ph(creator='O', count=2, obmc=1, plid=0x50000001, eid=0x50000001,
           comp=0x2000, ver=1, sub=0):
    body = ts() + ts(s=0x30) + creator.encode('latin-1')[:1] + b'\0\0' + \
        bytes([count & 0xFF]) + struct.pack('>I', obmc) + \
        struct.pack('>Q', 0x0102030405060708) + struct.pack('>II', plid, eid)
    return hdr('PH', 48, ver, sub, comp) + body


def sec_uh(subsystem=0x8D, scope=3, sev=0x40, etype=0, action=0xA000,
           states=0x0102, comp=0x2000):
    body = bytes([subsystem, scope, sev, etype]) + b'\0\0\0\0' + \
        bytes([1, 2]) + struct.pack('>H', action) + struct.pack('>I', states)
    return hdr('UH', 24, 1, 0, comp) + body


def fru_identity(flags, pn='BMC0001', ccin='ABCD', sn='SN1234567890'):
    out = b''
    if flags & 0x08 or flags & 0x02:
        out += fixed(pn, 8)
    if flags & 0x04:
        out += fixed(ccin, 4)
    if flags & 0x01:
        out += fixed(sn, 12)
    return b'ID' + bytes([4 + len(out), flags]) + out


def pce_identity(name='pcename', mt='9105-22A', sn='SERIAL000001', size=None):
    nm = name.encode()
    sz = 4 + 8 + 12 + len(nm) if size is None else size
    return b'PE' + bytes([sz & 0xFF, 0]) + fixed(mt, 8) + fixed(sn, 12) + nm


def mru(n=2):
    out = b''
    for i in range(n):
        out += struct.pack('>II', 0x48 + i, 0x00010000 + i)
    return b'MR' + bytes([8 + len(out), n & 0xF]) + b'\0\0\0\0' + out


def callout(loc='U78DA.ND1-P0', parts=(), prio=0x48, size=None):
    lc = loc if isinstance(loc, bytes) else loc.encode()
    if lc:
        lc = lc + b'\0' * ((4 - len(lc) % 4) % 4)
    body = b''.join(parts)
    sz = 4 + len(lc) + len(body) if size is None else size
    return bytes([sz & 0xFF, 0, prio, len(lc)]) + lc + body


def callouts_sub(callouts, wordlen=None):
    body = b''.join(callouts)
    wl = (4 + len(body)) // 4 if wordlen is None else wordlen
    return b'\xC0\x00' + struct.pack('>H', wl) + body


def sec_src(sid='PS', ascii_str='BD8D2000', words=None, flags=0, wordcount=9,
            callouts=None, comp=0x2000):
    words = words or [0x000000E0, 0x2CD30000, 3, 0x03000000, 5, 0x20000, 7,
                      0xDEADBEEF]
    body = bytes([2, flags, 0, wordcount & 0xFF]) + b'\0\0' + \
        struct.pack('>H', 72) + b''.join(struct.pack('>I', w & 0xFFFFFFFF)
                                          for w in words)
    asc = ascii_str.encode('latin-1') if isinstance(ascii_str, str) \
        else ascii_str
    body += (asc + b' ' * 32)[:32]
    if callouts is not None:
        body += callouts
    return hdr(sid, 8 + len(body), 1, 1, comp) + body


def sec_eh(symptom='BD8D2000_2CD30000', comp=0x2000, symlen=None):
    sy = symptom if isinstance(symptom, bytes) else symptom.encode()
    if sy:
        sy += b'\0' * ((4 - len(sy) % 4) % 4)
    body = fixed('9105-22A', 8) + fixed('SN0001', 12) + \
        fixed('fw1030.00-1', 16) + fixed('fw-sub-1.2', 16) + b'\0\0\0\0' + \
        ts() + b'\0\0\0' + bytes([len(sy) if symlen is None else symlen]) + sy
    return hdr('EH', 8 + len(body), 1, 0, comp) + body


def sec_mt(comp=0x2000):
    return hdr('MT', 28, 1, 0, comp) + fixed('9105-22A', 8) + \
        fixed('SN0001', 12)


def sec_ud(data, comp=0x2000, sub=1, ver=1, length=None):
    ln = 8 + len(data) if length is None else length
    return hdr('UD', ln, ver, sub, comp) + data


def sec_ed(data, creator='B', comp=0x0100, sub=1, ver=1, length=None):
    body = creator.encode('latin-1')[:1] + b'\0\0\0' + data
    ln = 8 + len(body) if length is None else length
    return hdr('ED', ln, ver, sub, comp) + body


def sec_lp(name='lpar-one', lps=(1, 2, 3), comp=0x2000):
    nm = name.encode()
    if nm:
        nm += b'\0' * ((4 - len(nm) % 4) % 4)
    body = struct.pack('>HBBI', 7, len(nm), len(lps), 0x90000001) + nm
    for lp in lps:
        body += struct.pack('>H', lp)
    if len(lps) % 2:
        body += b'\0\0'
    return hdr('LP', 8 + len(body), 1, 0, comp) + body


def sec_other(sid, data, comp=0x1234):
    return hdr(sid, 8 + len(data), 1, 0, comp) + data


def pel(sections, creator='O', eid=0x50000001, plid=None, obmc=1, sev=0x40,
        action=0xA000, count=None, subsystem=0x8D, comp=0x2000):
    n = 2 + len(sections) if count is None else count
    return sec_ph(creator, n, obmc, eid if plid is None else plid, eid,
                  comp=comp) + \
        sec_uh(sev=sev, action=action, subsystem=subsystem, comp=comp) + \
        b''.join(sections)


# --------------------------------------------------------------------------
# IO drawer data
# --------------------------------------------------------------------------

def trace_header(name=b'INFO', size=None, ver=2, hdr_len=0x20, time_flg=1,
                 endian=0x42, wrap=3, next_free=0):
    return bytes([ver, hdr_len, time_flg, endian]) + fixed(name, 12) + \
        b'\0\0\0\0' + struct.pack('>III', size or 0, wrap, next_free)


def trace_entry(tbh, tbl, tag, hash_value, line, data=b'', size_delta=0,
                length=None):
    ln = len(data) if length is None else length
    out = struct.pack('>HHHHII', tbh & 0xFFFF, tbl & 0xFFFF, ln & 0xFFFF, tag,
                      hash_value & 0xFFFFFFFF, line & 0xFFFFFFFF) + data
    if len(data) % 4:
        out += b'\0' * (4 - len(data) % 4)
    out += struct.pack('>I', (len(out) + 4 + size_delta) & 0xFFFFFFFF)
    return out


def trace_buffer(name, entries, size=None, **kw):
    body = b''.join(entries)
    total = 32 + len(body)
    return trace_header(name, total if size is None else size, **kw) + body


def ilog_entry(tstamp, seq, pte):
    return struct.pack('>HHI', tstamp & 0xFFFF, seq & 0xFFFF,
                       pte & 0xFFFFFFFF)


SYN_HEADER = r'''
// synthetic header
#define PTE_TABLE_SIZE 10
static struct pte_entry_struct static_pte_entry_table[PTE_TABLE_SIZE] =
{
  { "01040000", "Power on complete", {}, "states.cpp", 601 },
  { "100100**", "PS%d - Faults Cleared", {4}, "mps.cpp", 759 },
  { "0200****", "This PEROM level = %c%c", {3, 4}, "states.cpp", 254 },
  { "E2082690", "P1 IO Bay VRM in \"N-Mode\"", {}, "vrm_monitor.cpp", 145 },
  { "E30****1", "  Bad %d %d %d  ", {1, 2, 3, 4, 5, 0, 9}, "x.cpp", 1 },
  { "0300****", "too many %d %d %d", {3}, "y.cpp", 2 },
  { "e4abcdef", "lower case pattern %s", {2}, "z.cpp", 3 },
  { "05******", "percent 100% done", {}, "p.cpp", 4 },
  not an entry line
  { "06000000", "no trailing comma", {}, "q.cpp", 5 }
  { ""        , "The End" }
};
  { "07000000", "outside of table", {}, "r.cpp", 6 },

static struct mex_hlog_field mex_hlog_fields[MEX_HLOG_FIELD_COUNT] =
{
  { 1, "hl_one" },
  { 2, "hl_two" },
  { 3, "hl_bad_size" },
  garbage
  { 1, "hl_three" },
  { 2, "hl_last" }
};
  { 1, "hl_outside" },
struct mex_hlog_field mex_hlog_fields[2] = {
  { 2, "hl_second_array" },
};
'''

SYN_STRINGS = '''#FSP_TRACE_v2|||Thu Sep 24 12:55:43 2020|||BUILD:Release
32403714||E> ADT7470: Controller 0x%X: Failure count = %d||adt7470_fan_ctl.cpp(324)
  48602109  ||  I> padded %s string  ||  file.cpp(486)
100000001||no args||a.cpp(1)
200012345||five %d %d %d %d %d||b.cpp(2)
300012345||six %d %d %d %d %d %d||c.cpp(3)
400054321||pct 100% literal||d.cpp(4)
500054321||char %c||e.cpp(5)
not a valid line
12||
600000007||dup first||f.cpp(6)
700000007||dup second||g.cpp(7)
||missing hash||h.cpp
800000008||with || inside||i.cpp(8)
'''


def hexdump_bmc(data):
    lines = []
    for i in range(0, len(data), 16):
        chunk = data[i:i + 16]
        hx = chunk.hex().upper()
        groups = ' '.join(hx[j:j + 8] for j in range(0, len(hx), 8))
        txt = ''.join(chr(b) if 0x20 <= b < 0x7f else '.' for b in chunk)
        lines.append('%04X:  %s  <%s>' % (i & 0xFFFF, groups.ljust(35), txt))
    return lines


def hexdump_prebmc(data):
    lines = []
    for i in range(0, len(data), 16):
        chunk = data[i:i + 16]
        hx = ' '.join('%02x' % b for b in chunk)
        txt = ''.join(chr(b) if 0x20 <= b < 0x7f else '.' for b in chunk)
        lines.append(hx.ljust(47) + ' ' + txt)
    return lines


# --------------------------------------------------------------------------
# fake plugins
# --------------------------------------------------------------------------

FAKE_FILES = {
    'pel_registry/__init__.py': '''
import os
def get_registry_path():
    return os.path.join(os.path.dirname(__file__), 'message_registry.json')
''',
    'pel_registry/O_component_ids.json': json.dumps(
        {"2000": "bmc logging", "E500": "hw diags", "ABCD": "abcd comp",
         "abcf": "lower key"}),
    'pel_registry/B_component_ids.json': json.dumps({"0100": "hb comp"}),
    'pel_registry/notes.txt': 'ignored',
    'pel_registry/message_registry.json': json.dumps({"PELs": [
        {"Name": "no.reason", "SRC": {}, "Documentation": {"Message": "x"}},
        {"Name": "a", "SRC": {"ReasonCode": "0x2000"},
         "Documentation": {"Message": "Generic BMC error"}},
        {"Name": "b", "SRC": {"ReasonCode": "0x2001",
                              "Words6To9": {
                                  "6": {"Description": "word six desc",
                                        "AdditionalDataPropSource": "W6"},
                                  "7": {"AdditionalDataPropSource": "W7"},
                                  "9": {"Description": "word nine",
                                        "AdditionalDataPropSource": "W9"}}},
         "Documentation": {"Message": "Args %1 and %2 done",
                           "MessageArgSources": ["SRCWord6", "SRCWord9"]}},
        {"Name": "c", "SRC": {"ReasonCode": "0x2002", "Type": "11",
                              "Words6To9": {}},
         "Documentation": {"Message": "Power fault {braces} %1",
                           "MessageArgSources": ["SRCWord8"]}},
        {"Name": "d", "SRC": {"ReasonCode": "0x2003", "Type": "BC"},
         "Documentation": {"Message": "Hostboot thing %3",
                           "MessageArgSources": ["SRCWord5"]}},
        {"Name": "e", "SRC": {"ReasonCode": "0x2004"},
         "Documentation": {"Message": "",
                           "MessageArgSources": ["SRCWord5"]}},
        {"Name": "f", "SRC": {"ReasonCode": "0x2005"},
         "Documentation": {"Message": "too few args %1 %2",
                           "MessageArgSources": ["SRCWord5"]}},
        {"Name": "g", "SRC": {"ReasonCode": "0x2000"},
         "Documentation": {"Message": "shadowed duplicate"}},
    ]}),
    'udparsers/b0100/__init__.py': '',
    'udparsers/b0100/b0100.py': '''
import json
def parseUDToJson(subtype, version, data):
    return json.dumps({"Sub": subtype, "Ver": version, "Hex": data.hex(),
                       "Section Version": "override"})
''',
    'udparsers/b0200/__init__.py': '',
    'udparsers/b0200/b0200.py': '''
def parseUDToJson(subtype, version, data):
    return 'null'
''',
    'udparsers/b0300/__init__.py': '',
    'udparsers/b0300/b0300.py': '''
def parseUDToJson(subtype, version, data):
    return None
''',
    'udparsers/b0400/__init__.py': '',
    'udparsers/b0400/b0400.py': '''
def parseUDToJson(subtype, version, data):
    raise ValueError("bad data %d" % len(data))
''',
    'udparsers/b0500/__init__.py': '',
    'udparsers/b0500/b0500.py': '''
calls = [0]
def parseUDToJson(subtype, version, data):
    calls[0] += 1
    if calls[0] % 2:
        raise ImportError("lazy dependency missing")
    return '{"call": %d}' % calls[0]
''',
    'udparsers/b0600/__init__.py': '',
    'udparsers/b0600/b0600.py': '''
def parseUDToJson(subtype, version, data):
    return 'this is not json \\u00e9'
''',
    'udparsers/b0700/__init__.py': '',
    'udparsers/b0700/b0700.py': '''
def parseUDToJson(subtype, version, data):
    if subtype == 1:
        return '["a", "b", 3]'
    if subtype == 2:
        return '"scalar"'
    if subtype == 3:
        return '17'
    if subtype == 4:
        return ''
    if subtype == 5:
        return 5
    return '  null'
''',
    'udparsers/b0800/__init__.py': '',
    'udparsers/b0800/b0800.py': '''
import a_module_that_does_not_exist_anywhere
def parseUDToJson(subtype, version, data):
    return '{}'
''',
    'udparsers/b0900/__init__.py': '',
    'udparsers/b0900/b0900.py': '''
raise RuntimeError("broken at import")
''',
    'udparsers/b0a00/__init__.py': '',
    'udparsers/b0a00/b0a00.py': '''
x = 1
''',
    'srcparsers/bsrc/__init__.py': '',
    'srcparsers/bsrc/bsrc.py': '''
import json
def parseSRCToJson(refcode, w2, w3, w4, w5, w6, w7, w8, w9):
    if refcode[4:8] == '2004':
        raise KeyError("boom " + refcode.strip())
    if refcode[4:8] == '2005':
        return 'null'
    if refcode[4:8] == '2006':
        return ''
    if refcode[4:8] == '2007':
        return '[1, 2]'
    return json.dumps({"ref": refcode, "words": [w2, w3, w4, w5, w6, w7, w8,
                                                 w9]})
''',
    'srcparsers/ysrc/__init__.py': '',
    'srcparsers/ysrc/ysrc.py': '''
raise SystemExit(7)
''',
    'srcparsers/zsrc/__init__.py': '',
    'srcparsers/zsrc/zsrc.py': '''
raise ValueError("zsrc broken")
''',
    'srcparsers/o3000/__init__.py': '',
    'srcparsers/o3000/o3000.py': '''
import json
def parseSRCToJson(refcode, w2, w3, w4, w5, w6, w7, w8, w9):
    return json.dumps({"o3000": w6})
''',
    'calloutparsers/bcallouts/__init__.py': '',
    'calloutparsers/bcallouts/bcallouts.py': '''
import json
calls = [0]
def getMaintProcDesc(proc):
    calls[0] += 1
    if proc == 'RAISE01':
        raise LookupError("no such proc")
    if proc == 'BADJSON':
        return 'not json'
    if proc == 'EMPTY01':
        return ''
    return json.dumps(["desc for " + proc, calls[0]])
''',
    'calloutparsers/zcallouts/__init__.py': '',
    'calloutparsers/zcallouts/zcallouts.py': '''
raise ValueError("zcallouts broken")
''',
    'calloutparsers/ycallouts/__init__.py': '',
    'calloutparsers/ycallouts/ycallouts.py': '''
raise KeyboardInterrupt("ycallouts interrupt")
''',
}


def write_fake(fake_dir):
    for rel, content in FAKE_FILES.items():
        p = os.path.join(fake_dir, rel)
        os.makedirs(os.path.dirname(p), exist_ok=True)
        with open(p, 'w') as f:
            f.write(content)


# --------------------------------------------------------------------------
# PEL corpus
# --------------------------------------------------------------------------

def base_pels():
    """Returns list of (name, bytes)."""
    out = []
    eid = [0x50000000]

    def add(tag, data, e=None):
        out.append((tag, data))

    def nxt():
        eid[0] += 1
        return eid[0]

    # 1. a full BMC PEL
    co = callouts_sub([
        callout('U78DA.ND1-P0', [fru_identity(0x1F | 0x08, pn='01AB234')]),
        callout('', [fru_identity(0x42, pn='BMC0001')], prio=0x4D),
        callout('Ufcs-P1', [fru_identity(0x27, pn='BMC0099'), pce_identity(),
                            mru(3)], prio=0x41),
        callout('U1', [pce_identity(name='x')], prio=0x99),
        callout('U2', [mru(0)]),
    ])
    e = nxt()
    add('full_bmc', pel([
        sec_src('PS', 'BD8D2000', flags=0x01 | 0x80, callouts=co),
        sec_eh(), sec_mt(),
        sec_ud(b'{"key": "value", "n": 1}\0\0', comp=0x2000, sub=1),
        sec_ud(b'line one\nline \x01two\nlast', comp=0x2000, sub=3),
        sec_ud(b'\x01\x02\x03\x04', comp=0x2000, sub=2),
        sec_ud(b'\xAA\xBB', comp=0x2000, sub=9),
        sec_ed(b'\x00\x01\x02\x03', 'B', 0x0100),
        sec_lp(), sec_other('DH', b'dumploc\0'),
        sec_src('SS', 'BD8D2001', words=[0xE0, 0, 3, 0x23000000, 0x11, 0x66,
                                         0x77, 0x99]),
    ], 'O', e, obmc=17))

    # 2. registry variants (BD / 11 / BC types)
    for code, creator in [('BD8D2001', 'O'), ('11002002', 'O'),
                          ('BC8A2003', 'B'), ('BD8D2004', 'O'),
                          ('BD8D2005', 'O'), ('BD8D9999', 'O'),
                          ('BC8A2004', 'B'), ('BC8A2005', 'B'),
                          ('BC8A2006', 'B'), ('BC8A2007', 'B'),
                          ('BC8A2003', 'O'), ('BD8DE510', 'O'),
                          ('BD8D3000', 'O'), ('BD8DE511', 'O'),
                          ('B7001111', 'H'), ('AAAA0000', 'X'),
                          ('BD8D2000', 'Y'), ('BD8D2000', 'Z')]:
        e = nxt()
        for wc in (9, 5):
            add('src_%s_%s_%d' % (code, creator, wc), pel([
                sec_src('PS', code, flags=0x14, wordcount=wc,
                        words=[0xE0, 0x2CD30000, 3, 0x23000000, 0x55,
                               0x20da0030, 0x00010003, 0x05a30010]),
                sec_eh(symptom=''), sec_mt()], creator, e + (wc << 8)))

    # word counts
    for wc in (0, 1, 2, 3, 10, 11, 12, 255):
        add('wc_%d' % wc, pel([sec_src('PS', 'BD8D2000', wordcount=wc)], 'O',
                              nxt()))

    # callouts with procedures for plugins B / Z / Y / X
    for creator in 'BZXO':
        co = callouts_sub([
            callout('L1', [fru_identity(0x42, pn='RAISE01')]),
            callout('L2', [fru_identity(0x42, pn='PROC001')]),
            callout('L3', [fru_identity(0x42, pn='BADJSON')]),
            callout('L4', [fru_identity(0x42, pn='EMPTY01')]),
            callout('L5', [fru_identity(0x42, pn='BMC0002')]),
            callout('L6', [fru_identity(0x48, pn='PN00001')]),
        ])
        add('co_proc_%s' % creator, pel([
            sec_src('PS', 'BC8A2003', flags=1, callouts=co)], creator, nxt()))
    co = callouts_sub([callout('L1', [fru_identity(0x42, pn='PROC001')])])
    add('co_proc_Y', pel([sec_src('PS', 'BD8D2000', flags=1, callouts=co)],
                         'Y', nxt()))

    # odd callout structures
    co = callouts_sub([callout('L1', [b'XX\x04\x00'], size=12)])
    add('co_unknown_sub', pel([sec_src('PS', flags=1, callouts=co)], 'O',
                              nxt()))
    co = callouts_sub([callout('L1', [pce_identity(size=10)])])
    add('co_pce_small', pel([sec_src('PS', flags=1, callouts=co), sec_mt()],
                            'O', nxt()))
    co = callouts_sub([callout('L1', [fru_identity(0x1F)], size=200)])
    add('co_size_big', pel([sec_src('PS', flags=1, callouts=co), sec_mt()],
                           'O', nxt()))
    co = callouts_sub([callout('L1', [fru_identity(0x1F)])], wordlen=100)
    add('co_wordlen_big', pel([sec_src('PS', flags=1, callouts=co), sec_mt(),
                               sec_eh()], 'O', nxt()))
    co = callouts_sub([], wordlen=1)
    add('co_empty', pel([sec_src('PS', flags=1, callouts=co), sec_mt()], 'O',
                        nxt()))
    co = callouts_sub([callout(b'L\xff\xfe', [fru_identity(0x1F, sn=b'\xff\xfe')])])
    add('co_bad_utf8', pel([sec_src('PS', flags=1, callouts=co)], 'O', nxt()))

    # severity / action flag matrix
    for sev in (0x00, 0x10, 0x20, 0x40, 0x51, 0x53, 0x61, 0x71, 0xF0):
        for action in (0x0000, 0x8000, 0x4000, 0x2000, 0x6000, 0xA000,
                       0xFFFF, 0x0920):
            add('sev_%02X_%04X' % (sev, action),
                pel([sec_src('PS', 'BD8D2000'), sec_mt()], 'O', nxt(),
                    sev=sev, action=action, subsystem=sev ^ 0x8D))

    # user data plugin grid
    for comp in (0x0100, 0x0200, 0x0300, 0x0400, 0x0500, 0x0600, 0x0700,
                 0x0800, 0x0900, 0x0A00, 0x0B00):
        secs = []
        for sub in (1, 2, 3, 4, 5, 6):
            secs.append(sec_ud(bytes(range(sub * 3)), comp=comp, sub=sub))
        secs.append(sec_ed(b'\x10\x20\x30', 'B', comp, sub=1))
        add('ud_b%04x' % comp, pel(secs, 'B', nxt(), sev=0x20, action=0x2000))

    # builtin BMC user data formats, odd content
    secs = [sec_ud(b'{"a": [1, 2, {"b": "c"}]}', sub=1),
            sec_ud(b'[1, 2, 3]', sub=1),
            sec_ud(b'"just a string"', sub=1),
            sec_ud(b'null', sub=1),
            sec_ud(b'{broken json', sub=1),
            sec_ud(b'  {"sp": 1}  \0\0\0', sub=1),
            sec_ud(b'\xff\xfe\xfd', sub=1),
            sec_ud(b'\xff\xfe\xfd', sub=3),
            sec_ud(b'\n\nabc\n\n\x7f~ \ndef\n', sub=3),
            sec_ud('café 中\n'.encode(), sub=3),
            sec_ud(b'{"Section Version": 99, "Data": "x"}', sub=1)]
    add('ud_builtin', pel(secs, 'O', nxt()))
    add('ud_builtin_ed', pel([sec_ed(b'{"x": 1}', 'O', 0x2000, sub=1),
                              sec_ed(b'text\nmore', 'O', 0x2000, sub=3),
                              sec_ed(b'\x01', '\xe9', 0x2000, sub=3),
                              sec_ed(b'abc', 'H', 0x4142, sub=1)], 'O',
                             nxt()))

    # real parsers: m2c00 and oe500
    ilog = b''.join(ilog_entry(100 + i, i, p) for i, p in enumerate(
        [0x01040000, 0x10010003, 0xE2082690, 0xE20C2690, 0x12345678, 0]))
    tr = trace_buffer(b'INFO', [
        trace_entry(10, 1, 0x4654, 32403714, 324, struct.pack('>II', 5, 6)),
        trace_entry(11, 2, 0x4644, 1, 2, b'\x01\x02\x03')])
    secs = []
    for ver in (1, 2, 3):
        secs += [sec_ud(bytes(range(40)), comp=0x2C00, sub=72, ver=ver),
                 sec_ud(ilog, comp=0x2C00, sub=73, ver=ver),
                 sec_ud(tr, comp=0x2C00, sub=84, ver=ver),
                 sec_ud(b'\x01\x02', comp=0x2C00, sub=1, ver=ver)]
    add('ud_m2c00', pel(secs, 'M', nxt(), sev=0x40, action=0x8000))
    sig = struct.pack('>I', 2) + bytes.fromhex('20da0030000100030' '5a30010') \
        + bytes.fromhex('20da003000020001ffff0102')
    reg = struct.pack('>I', 1) + bytes.fromhex('20da0030') + \
        struct.pack('>HBI', 3, 1, 2) + bytes.fromhex('abcdef') + \
        bytes([1, 8]) + bytes(range(8)) + bytes.fromhex('123456') + \
        bytes([0, 3]) + b'\x01\x02\x03'
    secs = [sec_ud(sig, comp=0xE500, sub=1), sec_ud(reg, comp=0xE500, sub=2),
            sec_ud(b'{"co": [1]}\0', comp=0xE500, sub=3),
            sec_ud(bytes(range(24)), comp=0xE500, sub=4),
            sec_ud(bytes(range(8)), comp=0xE500, sub=5),
            sec_ud(bytes(range(8)), comp=0xE500, sub=6),
            sec_ud(sig[:9], comp=0xE500, sub=1),
            sec_ud(b'{bad', comp=0xE500, sub=3)]
    add('ud_oe500', pel(secs, 'O', nxt()))

    add('empty_ud', pel([sec_mt(), sec_ud(b'', sub=1), sec_mt()], 'O', nxt()))
    add('empty_ed', pel([sec_mt(), sec_ed(b'', 'B', 0x0100), sec_mt()], 'O',
                        nxt()))
    co = callouts_sub([callout('U1', [pce_identity(name='')])])
    add('co_pce_noname', pel([sec_src('PS', flags=1, callouts=co), sec_mt()],
                             'O', nxt()))

    # PHYP creator (ascii comp ids)
    add('phyp', pel([sec_src('PS', 'B7001111'), sec_ud(b'\x01', comp=0x4142),
                     sec_ud(b'\x02', comp=0x4100), sec_lp('', ()),
                     sec_lp('nm', (1, 2)), sec_lp('n', (9,))], 'H', nxt(),
                    comp=0x4850))

    # section count oddities
    add('count_small', pel([sec_src('PS'), sec_mt()], 'O', nxt(), count=3))
    add('count_big', pel([sec_src('PS'), sec_mt()], 'O', nxt(), count=9))
    add('count_zero', pel([sec_src('PS')], 'O', nxt(), count=0))
    add('no_src', pel([sec_mt(), sec_eh()], 'O', nxt()))
    add('only_headers', pel([], 'O', nxt()))
    add('dups', pel([sec_mt(), sec_mt(), sec_other('ZZ', b'1234'),
                     sec_other('ZZ', b''), sec_other('\x00\x01', b'xy'),
                     sec_mt()], 'O', nxt()))
    add('len_small', pel([sec_ud(b'abcd', length=4), sec_mt()], 'O', nxt()))
    add('len_zero_ed', pel([sec_ed(b'', length=8), sec_mt()], 'O', nxt()))
    add('len_big', pel([sec_ud(b'abcd', length=400)], 'O', nxt()))
    add('eh_symlen_big', pel([sec_eh(symlen=200)], 'O', nxt()))
    add('eh_bad_utf8', pel([sec_eh(symptom=b'\xff\xfe\xfd\xfc')],
                           'O', nxt()))
    add('bad_ph_id', b'XX' + pel([sec_mt()], 'O', nxt())[2:])
    p = pel([sec_mt()], 'O', nxt())
    add('bad_uh_id', p[:48] + b'YY' + p[50:])
    add('creator_nonascii', sec_ph('\xe9', 3) + sec_uh() + sec_mt())
    add('quotes', pel([sec_ud(b'{"a\\"b": "c: {d}", "e": ["x\\"y: 1"], '
                              b'"f": {"g": "\\\\"}}', sub=1),
                       sec_ud(b'k": v\n"q": 1,\n   "r": {', sub=3)], 'O',
                      nxt()))
    return out


def build_pel_corpus():
    """Returns list of (filename, bytes): base + truncated + corrupted +
    random."""
    rnd = random.Random(1905)
    base = base_pels()
    files = []
    for i, (tag, data) in enumerate(base):
        eid = data[44:48].hex().upper() if len(data) >= 48 else '00000000'
        files.append(('%03d_%s_%s' % (i, tag, eid), data))
    extra = []
    pick = [b for b in base if not b[0].startswith('sev_')]
    for i, (tag, data) in enumerate(pick):
        # truncations
        cuts = sorted(set([0, 1, 7, 8, 30, 47, 48, 49, 60, 71, 72, 73, 80,
                           len(data) - 1, len(data) // 2] +
                          [rnd.randrange(0, len(data) + 1)
                           for _ in range(4)]))
        if i % 5:
            cuts = cuts[-4:]
        for c in cuts:
            if 0 <= c < len(data):
                extra.append(('t%03d_%04d_%s' % (i, c, tag), data[:c]))
        # corruptions (keep PH/UH ids mostly intact)
        for k in range(3 if i % 4 else 8):
            b = bytearray(data)
            for _ in range(rnd.choice((1, 1, 2, 4, 16))):
                pos = rnd.randrange(0 if k == 0 else 8, len(b))
                b[pos] = rnd.randrange(256)
            extra.append(('c%03d_%d_%s' % (i, k, tag), bytes(b)))
    for k in range(25):
        extra.append(('r%03d' % k,
                      bytes(rnd.randrange(256)
                            for _ in range(rnd.choice((0, 5, 48, 72, 200))))))
    for k in range(10):
        body = bytes(rnd.randrange(256) for _ in range(150))
        extra.append(('rh%03d' % k, sec_ph('O', 5, eid=0x60000000 + k) +
                      sec_uh() + body))
    return files, extra
