"""
In-process driver for diffcheck.py.

usage: dc_driver.py <corpus_dir> <fake_dir or -> <scratch_dir> <out.json>

The tree under test is selected through PYTHONPATH by the caller.  Every case
result (return value, captured stdout/stderr, exception) is stored under a
deterministic id so that two trees can be compared.
"""
import contextlib
import hashlib
import io
import itertools
import json
import os
import random
import shutil
import struct
import sys

corpus_dir, fake_dir, scratch_dir, out_path = sys.argv[1:5]
sys.path.insert(0, os.path.dirname(os.path.abspath(__file__)))
import dc_corpus as C  # noqa: E402

if fake_dir != '-':
    import udparsers
    import srcparsers
    import calloutparsers
    udparsers.__path__.append(os.path.join(fake_dir, 'udparsers'))
    srcparsers.__path__.append(os.path.join(fake_dir, 'srcparsers'))
    calloutparsers.__path__.append(os.path.join(fake_dir, 'calloutparsers'))

RESULTS = {}


def norm(v):
    if isinstance(v, (bytes, bytearray, memoryview)):
        return 'bytes:' + bytes(v).hex()
    if isinstance(v, dict):
        return [type(v).__name__] + [[norm(k), norm(x)] for k, x in v.items()]
    if isinstance(v, (list, tuple)):
        return [type(v).__name__] + [norm(x) for x in v]
    if isinstance(v, (str, int, float, bool)) or v is None:
        return [type(v).__name__, v]
    return repr(type(v))


def case(cid, fn, *a, **kw):
    assert cid not in RESULTS, cid
    so, se = io.StringIO(), io.StringIO()
    res = None
    exc = None
    with contextlib.redirect_stdout(so), contextlib.redirect_stderr(se):
        try:
            res = fn(*a, **kw)
        except BaseException as e:  # noqa
            exc = [type(e).__name__, str(e)]
    RESULTS[cid] = {'r': norm(res), 'x': exc, 'o': so.getvalue(),
                    'e': se.getvalue()}
    return res


rnd = random.Random(77)


def rbytes(n):
    return bytes(rnd.randrange(256) for _ in range(n))


# ---------------------------------------------------------------- hexdump
from pel import hexdump as HD  # noqa: E402
from pel.datastream import DataStream  # noqa: E402

samples = [b'', b'A', b'hello world 1234', bytes(range(256)), rbytes(17),
           rbytes(33), rbytes(5), b'\x7f\x20\x1f~', rbytes(64)]
for i, s in enumerate(samples):
    for bpl, bpc in [(16, 4), (8, 2), (1, 1), (32, 8), (16, 3), (7, 16),
                     (0, 4), (300, 4), (16, 0), (256, 256)]:
        case('hd/%d/%d/%d' % (i, bpl, bpc), HD.hexdump, memoryview(s), bpl,
             bpc)
    case('hd/def/%d' % i, HD.hexdump, memoryview(s))
    case('hd/bytes/%d' % i, HD.hexdump, s)
case('hd/words', HD.hexdump, memoryview(bytes(range(32))).cast('H'))

for i, s in enumerate(samples):
    lines = HD.hexdump(memoryview(s))
    case('hp/def/%d' % i, HD.parse, lines)
    case('hp/nl/%d' % i, HD.parse, [ln + '\n' for ln in lines])
    case('hp/strip/%d' % i, HD.parse, [ln.rstrip() for ln in lines])
    case('hp/lower/%d' % i, HD.parse, [ln.lower() for ln in lines])
    case('hp/cut/%d' % i, HD.parse, [ln[:25] for ln in lines])
    case('hp/long/%d' % i, HD.parse, [ln + 'x' for ln in lines])
    case('hp/bmc/%d' % i, HD.parse, C.hexdump_bmc(s),
         'AAAA:  DDDDDDDD DDDDDDDD DDDDDDDD DDDDDDDD  <CCCCCCCCCCCCCCCC>')
    case('hp/pre/%d' % i, HD.parse, C.hexdump_prebmc(s),
         'DD DD DD DD DD DD DD DD DD DD DD DD DD DD DD DD CCCCCCCCCCCCCCCC')
    case('hp/cross/%d' % i, HD.parse, C.hexdump_bmc(s))
    bad = [ln.replace('0', 'G', 1) if k % 2 else ln[:12] + 'Z' + ln[13:]
           for k, ln in enumerate(lines)]
    case('hp/bad/%d' % i, HD.parse, bad)
case('hp/odd', HD.parse, ['ABC', 'A', '', 'ABCD'], 'DDDD')
case('hp/lit', HD.parse, ['|AB|CD', '|AB-CD', 'xAB|CD'], '|DD|DD')
case('hp/emptyfmt', HD.parse, ['', 'AB'], '')


def ds_script(data, ops, **kw):
    st = DataStream(memoryview(data), **kw)
    out = []
    for op, n in ops:
        try:
            if op == 'i':
                out.append(st.get_int(n))
            elif op == 'm':
                out.append(bytes(st.get_mem(n)).hex())
            elif op == 's':
                st.inc_index(n)
                out.append('skip')
            elif op == 'c':
                out.append(st.check_range(n))
            elif op == 'l':
                out.append(st.get_int(n, 'little', True))
        except BaseException as e:  # noqa
            out.append([type(e).__name__, str(e)])
        out.append(st.index)
    return out


for i in range(40):
    data = rbytes(rnd.randrange(0, 24))
    ops = [(rnd.choice('imscl'), rnd.choice((0, 1, 2, 4, 8, -1, 3)))
           for _ in range(10)]
    case('ds/be/%d' % i, ds_script, data, ops, byte_order='big',
         is_signed=False)
    case('ds/none/%d' % i, ds_script, data, ops)
    case('ds/le/%d' % i, ds_script, data, ops, byte_order='little',
         is_signed=True)

# ---------------------------------------------------------------- peltool
sys.argv = ['peltool.py']
from pel.peltool import peltool as PT  # noqa: E402
from pel.peltool.config import Config  # noqa: E402
from pel.peltool.user_header import UserHeader  # noqa: E402


def mkconfig(**kw):
    c = Config()
    for k, v in kw.items():
        setattr(c, k, v)
    return c


CONFIGS = {
    'every': dict(every_pel=True),
    'every_noplug': dict(every_pel=True, allow_plugins=False),
    'default': dict(),
    'hidden_only': dict(hidden=True, only=True),
    'nonserv': dict(non_serviceable=True),
    'sev_only': dict(severities=[0, 5], only=True),
    'term': dict(critSysTerm=True),
    'plid': dict(plid='50000001'),
}

for sid in [0x5048, 0x5548, 0x5053, 0x0000, 0xFFFF, 0x4544, 0x1FF41, -1,
            0x5A5A]:
    case('secname/%s' % sid, PT.getSectionName, sid)

# considerPEL exhaustive
flags = ['every_pel', 'critSysTerm', 'serviceable', 'non_serviceable',
         'hidden', 'only']
sevsets = [[], [0], [5], [2, 4], [0, 1, 2, 4, 5, 6, 7]]
idsets = [dict(), dict(plid='X'), dict(src='Y'), dict(bmcID='1'),
          dict(pelID='Z')]
for sev in (0x00, 0x10, 0x20, 0x40, 0x51, 0x53, 0x71):
    for action in (0x0000, 0x8000, 0x4000, 0x2000, 0x6000, 0xE000):
        uh = UserHeader(None, 0x5548, 24, 1, 0, 0x2000, 'O')
        uh.eventSeverity = sev
        uh.actionFlags = action
        case('uhflags/%02X/%04X' % (sev, action),
             lambda u: [u.isHidden(), u.isServiceable()], uh)

        def sweep(u):
            res = []
            for bits in itertools.product((False, True), repeat=len(flags)):
                for si, ss in enumerate(sevsets):
                    for ii, ids in enumerate(idsets):
                        if ii and (bits[0] or si > 1):
                            continue
                        cfg = mkconfig(severities=list(ss), **ids,
                                       **dict(zip(flags, bits)))
                        res.append(PT.considerPEL(u, cfg))
                        res.append(PT.considerPELIfSeverityMatches(u, cfg))
            return res
        case('consider/%02X/%04X' % (sev, action), sweep, uh)

# prettyPrint / buildOutput
pp_inputs = [
    '', '{}', '"a": 1', '    "Key": "v",', '    "Key": {', '"k":1',
    '    "a\\"b": "c: {d}",', '    "e": "has { brace",', '  "x": [',
    '        "very long key name that exceeds the desired spacing": 5,',
    '"a": "b": "c"', 'no key here: 1', '    "k" : 1', '   "":0',
    json.dumps({"a": {"b": [1, 2, {"c": "d"}], "e\"f": "g\\"}, "h": None,
                "i: j": "{", "k": []}, indent=4),
]
for i, s in enumerate(pp_inputs):
    case('pp/%d' % i, PT.prettyPrint, s)
    case('pp29/%d' % i, PT.prettyPrint, s, desiredSpace=29)
    case('pp0/%d' % i, PT.prettyPrint, s, 0)


def bo(secs):
    from collections import OrderedDict
    out = OrderedDict()
    out['pre'] = 0
    PT.buildOutput(secs, out)
    return out


case('bo/0', bo, [])
case('bo/1', bo, [{'A': 1}, {'B': 2}, {'A': 3}, {'A': 4}, {'C': 5},
                  {'B': 6}])
case('bo/2', bo, [{'A': 1}, {'A 0': 2}, {'A': 3}])
case('bo/3', bo, [{'pre': 9}])
case('bo/4', bo, [{'A': 1, 'Z': 2}, {'A': 3}])
case('bo/5', bo, [{'A': 1}, {}])

for pid in ['50000001', '0x50000001', '0X5000000a', 'abc', '', '0x', 'x' * 8,
            '0x0x123456', '5000000100']:
    case('pid/%s' % pid, PT.processId, pid)

# ---- all PEL files through parsePEL / parsePELSummary
pel_files = sorted(os.listdir(os.path.join(corpus_dir, 'all')))


def read(name):
    with open(os.path.join(corpus_dir, 'all', name), 'rb') as f:
        return f.read()


def do_parse(data, cfg, eoe=False):
    st = DataStream(data, byte_order='big', is_signed=False)
    r = PT.parsePEL(st, cfg, eoe)
    return [r, st.index]


def do_summary(data, cfg):
    st = DataStream(data, byte_order='big', is_signed=False)
    r = PT.parsePELSummary(st, cfg)
    return [r, st.index]


for n, name in enumerate(pel_files):
    data = read(name)
    for cname in ('every', 'every_noplug', 'default'):
        case('pel/%s/%s' % (cname, name), do_parse, data,
             mkconfig(**CONFIGS[cname]))
    case('sum/every/%s' % name, do_summary, data, mkconfig(every_pel=True))
    if n % 3 == 0 or name[0].isdigit():
        for cname in ('hidden_only', 'nonserv', 'sev_only', 'term', 'plid'):
            case('pel/%s/%s' % (cname, name), do_parse, data,
                 mkconfig(**CONFIGS[cname]))
            case('sum/%s/%s' % (cname, name), do_summary, data,
                 mkconfig(**CONFIGS[cname]))
        case('pel/eoe/%s' % name, do_parse, data, mkconfig(every_pel=True),
             True)
        case('pel/mv/%s' % name, do_parse, memoryview(data),
             mkconfig(every_pel=True))
# second pass over the base files (module caches are warm now)
for name in pel_files:
    if name[0].isdigit():
        case('pel2/every/%s' % name, do_parse, read(name),
             mkconfig(every_pel=True))

# ---- section classes on random streams
from pel.peltool.private_header import PrivateHeader, getTimestamp  # noqa
from pel.peltool.src import SRC, FRUIdentity, PCEIdentity, MRU, Callout  # noqa
from pel.peltool.extend_user_header import ExtendedUserHeader  # noqa: E402
from pel.peltool.failing_mtms import FailingMTMS  # noqa: E402
from pel.peltool.user_data import UserData  # noqa: E402
from pel.peltool.ext_user_data import ExtUserData  # noqa: E402
from pel.peltool.default import Default  # noqa: E402
from pel.peltool.imp_partition import ImpactedPartition  # noqa: E402
from pel.peltool import comp_id as CID  # noqa: E402
from pel.peltool.registry import Registry  # noqa: E402
from pel.peltool.parse_user_data import ParseUserData, get_value  # noqa


def sect(cls, data, seclen, *extra, cfg=None, twice=False):
    st = DataStream(data, byte_order='big', is_signed=False)
    obj = cls(st, 0x1111, seclen, 3, 5, 0xE500, *extra)
    r1 = obj.toJSON(cfg) if cfg is not None else obj.toJSON()
    r2 = None
    if twice:
        try:
            r2 = obj.toJSON(cfg) if cfg is not None else obj.toJSON()
        except BaseException as e:  # noqa
            r2 = [type(e).__name__, str(e)]
    return [r1, r2, st.index]


for i in range(60):
    n = rnd.choice((0, 3, 8, 20, 28, 40, 60, 72, 90, 130))
    data = rbytes(n)
    if i % 2:
        data = bytes(b & 0x7F for b in data)
    cfg = mkconfig(allow_plugins=bool(i % 3))
    case('sec/ph/%d' % i, sect, PrivateHeader, data, n + 8, twice=True)
    case('sec/uh/%d' % i, sect, UserHeader, data, n + 8, 'O', twice=True)
    case('sec/src/%d' % i, sect, SRC, data, n + 8, 'OBHX'[i % 4], cfg=cfg,
         twice=True)
    case('sec/eh/%d' % i, sect, ExtendedUserHeader, data, n + 8, 'O')
    case('sec/mt/%d' % i, sect, FailingMTMS, data, n + 8, 'H')
    case('sec/ud/%d' % i, sect, UserData, data, rnd.choice((n + 8, n, 8, 7,
                                                            9, n + 9)),
         'OBM'[i % 3], cfg=cfg, twice=True)
    case('sec/ed/%d' % i, sect, ExtUserData, data, rnd.choice((n + 8, n, 12,
                                                               11, 13)),
         cfg=cfg, twice=True)
    case('sec/df/%d' % i, sect, Default, data, rnd.choice((n + 8, n, 8, 7)),
         twice=True)
    case('sec/lp/%d' % i, sect, ImpactedPartition, data, n + 8, 'O',
         twice=True)
    case('sec/ts/%d' % i,
         lambda d: getTimestamp(DataStream(d, byte_order='big',
                                           is_signed=False)), data)
    for cls in (FRUIdentity, PCEIdentity, MRU, Callout):
        def mk(c, d):
            st = DataStream(d, byte_order='big', is_signed=False)
            o = c(st)
            fs = o.flattenedSize() if callable(o.flattenedSize) \
                else o.flattenedSize
            return [fs, st.index]
        case('sec/%s/%d' % (cls.__name__, i), mk, cls, data)

# crafted callouts
for i, d in enumerate([
        C.callout('U1', [C.fru_identity(0x0F)]),
        C.callout('', [C.fru_identity(0x02), C.pce_identity(), C.mru(2)]),
        C.callout('U1', [C.mru(15)]), C.callout('U1', []),
        C.callout('U1', [C.pce_identity(size=5)]),
        C.callout('U1', [b'QQ\x08\x00\x00\x00\x00\x00'], size=16)]):
    def mk2(d):
        st = DataStream(d, byte_order='big', is_signed=False)
        o = Callout(st)
        return [o.flattenedSize(), st.index, o.locationCode]
    case('callout/%d' % i, mk2, d)
    case('callout_t/%d' % i, mk2, d[:-3])

# SRC helper methods with crafted details
def src_helpers(details, words):
    s = SRC(None, 0, 0, 0, 0, 0, 'O')
    s.hexData = words
    res = []
    for fn in (s.buildMessage, s.buildHexwordDescs):
        try:
            res.append(fn(details))
        except BaseException as e:  # noqa
            res.append([type(e).__name__, str(e)])
    return res


W = [1, 2, 3, 4, 0x55, 0x66, 0x77, 0x88]
for i, det in enumerate([
        {}, {'Message': 'plain'}, {'Message': 'a %1 b %2',
                                   'MessageArgSources': ['SRCWord6',
                                                         'SRCWord9']},
        {'Message': '%1 %2 %3', 'MessageArgSources': ['SRCWord6']},
        {'Message': 'x {0} %1', 'MessageArgSources': ['SRCWord2']},
        {'Message': 'x', 'MessageArgSources': ['SRCWordX']},
        {'Message': '%0 %a', 'MessageArgSources': []},
        {'Message': 'm', 'Words6To9': {}},
        {'Message': 'm', 'Words6To9': {
            '6': {'Description': 'd6', 'AdditionalDataPropSource': 'A'},
            '7': {'AdditionalDataPropSource': 'B'},
            '12': {'Description': 'd12', 'AdditionalDataPropSource': 'C'}}},
        {'Message': 'm', 'Words6To9': {'x': {'Description': 'd'}}},
        {'MessageArgSources': ['SRCWord6']}]):
    case('srch/%d' % i, src_helpers, det, W)
    case('srch_short/%d' % i, src_helpers, det, W[:3])


def src_parse(creator, asc, hexwords):
    s = SRC(None, 0, 0, 0, 0, 0, creator)
    s.asciiString = asc
    return s.parse(hexwords)


HW = ['%08X' % w for w in W]
for creator in 'OBXYZob':
    for asc in ('BD8D2000', 'BC8A2004', 'BC8A2005', 'BC8A2003', 'BD8DE510',
                'BD8D3000', '', 'BD'):
        for rep in (0, 1):
            case('srcparse/%s/%s/%d' % (creator, asc, rep), src_parse,
                 creator, asc.ljust(32), HW)
case('srcparse/short', src_parse, 'O', 'BD8D2000', HW[:5])


def proc_desc(creator, proc):
    from collections import OrderedDict
    s = SRC(None, 0, 0, 0, 0, 0, creator)
    out = OrderedDict()
    r = s.getProcedureDesc(proc, out)
    return [r, out]


for creator in 'OBXZob':
    for proc in ('BMC0001', 'BMC9999', 'RAISE01', 'PROC001', 'BADJSON',
                 'EMPTY01', ''):
        for rep in (0, 1):
            case('procdesc/%s/%s/%d' % (creator, proc, rep), proc_desc,
                 creator, proc)
for rep in (0, 1):
    case('procdesc/Y/%d' % rep, proc_desc, 'Y', 'PROC001')


def err_details(code, typ, words):
    from collections import OrderedDict
    s = SRC(None, 0, 0, 0, 0, 0, 'O')
    s.hexData = words
    out = OrderedDict()
    s.getErrorDetails(out, code, typ)
    return out


reg = case('registry/new', lambda: Registry().pels)
for code in ('2000', '2001', '2002', '2003', '2004', '2005', '9999', '',
             '200'):
    for typ in ('BD', '11', 'BC', 'XX'):
        case('registry/msg/%s/%s' % (code, typ),
             lambda c, t: Registry().getErrorMessage('0x' + c, t), code, typ)
        case('registry/det/%s/%s' % (code, typ), err_details, code, typ, W)
case('registry/det/short', err_details, '2001', 'BD', W[:5])

for creator in ('O', 'B', 'H', 'X', '', 'M'):
    for comp in (0x2000, 0xE500, 0xABCD, 0xABCF, 0x0100, 0x4142, 0x4100,
                 0x0041, 0, 0xFFFF, 0x12345, 5):
        case('compid/%s/%X' % (creator, comp), CID.getDisplayCompID, comp,
             creator)
case('compid/again', CID.getAllCreatorsCompIDs)
case('compid/state', lambda: [sorted(CID.componentIDs),
                              CID.attemptedToParseCompIDs])

# ParseUserData grid
ud_datas = [b'', b'\x01\x02\x03', b'{"a": 1}', b'text\nline\x00\x00',
            b'\xff\xfe', bytes(range(40))]
for creator in ('O', 'B', 'M', 'X', '\xe9'):
    comps = {'O': (0x2000, 0xE500, 0x1234), 'B': tuple(
        0x0100 * k for k in range(1, 12)), 'M': (0x2C00,), 'X': (0x0001,),
        '\xe9': (0x2000,)}[creator]
    for comp in comps:
        for sub in (1, 2, 3, 4, 5, 72, 73, 84):
            if creator == 'B' and sub > 6:
                continue
            for di, d in enumerate(ud_datas):
                for plug in (True, False):
                    if not plug and (sub > 3 or comp not in (0x2000, 0x0100,
                                                             0x0200)):
                        continue
                    for wrap in ('b', 'mv'):
                        if wrap == 'mv' and di % 2:
                            continue
                        dd = d if wrap == 'b' else memoryview(d)
                        cid = 'pud/%r/%04X/%d/%d/%s/%s' % (
                            creator, comp, sub, di, plug, wrap)
                        case(cid, lambda *a: ParseUserData(*a[:5]).parse(
                            a[5]), creator, comp, sub, 2, dd,
                            mkconfig(allow_plugins=plug))
case('pud/getvalue', lambda: [get_value(memoryview(bytes(range(10))), s, e)
                              for s in (0, 3, 9, 12) for e in (0, 1, 4)])

# ---- directory level functions (in-process, scratch copies)
src_dir = os.path.join(corpus_dir, 'cli')


def fresh(tag):
    d = os.path.join(scratch_dir, tag)
    if os.path.isdir(d):
        shutil.rmtree(d)
    shutil.copytree(src_dir, os.path.join(d, 'pels'))
    os.makedirs(os.path.join(d, 'pels', 'subdir'))
    shutil.copy(os.path.join(src_dir, sorted(os.listdir(src_dir))[0]),
                os.path.join(d, 'pels', 'subdir', 'nested_50000001'))
    os.makedirs(os.path.join(d, 'out'))
    return d


def snapshot(d):
    res = []
    for root, dirs, files in os.walk(d):
        dirs.sort()
        for f in sorted(files):
            p = os.path.join(root, f)
            with open(p, 'rb') as fh:
                res.append([os.path.relpath(p, d),
                            hashlib.sha1(fh.read()).hexdigest()])
    return res


def in_dir(tag, fn):
    d = fresh(tag)
    old = os.getcwd()
    os.chdir(d)
    try:
        r = None
        try:
            r = fn()
        except BaseException as e:  # noqa
            r = [type(e).__name__, str(e)]
        return [norm(r), snapshot(d)]
    finally:
        os.chdir(old)
        shutil.rmtree(d)


cli_files = sorted(os.listdir(src_dir))
some = [cli_files[0], cli_files[1], cli_files[len(cli_files) // 2],
        cli_files[-1]]

dir_cases = {
    'getFileList': lambda: [PT.getFileList('pels', None),
                            PT.getFileList('pels', '.pel', True),
                            PT.getFileList('pels', '', True),
                            PT.getFileList('nonexistent', None),
                            PT.getFileList('out', None)],
    'deleteAll': lambda: PT.deleteAllPELs('pels'),
    'deleteAll_missing': lambda: PT.deleteAllPELs('nonexistent'),
    'deleteId': lambda: PT.deletePELFromPELId('pels', '0x50000001'),
    'deleteId_sub': lambda: PT.deletePELFromPELId('pels', '5000'),
    'deleteId_none': lambda: PT.deletePELFromPELId('pels', '12345678'),
    'deleteId_missingdir': lambda: PT.deletePELFromPELId('nope', '12345678'),
    'fromID': lambda: PT.parsePelFromID('pels', mkconfig(pelID='50000001')),
    'fromID_hex': lambda: PT.parsePelFromID('pels', mkconfig(
        pelID='0x50000002', hex=True)),
    'fromID_none': lambda: PT.parsePelFromID('pels', mkconfig(
        pelID='AAAAAAAA')),
    'fromBmc': lambda: PT.parsePelFromBmcID('pels', mkconfig(bmcID='17')),
    'fromBmc1': lambda: PT.parsePelFromBmcID('pels', mkconfig(bmcID='1',
                                                              hex=True)),
    'fromBmc_none': lambda: PT.parsePelFromBmcID('pels', mkconfig(
        bmcID='999')),
    'plid': lambda: PT.parsePelFromPLID('pels', mkconfig(plid='50000001')),
    'plid_hex': lambda: PT.parsePelFromPLID('pels', mkconfig(
        plid='0x50000002', hex=True, rev=True)),
    'src': lambda: PT.parsePelFromSRCID('pels', mkconfig(src='BD8D2000')),
    'src_hex': lambda: PT.parsePelFromSRCID('pels', mkconfig(src='BC8A',
                                                              hex=True)),
    'src_long': lambda: PT.parsePelFromSRCID('pels', mkconfig(src='B' * 33)),
    'src_excl': lambda: PT.parsePelFromSRCID('pels', mkconfig(
        srcExcludeFile='excl.txt', every_pel=True)),
    'src_both': lambda: PT.parsePelFromSRCID('pels', mkconfig(
        src='BD8D', srcExcludeFile='excl.txt')),
    'src_both_hex': lambda: PT.parsePelFromSRCID('pels', mkconfig(
        src='BD8D', srcExcludeFile='excl.txt', hex=True, extension='')),
    'src_neither': lambda: PT.parsePelFromSRCID('pels', mkconfig()),
    'src_excl_missing': lambda: PT.parsePelFromSRCID('pels', mkconfig(
        srcExcludeFile='missing.txt')),
    'list': lambda: PT.listOption('pels', mkconfig()),
    'list_hex_rev': lambda: PT.listOption('pels', mkconfig(hex=True,
                                                           rev=True)),
    'list_every': lambda: PT.listOption('pels', mkconfig(every_pel=True)),
    'count': lambda: PT.printPELCount('pels', mkconfig()),
    'count_every': lambda: PT.printPELCount('pels', mkconfig(every_pel=True,
                                                             rev=True)),
    'all': lambda: PT.extractAllPELsData('pels', mkconfig()),
    'all_hex': lambda: PT.extractAllPELsData('pels', mkconfig(hex=True)),
    'all_empty': lambda: PT.extractAllPELsData('out', mkconfig()),
    'all_every_rev': lambda: PT.extractAllPELsData('pels', mkconfig(
        every_pel=True, rev=True, allow_plugins=False)),
    'hexfmt': lambda: [PT.printPELInHexFormat(b'abc'),
                       PT.printPELInHexFormat(memoryview(b'')),
                       PT.printPELInHexFormat(None)],
}
for f in some:
    p = os.path.join('pels', f)
    dir_cases['print/' + f] = lambda p=p: PT.parseAndPrintPELFile(
        p, mkconfig(every_pel=True), False)
    dir_cases['print_hex/' + f] = lambda p=p: PT.parseAndPrintPELFile(
        p, mkconfig(hex=True), False)
    dir_cases['print_eoe/' + f] = lambda p=p: PT.parseAndPrintPELFile(
        p, mkconfig(), True)
    dir_cases['summ/' + f] = lambda p=p: [
        PT.extractAndSummarizePEL(p, mkconfig(every_pel=True)),
        PT.extractAndSummarizePEL(p, mkconfig(every_pel=True, hex=True))]
    dir_cases['write/' + f] = lambda p=p: PT.parseAndWriteOutput(
        p, 'out', mkconfig(every_pel=True), False)
    dir_cases['write_del/' + f] = lambda p=p: PT.parseAndWriteOutput(
        p, 'out', mkconfig(), True)
    dir_cases['write_baddir/' + f] = lambda p=p: PT.parseAndWriteOutput(
        p, 'no_such_dir', mkconfig(every_pel=True), True)
dir_cases['print/missing'] = lambda: PT.parseAndPrintPELFile(
    'pels/missing', mkconfig(), False)
dir_cases['write/missing'] = lambda: PT.parseAndWriteOutput(
    'pels/missing', 'out', mkconfig(), True)
dir_cases['summ/missing'] = lambda: PT.extractAndSummarizePEL(
    'pels/missing', mkconfig())

for tag, fn in dir_cases.items():
    def run(tag=tag, fn=fn):
        d_tag = tag.replace('/', '_')

        def inner():
            with open('excl.txt', 'w') as f:
                f.write('BD8D2000\nBC8A2003 \n')
            return fn()
        return in_dir(d_tag, inner)
    case('dir/' + tag, run)

# ---------------------------------------------------------------- io_drawer
from io_drawer import utils as IU, hlog as IH, ilog as IL, trace as IT  # noqa
from io_drawer import dump as IDP  # noqa: E402
from io_drawer.drawer_type import MEX_DRAWER_TYPE, NIMITZ_DRAWER_TYPE, \
    DRAWER_TYPES  # noqa: E402
from udparsers.m2c00 import m2c00 as M2  # noqa: E402

case('ts/all', lambda: [IU.format_timestamp(t) for t in
                        list(range(-2, 70)) + list(range(3590, 3610)) +
                        list(range(0xFFF0, 0x10003)) + [35999, 36000, 1e3]])

syn_h = os.path.join(corpus_dir, 'syn_pte.h')
syn_s = os.path.join(corpus_dir, 'synStringFile')
empty_f = os.path.join(corpus_dir, 'empty')
headers = {'mex': MEX_DRAWER_TYPE.get_header_file_path(),
           'nim': NIMITZ_DRAWER_TYPE.get_header_file_path(),
           'syn': syn_h, 'empty': empty_f,
           'missing': os.path.join(corpus_dir, 'nope.h')}
strfiles = {'mex': MEX_DRAWER_TYPE.get_trace_string_file_path(),
            'nim': NIMITZ_DRAWER_TYPE.get_trace_string_file_path(),
            'syn': syn_s, 'empty': empty_f,
            'missing': os.path.join(corpus_dir, 'nope.s')}

case('drawer/types', lambda: [[d.name, d.header_file_name, d.string_file_name,
                               d.user_data_version,
                               os.path.basename(d.get_header_file_path()),
                               os.path.basename(
                                   d.get_trace_string_file_path())]
                              for d in DRAWER_TYPES])
case('drawer/names', IDP._get_drawer_type_names)
for nm in ('mex', 'nimitz', 'foo', '', None):
    case('drawer/get/%s' % nm,
         lambda n: getattr(IDP._get_drawer_type(n), 'name', None), nm)
for v in (0, 1, 2, 3, None):
    case('m2/get/%s' % v, lambda n: M2._get_drawer_type(n).name, v)

for hn, hp in headers.items():
    case('hlog/fields/%s' % hn,
         lambda p: [[f.name, f.size] for f in IH.get_hlog_fields(p)], hp)

    def tbl(p):
        t = IL.PTETable(p)
        return [[e.pte_pattern, e.message_format, e.params, e.file, e.line,
                 e.pte_re.pattern] for e in t.entries]
    case('ilog/table/%s' % hn, tbl, hp)
    for i, n in enumerate((0, 1, 2, 3, 7, 16, 150, 400)):
        d = rbytes(n)
        case('hlog/parse/%s/%d' % (hn, i), IH.parse_hlog_data, memoryview(d),
             hp)
        case('hlog/parse0/%s/%d' % (hn, i), IH.parse_hlog_data,
             memoryview(bytes(n)), hp)

ptes = [0x01040000, 0x10010003, 0x100100FF, 0x02004142, 0xE2082690,
        0xE20C2690, 0xE30ABCD1, 0xE30EBCD1, 0x03001234, 0xE4ABCDEF,
        0xE4AFCDEF, 0x05123456, 0x06000000, 0x07000000, 0x12345678, 0,
        0xFFFFFFFF, 0x010000AB, 0x01014131, 0xE00800AC, 0xE00C00AC,
        0x15B01234, 0xE0040000, 0x1FFFFFFFF, -1]
for hn in ('mex', 'nim', 'syn'):
    def entry_info(p):
        t = IL.PTETable(p)
        res = []
        for pte in ptes:
            try:
                e = t.get_entry(pte)
                if e is None:
                    res.append(None)
                else:
                    res.append([e.pte_pattern, e.get_message(pte),
                                e.matches(pte), e._is_exact_match(pte),
                                e._is_reported_error_pte(pte)])
            except BaseException as ex:  # noqa
                res.append([type(ex).__name__, str(ex)])
        return res
    case('ilog/entries/%s' % hn, entry_info, headers[hn])
    d = b''.join(C.ilog_entry(i * 977, i, p & 0xFFFFFFFF)
                 for i, p in enumerate(ptes))
    for cut in (0, 1, 3, 5, 7):
        case('ilog/parse/%s/%d' % (hn, cut), IL.parse_ilog_data,
             memoryview(d[:len(d) - cut]), headers[hn])
    for i in range(6):
        case('ilog/rnd/%s/%d' % (hn, i), IL.parse_ilog_data,
             memoryview(rbytes(rnd.choice((0, 7, 8, 9, 64, 203)))),
             headers[hn])
for hn in ('empty', 'missing'):
    case('ilog/parse/%s' % hn, IL.parse_ilog_data, memoryview(rbytes(32)),
         headers[hn])

for i, (pat, fmt, params) in enumerate([
        ('01**0000', 'a %d', (2,)), ('0100', 'short', ()),
        ('E1******', 'e %d %d', (0, 1, 4, 5, 2)), ('********', '%s', (1,)),
        ('(', 'bad re', ()), ('0[12]000000', 'cls', ()),
        ('abcdef**', '%c%c%c', (1, 2, 3))]):
    def te(pat, fmt, params):
        e = IL.PTETableEntry(pat, fmt, params, 'f.cpp', 10)
        return [e.params, e.pte_re.pattern] + [
            [e.matches(p), e.get_message(p)] for p in
            (0x01AB0000, 0x0100, 0xE1040000, 0xE1000000, 0xABCDEF12,
             0x01000000, 0x02000000)]
    case('ilog/entry/%d' % i, te, pat, fmt, params)


def add_entry(fields):
    t = IL.PTETable(empty_f)
    t._add_entry(fields)
    return [[e.pte_pattern, e.message_format, e.params, e.file, e.line]
            for e in t.entries]


for i, f in enumerate([
        ('0200****', ' PEROM %c%c  ', '3, 4', 'states.cpp', '254'),
        ('0200****', r'a \"q\" ', '', 's.cpp', '1'),
        ('1', '2', '3', '4'), ('1', '2', '3', '4', 'x'),
        ('1', 'm', '12, 3,x, ٣', 'f', '007'), ()]):
    case('ilog/add/%d' % i, add_entry, f)

# trace strings
for sn, sp in strfiles.items():
    def tsf(p):
        f = IT.TraceStringFile(p)
        res = [len(f.trace_strings)]
        res += [[t.hash_value, t.message_format, t.location]
                for t in f.trace_strings[:30]]
        for h in (32403714, 32503714, 48602109, 100000001, 12345, 54321,
                  7, 600000007, 900000007, 0, -1, 800000008):
            t = f.get_trace_string(h)
            res.append(None if t is None else
                       [t.hash_value, t.is_match(h), t.is_partial_match(h)])
        return res
    case('trace/strfile/%s' % sn, tsf, sp)


def add_ts(fields):
    f = IT.TraceStringFile(empty_f)
    f._add_trace_string(fields)
    return [[t.hash_value, t.message_format, t.location]
            for t in f.trace_strings]


for i, f in enumerate([('103402736', ' msg %d ', ' loc '), ('  5  ', '', ''),
                       ('1', '2'), ('x', 'y', 'z'), ('1', '2', '3', '4')]):
    case('trace/add/%d' % i, add_ts, f)

for i, (fmt, args) in enumerate([
        ('plain', ()), ('%d', (1,)), ('%d %d', (1,)), ('%d', (1, 2)),
        ('%s %c', (65, 66)), ('100%', ()), ('%c', (0x110000,)),
        ('%X %x %u', (255, 255, 7)), ('%5.2f', (3,))]):
    case('trace/msg/%d' % i,
         lambda f, a: IT.TraceString(1, f, 'l').get_message(a), fmt, args)

FT, FB = 0x4654, 0x4644
entries_ok = [
    C.trace_entry(10, 1, FT, 32403714, 324, struct.pack('>II', 5, 6)),
    C.trace_entry(11, 2, FB, 1, 2, b'\x01\x02\x03'),
    C.trace_entry(0xFFFF, 3, FT, 32503714, 325, struct.pack('>II', 7, 8)),
    C.trace_entry(3700, 4, FT, 100000001, 1, b''),
    C.trace_entry(12, 5, FT, 200012345, 99999, struct.pack('>7I', *range(7))),
    C.trace_entry(13, 6, FT, 300012345, 123456, struct.pack('>5I',
                                                            *range(5))),
    C.trace_entry(14, 7, FT, 999, 7, b'\xAA' * 6),
    C.trace_entry(15, 8, 0x1234, 500054321, 5, struct.pack('>I', 65)),
    C.trace_entry(16, 9, FT, 400054321, 5, b'ab'),
    C.trace_entry(17, 10, FT, 48602109, 486, struct.pack('>I', 66)),
    C.trace_entry(18, 11, FB, 600000007, 6, b'\x01' * 17),
]
bufs = {
    'ok': C.trace_buffer(b'INFO', entries_ok),
    'empty': C.trace_buffer(b'FANS', []),
    'size_small': C.trace_buffer(b'POWR', entries_ok, size=60),
    'size_zero': C.trace_buffer(b'POWR', entries_ok, size=0),
    'size_big': C.trace_buffer(b'IICS', entries_ok[:2], size=100000),
    'bad_len': C.trace_buffer(b'IICM', [entries_ok[0], C.trace_entry(
        1, 1, FT, 1, 1, b'abcd', length=2000), entries_ok[1]], size=5000),
    'bad_size': C.trace_buffer(b'ERRL', [entries_ok[0], C.trace_entry(
        1, 1, FT, 1, 1, b'abcd', size_delta=4), entries_ok[1]], size=5000),
    'len_gt': C.trace_buffer(b'ERRL', [C.trace_entry(
        1, 1, FT, 1, 1, b'abcd', length=64)], size=5000),
    'name_pad': C.trace_buffer(b'AB \xff\x80 \0 ', entries_ok[:1]),
    'maxlen': C.trace_buffer(b'INFO', [C.trace_entry(
        1, 1, FB, 1, 1, bytes(1024)), C.trace_entry(1, 2, FB, 1, 1,
                                                    bytes(1025))]),
    'hdr_only_31': C.trace_header(b'INFO', 32)[:31],
    'nothing': b'',
}
for bn, b in bufs.items():
    for sn in ('mex', 'syn', 'empty'):
        case('trace/parse/%s/%s' % (bn, sn), IT.parse_trace_data,
             memoryview(b), strfiles[sn])
b = bufs['ok']
for cut in list(range(1, 60, 3)) + [100, 150]:
    case('trace/cut/%d' % cut, IT.parse_trace_data,
         memoryview(b[:len(b) - cut]), strfiles['syn'])
for i in range(25):
    bb = bytearray(b)
    for _ in range(rnd.choice((1, 2, 5))):
        bb[rnd.randrange(len(bb))] = rnd.randrange(256)
    case('trace/corrupt/%d' % i, IT.parse_trace_data, memoryview(bytes(bb)),
         strfiles['syn'])
for i in range(8):
    case('trace/rnd/%d' % i, IT.parse_trace_data,
         memoryview(rbytes(rnd.choice((0, 31, 32, 33, 80, 200)))),
         strfiles['mex'])
case('trace/missing', IT.parse_trace_data, memoryview(b), strfiles['missing'])


def entry_direct(d):
    e = IT.TraceEntry()
    st = DataStream(memoryview(d), byte_order='big', is_signed=False)
    ok = e.read(st)
    return [ok, st.index, e.tbh, e.tbl, e.length, e.tag, e.hash_value, e.line,
            None if e.data is None else bytes(e.data).hex(), e.get_args(),
            e.is_binary_trace()]


for i, e in enumerate(entries_ok):
    case('trace/entry/%d' % i, entry_direct, e)
    case('trace/entry_cut/%d' % i, entry_direct, e[:-2])
    case('trace/entry_cut2/%d' % i, entry_direct, e[:17])
case('trace/entry_new', lambda: [IT.TraceEntry().get_args(),
                                 IT.TraceEntry().is_binary_trace()])


def fmt_entry(d, sp):
    e = IT.TraceEntry()
    e.read(DataStream(memoryview(d), byte_order='big', is_signed=False))
    lines = ['pre']
    IT._format_trace_entry(e, IT.TraceStringFile(sp), lines)
    return lines


for i, e in enumerate(entries_ok):
    for sn in ('syn', 'mex', 'empty'):
        case('trace/fmt/%d/%s' % (i, sn), fmt_entry, e, strfiles[sn])


def hdr_direct(d):
    h = IT.TraceBufferHeader()
    st = DataStream(memoryview(d), byte_order='big', is_signed=False)
    ok = h.read(st)
    return [ok, st.index, h.ver, h.hdr_len, h.time_flg, h.endian_flg, h.comp
            if not isinstance(h.comp, memoryview) else 'mv', h.size,
            h.times_wrap, h.next_free]


for bn, b2 in bufs.items():
    case('trace/hdr/%s' % bn, hdr_direct, b2)

# dumps
ilog_d = b''.join(C.ilog_entry(i * 977, i, p & 0xFFFFFFFF)
                  for i, p in enumerate(ptes[:12]))
dumps = {
    'ilog_only': ilog_d,
    'one_buf': ilog_d + bufs['ok'],
    'two_bufs': ilog_d + bufs['empty'] + bufs['ok'],
    'rev_order': ilog_d + C.trace_buffer(b'ERRL', entries_ok[:2]) +
    C.trace_buffer(b'IICS', entries_ok[2:4]) +
    C.trace_buffer(b'POWR', entries_ok[4:6]),
    'dup_name': ilog_d + C.trace_buffer(b'INFO', entries_ok[:1]) +
    C.trace_buffer(b'INFO', entries_ok[1:2]),
    'no_ilog': bufs['ok'],
    'unaligned': ilog_d[:-3] + bufs['ok'] + b'\x01\x02\x03',
    'unknown_name': ilog_d + C.trace_buffer(b'ZZZZ', entries_ok[:2]),
    'hdr_bytes_in_ilog': b'\x02\x20\x01\x42INFO' + ilog_d,
    'empty': b'',
    'one': b'\x00',
}
for dn, d in dumps.items():
    for hn, sn in (('mex', 'mex'), ('syn', 'syn'), ('nim', 'empty')):
        case('dump/data/%s/%s' % (dn, hn), IDP.parse_dump_data,
             memoryview(d), headers[hn], strfiles[sn])
    case('dump/data_missing/%s' % dn, IDP.parse_dump_data, memoryview(d),
         headers['missing'], strfiles['missing'])
    for fmt in ('bmc', 'pre', 'plain'):
        case('dump/file/%s/%s' % (dn, fmt), IDP.parse_dump_file,
             os.path.join(corpus_dir, 'dumps', '%s.%s' % (dn, fmt)),
             headers['syn'], strfiles['syn'])
case('dump/file/missing', IDP.parse_dump_file,
     os.path.join(corpus_dir, 'dumps', 'nope'), headers['syn'],
     strfiles['syn'])
for i in range(10):
    d = bytearray(dumps['two_bufs'])
    for _ in range(3):
        d[rnd.randrange(len(d))] = rnd.randrange(256)
    case('dump/corrupt/%d' % i, IDP.parse_dump_data, memoryview(bytes(d)),
         headers['syn'], strfiles['syn'])


def fmt_section(fn, d, path):
    lines = ['pre']
    r = None
    try:
        r = fn(memoryview(d), lines, path)
    except BaseException as e:  # noqa
        r = [type(e).__name__, str(e)]
    return [r, lines]


case('dump/fmt_ilog', fmt_section, IDP._format_ilog_data, ilog_d,
     headers['syn'])
case('dump/fmt_ilog_missing', fmt_section, IDP._format_ilog_data, ilog_d,
     headers['missing'])
case('dump/fmt_trace', fmt_section, IDP._format_trace_data, bufs['ok'],
     strfiles['syn'])
case('dump/fmt_trace_missing', fmt_section, IDP._format_trace_data,
     bufs['ok'], strfiles['missing'])

# m2c00 user data parser
for ver in (1, 2, 3):
    for sub, d in ((72, rbytes(50)), (73, ilog_d), (84, bufs['ok']),
                   (1, b'\x01\x02'), (72, b''), (73, b''), (84, b''),
                   (0, b''), (84, bufs['ok'][:40])):
        case('m2/%d/%d/%d' % (ver, sub, len(d)), M2.parseUDToJson, sub, ver,
             memoryview(d))

with open(out_path, 'w') as f:
    json.dump(RESULTS, f)
