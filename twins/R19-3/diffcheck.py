#!/usr/bin/env python3
"""
Differential check between a pristine and a patched tree of
openpower-pel-parsers.

usage: diffcheck.py <pristine_root> <patched_root>

Needs dc_corpus.py and dc_driver.py next to this file.

 * builds a deterministic corpus of binary PELs (well-formed, truncated,
   corrupted, random), IO drawer dumps / trace buffers / ilog data, synthetic
   header + string files and a set of fake plugin modules,
 * runs an in-process driver (dc_driver.py) against each tree in separate
   subprocesses (PYTHONPATH selects the tree), with and without the fake
   registry/plugins and with and without `python -O`,
 * runs the peltool.py and io_drawer/dump.py command lines with many option
   combinations and compares stdout, stderr, exit status and the resulting
   directory contents.

Prints "IDENTICAL (<n> cases)" and exits 0 if everything matches.
"""
import hashlib
import json
import os
import re
import shutil
import subprocess
import sys

HERE = os.path.dirname(os.path.abspath(__file__))
sys.path.insert(0, HERE)
import dc_corpus as C  # noqa: E402

PY = sys.executable


def build_corpus(work):
    corpus = os.path.join(work, 'corpus')
    os.makedirs(os.path.join(corpus, 'all'))
    os.makedirs(os.path.join(corpus, 'cli'))
    os.makedirs(os.path.join(corpus, 'dumps'))
    base, extra = C.build_pel_corpus()
    for name, data in base + extra:
        with open(os.path.join(corpus, 'all', name), 'wb') as f:
            f.write(data)
    # CLI directory: every base file + a sample of the mutated ones; some get
    # an extension so that -e can be exercised.
    cli = [b for b in base if 'co_proc_Y' not in b[0]] + extra[::17]
    for i, (name, data) in enumerate(cli):
        ext = '.pel' if i % 3 == 0 else ('.txt' if i % 7 == 0 else '')
        with open(os.path.join(corpus, 'cli', name + ext), 'wb') as f:
            f.write(data)
    with open(os.path.join(corpus, 'syn_pte.h'), 'w') as f:
        f.write(C.SYN_HEADER)
    with open(os.path.join(corpus, 'synStringFile'), 'w') as f:
        f.write(C.SYN_STRINGS)
    open(os.path.join(corpus, 'empty'), 'w').close()
    fake = os.path.join(work, 'fake')
    C.write_fake(fake)
    return corpus, fake


def write_dumps(corpus):
    """Dump files are produced by a tiny helper run of the driver's data; to
    keep it simple they are generated here from the same builders."""
    import struct
    FT, FB = 0x4654, 0x4644
    ptes = [0x01040000, 0x10010003, 0x100100FF, 0x02004142, 0xE2082690,
            0xE20C2690, 0xE30ABCD1, 0xE30EBCD1, 0x03001234, 0xE4ABCDEF,
            0xE4AFCDEF, 0x05123456]
    ilog_d = b''.join(C.ilog_entry(i * 977, i, p) for i, p in enumerate(ptes))
    ents = [
        C.trace_entry(10, 1, FT, 32403714, 324, struct.pack('>II', 5, 6)),
        C.trace_entry(11, 2, FB, 1, 2, b'\x01\x02\x03'),
        C.trace_entry(0xFFFF, 3, FT, 32503714, 325, struct.pack('>II', 7, 8)),
        C.trace_entry(3700, 4, FT, 100000001, 1, b''),
        C.trace_entry(12, 5, FT, 200012345, 99999,
                      struct.pack('>7I', *range(7))),
        C.trace_entry(14, 7, FT, 999, 7, b'\xAA' * 6),
    ]
    ok = C.trace_buffer(b'INFO', ents)
    dumps = {
        'ilog_only': ilog_d,
        'one_buf': ilog_d + ok,
        'two_bufs': ilog_d + C.trace_buffer(b'FANS', []) + ok,
        'rev_order': ilog_d + C.trace_buffer(b'ERRL', ents[:2]) +
        C.trace_buffer(b'IICS', ents[2:4]) +
        C.trace_buffer(b'POWR', ents[4:6]),
        'dup_name': ilog_d + C.trace_buffer(b'INFO', ents[:1]) +
        C.trace_buffer(b'INFO', ents[1:2]),
        'no_ilog': ok,
        'unaligned': ilog_d[:-3] + ok + b'\x01\x02\x03',
        'unknown_name': ilog_d + C.trace_buffer(b'ZZZZ', ents[:2]),
        'hdr_bytes_in_ilog': b'\x02\x20\x01\x42INFO' + ilog_d,
        'empty': b'',
        'one': b'\x00',
    }
    for name, d in dumps.items():
        for fmt, fn in (('bmc', C.hexdump_bmc), ('pre', C.hexdump_prebmc)):
            with open(os.path.join(corpus, 'dumps', '%s.%s' % (name, fmt)),
                      'w') as f:
                f.write('header line\n')
                for ln in fn(d):
                    f.write(ln + '\n')
                f.write('\n')
        with open(os.path.join(corpus, 'dumps', '%s.plain' % name), 'w') as f:
            f.write(d.hex() + '\n')
    return sorted(dumps)


def env_for(root, fake, with_reg):
    env = dict(os.environ)
    paths = [os.path.join(root, 'modules')]
    if with_reg:
        paths.append(fake)
    env['PYTHONPATH'] = os.pathsep.join(paths)
    env['PYTHONDONTWRITEBYTECODE'] = '1'
    env['PYTHONHASHSEED'] = '0'
    env['COLUMNS'] = '100'
    env.pop('PYTHONOPTIMIZE', None)
    return env


def normalise(text, roots):
    for r in roots:
        text = text.replace(r, '<ROOT>')
    if 'Traceback (most recent call last)' in text:
        # line numbers / source lines legitimately differ between the trees:
        # keep everything except the frames of the traceback
        out = []
        skipping = False
        for ln in text.split('\n'):
            if ln.startswith('Traceback (most recent call last)'):
                skipping = True
                out.append(ln)
                continue
            if skipping:
                if ln.startswith(' '):
                    continue
                skipping = False
            out.append(ln)
        text = '\n'.join(out)
    return text


def run_driver(root, corpus, fake, work, tag, with_reg, opt):
    out = os.path.join(work, 'res_%s.json' % tag)
    scratch = os.path.join(work, 'scratch')   # same path for both trees
    if os.path.isdir(scratch):
        shutil.rmtree(scratch)
    os.makedirs(scratch)
    cmd = [PY] + (['-O'] if opt else []) + [
        os.path.join(HERE, 'dc_driver.py'), corpus,
        fake if with_reg else '-', scratch, out]
    p = subprocess.run(cmd, env=env_for(root, fake, with_reg), cwd=scratch,
                       stdout=subprocess.PIPE, stderr=subprocess.PIPE,
                       text=True)
    if p.returncode != 0:
        print('driver failed for %s:\n%s\n%s' % (tag, p.stdout, p.stderr))
        sys.exit(2)
    with open(out) as f:
        return json.load(f), p.stdout + p.stderr


RUN_CLI = r'''
import os, runpy, sys
fake = sys.argv[1]
script = sys.argv[2]
if fake != '-':
    import udparsers, srcparsers, calloutparsers
    udparsers.__path__.append(os.path.join(fake, 'udparsers'))
    srcparsers.__path__.append(os.path.join(fake, 'srcparsers'))
    calloutparsers.__path__.append(os.path.join(fake, 'calloutparsers'))
sys.argv = [os.path.basename(script)] + sys.argv[3:]
runpy.run_path(script, run_name='__main__')
'''


def snapshot(d):
    res = []
    for root, dirs, files in os.walk(d):
        dirs.sort()
        for f in sorted(files):
            p = os.path.join(root, f)
            with open(p, 'rb') as fh:
                res.append((os.path.relpath(p, d),
                            hashlib.sha1(fh.read()).hexdigest()))
        for dd in dirs:
            res.append((os.path.relpath(os.path.join(root, dd), d), 'dir'))
    return res


def run_cli(root, script_rel, args, corpus, fake, work, with_reg, opt,
            roots):
    run = os.path.join(work, 'run')          # same path for both trees
    if os.path.isdir(run):
        shutil.rmtree(run)
    os.makedirs(run)
    shutil.copytree(os.path.join(corpus, 'cli'), os.path.join(run, 'pels'))
    os.makedirs(os.path.join(run, 'pels', 'subdir'))
    first = sorted(os.listdir(os.path.join(corpus, 'cli')))[0]
    shutil.copy(os.path.join(corpus, 'cli', first),
                os.path.join(run, 'pels', 'subdir', 'nested_50000001'))
    os.makedirs(os.path.join(run, 'out'))
    os.makedirs(os.path.join(run, 'emptydir'))
    shutil.copytree(os.path.join(corpus, 'dumps'), os.path.join(run, 'dumps'))
    shutil.copy(os.path.join(corpus, 'syn_pte.h'), run)
    shutil.copy(os.path.join(corpus, 'synStringFile'), run)
    with open(os.path.join(run, 'excl.txt'), 'w') as f:
        f.write('BD8D2000\nBC8A2003\n')
    launcher = os.path.join(work, 'run_cli.py')
    if not os.path.exists(launcher):
        with open(launcher, 'w') as f:
            f.write(RUN_CLI)
    cmd = [PY] + (['-O'] if opt else []) + [
        launcher, fake if with_reg else '-',
        os.path.join(root, script_rel)] + args
    p = subprocess.run(cmd, env=env_for(root, fake, with_reg), cwd=run,
                       stdout=subprocess.PIPE, stderr=subprocess.PIPE,
                       stdin=subprocess.DEVNULL)
    res = {
        'rc': p.returncode,
        'out': normalise(p.stdout.decode('utf-8', 'replace'), roots),
        'err': normalise(p.stderr.decode('utf-8', 'replace'), roots),
        'fs': snapshot(run),
    }
    return res


def cli_matrix(corpus):
    files = sorted(os.listdir(os.path.join(corpus, 'cli')))
    full = [f for f in files if 'full_bmc' in f and f[0].isdigit()][0]
    trunc = [f for f in files if f.startswith('t')][0]
    corrupt = [f for f in files if f.startswith('c')][0]
    badph = [f for f in files if 'bad_ph_id' in f and f[0].isdigit()][0]
    P = ['-p', 'pels']
    m = []
    for opts in (['-l'], ['-l', '-E'], ['-lN'], ['-lH'], ['-lt'], ['-lsNH'],
                 ['-l', '-S', 'Informational', 'Critical'], ['-lHO'],
                 ['-lO', '-S', 'Critical'], ['-lx'], ['-lr'], ['-lEr'],
                 ['-l', '-e', '.pel'], ['-lE', '-e', '.txt', '-x'],
                 ['-l', '-e', 'pel'], ['-lNO', '-S', 'Recovered'],
                 ['-n'], ['-nE'], ['-nN'], ['-nH'], ['-nt'], ['-nsNH'],
                 ['-n', '-S', 'Informational'], ['-nHO'],
                 ['-nO', '-S', 'Predictive'], ['-nE', '-e', '.pel'],
                 ['-a'], ['-aE'], ['-aH'], ['-at'], ['-asNH'], ['-aEx'],
                 ['-aE', '-P'], ['-aEr', '-e', '.pel'],
                 ['-aO', '-S', 'Critical'], ['-aHO'],
                 ['-i', '50000001'], ['-i', '0x50000002', '-x'],
                 ['-i', '5000000'], ['-i', 'FFFFFFFF'], ['-i', '5000'],
                 ['--bmc-id', '17'], ['--bmc-id', '1', '-x'],
                 ['--bmc-id', '424242'],
                 ['--plid', '50000001'], ['--plid', '0x50000001', '-x'],
                 ['--plid', '50000001', '-E', '-r'], ['--plid', 'zz'],
                 ['--src', 'BD8D2000'], ['--src', 'BC8A', '-E', '-x'],
                 ['--src', 'B' * 33], ['--src', 'NOPE'],
                 ['--src-exclude', 'excl.txt'],
                 ['--src-exclude', 'excl.txt', '-E', '-x'],
                 ['--src-exclude', 'missing.txt'],
                 ['-j'], ['-j', '-o', 'out'], ['-j', '-c'],
                 ['-j', '-o', 'out', '-c', '-E'], ['-j', '-o', 'nonexist'],
                 ['-j', '-e', '.pel', '-o', 'out', '-E', '-P'],
                 ['-d', '50000001'], ['-d', '0x5000000A'], ['-d', '123'],
                 ['-d', 'EEEEEEEE'], ['-D'], [],
                 ['-l', '-S', 'Bogus']):
        m.append(P + opts)
    m += [['-p', 'emptydir', '-l'], ['-p', 'emptydir', '-a'],
          ['-p', 'emptydir', '-n'], ['-p', 'emptydir', '-D'],
          ['-p', 'emptydir', '-i', '50000001'],
          ['-p', 'emptydir', '--bmc-id', '1'], ['-p', 'emptydir', '-j'],
          ['-p', 'nonexistent', '-l'], ['-l'], ['--help'], [], ['-h', '-x']]
    for f in (full, trunc, corrupt, badph, 'missing_file'):
        fp = os.path.join('pels', f)
        m += [['-f', fp], ['-f', fp, '-x'], ['-f', fp, '-c'],
              ['-f', fp, '-E', '-P'], ['-f', fp, '-H', '-O', '-c']]
    return m


def dump_matrix(names):
    m = [[], ['--help'], ['dumps/one_buf.bmc'], ['dumps/one_buf.bmc', '-t',
                                                 'foo']]
    for n in names:
        for fmt in ('bmc', 'pre', 'plain'):
            fp = 'dumps/%s.%s' % (n, fmt)
            m.append([fp, '-t', 'mex'])
            if fmt == 'bmc':
                m.append([fp, '-t', 'nimitz', '-d', 'syn_pte.h', '-s',
                          'synStringFile'])
    m += [['dumps/nope', '-t', 'mex'],
          ['dumps/one_buf.bmc', '-t', 'mex', '-d', 'missing.h'],
          ['dumps/one_buf.bmc', '-t', 'mex', '-s', 'missing.s']]
    return m


def main():
    if len(sys.argv) != 3:
        print(__doc__)
        sys.exit(2)
    pristine = os.path.abspath(sys.argv[1])
    patched = os.path.abspath(sys.argv[2])
    roots = [pristine, patched]
    work = os.path.join(HERE, '_work')
    if os.path.isdir(work):
        shutil.rmtree(work)
    os.makedirs(work)
    diffs = []
    ncases = 0
    try:
        corpus, fake = build_corpus(work)
        dump_names = write_dumps(corpus)

        # ---- in-process driver
        fast = bool(os.environ.get('DIFFCHECK_FAST'))   # debugging aid only
        for with_reg in ((True,) if fast else (True, False)):
            for opt in ((False,) if fast else (False, True)):
                tag = 'reg%d_opt%d' % (with_reg, opt)
                a, la = run_driver(pristine, corpus, fake, work, 'a_' + tag,
                                   with_reg, opt)
                b, lb = run_driver(patched, corpus, fake, work, 'b_' + tag,
                                   with_reg, opt)
                if normalise(la, roots) != normalise(lb, roots):
                    diffs.append(('driver-output/' + tag, la, lb))
                for k in sorted(set(a) | set(b)):
                    ncases += 1
                    ra = json.loads(normalise(json.dumps(a.get(k)), roots))
                    rb = json.loads(normalise(json.dumps(b.get(k)), roots))
                    if ra != rb:
                        diffs.append((tag + '/' + k, ra, rb))

        # ---- command lines
        jobs = []
        for args in cli_matrix(corpus):
            jobs.append(('modules/pel/peltool/peltool.py', args, True, False))
        for args in cli_matrix(corpus)[::3]:
            jobs.append(('modules/pel/peltool/peltool.py', args, False,
                         False))
        for args in cli_matrix(corpus)[1::4]:
            jobs.append(('modules/pel/peltool/peltool.py', args, True, True))
        for args in dump_matrix(dump_names):
            jobs.append(('modules/io_drawer/dump.py', args, False, False))
        for args in dump_matrix(dump_names)[::4]:
            jobs.append(('modules/io_drawer/dump.py', args, False, True))
        if fast:
            jobs = jobs[::6]
        for script, args, with_reg, opt in jobs:
            ncases += 1
            ra = run_cli(pristine, script, args, corpus, fake, work,
                         with_reg, opt, roots)
            rb = run_cli(patched, script, args, corpus, fake, work,
                         with_reg, opt, roots)
            if ra != rb:
                diffs.append(('cli/%s %s reg=%s opt=%s' % (
                    os.path.basename(script), ' '.join(args), with_reg, opt),
                    ra, rb))
    finally:
        if not os.environ.get('DIFFCHECK_KEEP'):
            shutil.rmtree(work, ignore_errors=True)

    if diffs:
        for name, ra, rb in diffs[:20]:
            print('DIFF in', name)
            sa, sb = json.dumps(ra, indent=1)[:3000], \
                json.dumps(rb, indent=1)[:3000]
            print('  pristine:', sa)
            print('  patched :', sb)
        print('DIFFERENT (%d of %d cases differ)' % (len(diffs), ncases))
        sys.exit(1)
    print('IDENTICAL (%d cases)' % ncases)
    sys.exit(0)


if __name__ == '__main__':
    main()
