#!/usr/bin/env python
"""
Differential check for refactorings of modules/pel/peltool/peltool.py
(directory modes, file handling and main()).

usage: diffcheck.py <pristine_root> <patched_root>

Every case is executed once with the pristine tree and once with the patched
tree, each time in a freshly (and deterministically) built scratch directory.
Compared per case: stdout bytes, stderr (tracebacks reduced to their final
"Type: message" line since file names / line numbers legitimately differ),
exit status, and a snapshot of the scratch directory afterwards (files created /
removed and their contents).
"""
import hashlib
import json
import os
import random
import shutil
import struct
import subprocess
import sys
import tempfile
from concurrent.futures import ThreadPoolExecutor

PY = sys.executable

# --------------------------------------------------------------------------
# PEL builder
# --------------------------------------------------------------------------


def sec_hdr(sid, length, ver=1, sub=0, comp=0x2000):
    return sid + struct.pack('>HBBH', length, ver, sub, comp)


def bcd_time(y=0x2024, mo=0x01, d=0x02, h=0x03, mi=0x04, s=0x05):
    return struct.pack('>HBBBBBB', y, mo, d, h, mi, s, 0x06)


def private_header(eid, plid, obmc, nsec, creator=b'O', comp=0x2000, sid=b'PH'):
    body = bcd_time() + bcd_time(mi=0x30) + creator + b'\x00\x00' + bytes([nsec & 0xff])
    body += struct.pack('>IQII', obmc, 0x0102030405060708, plid, eid)
    return sec_hdr(sid, 48, 1, 0, comp) + body


def user_header(sev, flags, subsystem=0x10, scope=0x03, etype=0x00, states=0x0, comp=0x2000,
                sid=b'UH'):
    body = struct.pack('>BBBBIBBHI', subsystem, scope, sev, etype, 0, 0, 0, flags, states)
    return sec_hdr(sid, 24, 1, 0, comp) + body


def src_section(text, words=None, sid=b'PS', flags=0, wordcount=9, comp=0x2000, callouts=b''):
    words = words or [0x02, 0x11112222, 0, 0x03000000, 0x44, 0x55, 0x66, 0x77]
    ascii_ = text.encode().ljust(32, b' ')[:32]
    body = struct.pack('>BBBBHH', 2, flags, 0, wordcount, 0, 72 + len(callouts))
    body += b''.join(struct.pack('>I', w) for w in words) + ascii_ + callouts
    return sec_hdr(sid, 8 + len(body), 1, 1, comp) + body


def callout_section():
    fru = struct.pack('>HBB', 0x4944, 12, 0x28) + b'PN123456'
    loc = b'U78DA.ND1-P0'.ljust(12, b'\x00')
    co = struct.pack('>BBBB', 4 + len(loc) + len(fru), 0, ord('H'), len(loc)) + loc + fru
    return struct.pack('>BBH', 0xC0, 0, (4 + len(co)) // 4) + co


def ud_section(data, sub=1, comp=0x2000, sid=b'UD', ver=1):
    return sec_hdr(sid, 8 + len(data), ver, sub, comp) + data


def make_pel(eid, plid=None, obmc=1, sev=0x40, flags=0xA000, creator=b'O', src='BD8D1234',
             extra=(), nsec=None, ph_sid=b'PH', uh_sid=b'UH', comp=0x2000, src_flags=0,
             callouts=b''):
    plid = eid if plid is None else plid
    sections = []
    if src is not None:
        sections.append(src_section(src, comp=comp, flags=src_flags, callouts=callouts))
    sections.extend(extra)
    count = 2 + len(sections) if nsec is None else nsec
    out = private_header(eid, plid, obmc, count, creator, comp, ph_sid)
    out += user_header(sev, flags, comp=comp, sid=uh_sid)
    return out + b''.join(sections)


JSON_UD = ud_section(json.dumps({"Key A": "value", "Key \"B\": x": [1, 2, 3],
                                 "Nested": {"deep": True}}).encode() + b'\x00\x00')
TEXT_UD = ud_section(b'line one\nline two\x01\n', sub=3)
BAD_JSON_UD = ud_section(b'{not json', sub=1)
RAW_UD = ud_section(bytes(range(40)), sub=9, comp=0x1234)
UNKNOWN = sec_hdr(b'ZZ', 8 + 20, 1, 0, 0x4242) + bytes(range(100, 120))
EMPTY_UNKNOWN = sec_hdr(b'CH', 8, 1, 0, 0x4242)
SS = src_section('BD8D5678', sid=b'SS')


def good_files():
    """name -> bytes; well-formed PELs of many severities / action flags."""
    f = {}
    f['2024010100000000_50000001'] = make_pel(0x50000001, obmc=1, extra=[JSON_UD, RAW_UD])
    f['2024010100000001_50000002.pel'] = make_pel(0x50000002, obmc=2, sev=0x00, flags=0x0000,
                                                  src='BD8D0002', extra=[TEXT_UD])
    f['2024010100000002_50000003.pel'] = make_pel(0x50000003, obmc=3, sev=0x20, flags=0x6000,
                                                  src='BD8D0003', extra=[UNKNOWN, UNKNOWN])
    f['2024010100000003_50000004.txt'] = make_pel(0x50000004, obmc=4, sev=0x51, flags=0xA000,
                                                  src='BD8D0004', extra=[SS, SS, JSON_UD])
    f['2024010100000004_50000005.pel'] = make_pel(0x50000005, plid=0x50000001, obmc=5, sev=0x10,
                                                  flags=0x0000, src='11002200')
    f['2024010100000005_50000006'] = make_pel(0x50000006, obmc=6, sev=0x00, flags=0x8000,
                                              src='BC8A0006', creator=b'B', comp=0x0500)
    f['2024010100000006_5000000A.pel'] = make_pel(0x5000000A, obmc=10, sev=0x61, flags=0x2000,
                                                  src='B7001111', creator=b'H', comp=0x4848,
                                                  extra=[RAW_UD, EMPTY_UNKNOWN])
    # no primary SRC at all: the summary has no 'SRC' key
    f['2024010100000007_5000000B.pel'] = make_pel(0x5000000B, obmc=11, sev=0x40, flags=0xA000,
                                                  src=None, extra=[JSON_UD])
    # second file whose name contains the ID of the first one
    f['dup_50000001_copy.pel'] = make_pel(0x50000001, obmc=12, sev=0x71, flags=0x2000,
                                          src='BD8D0C0C')
    f['.hidden.pel'] = make_pel(0x5000000C, obmc=13, sev=0x40, flags=0x6000, src='BD8D0D0D')
    f['.pel'] = make_pel(0x5000000D, obmc=14, sev=0x23, flags=0xA000, src='BD8D0E0E')
    f['2024010100000008_5000000E.pel'] = make_pel(0x5000000E, obmc=15, sev=0x40, flags=0xA000,
                                                  src='BD8D0F0F', src_flags=1,
                                                  callouts=callout_section(), extra=[BAD_JSON_UD])
    return f


def bad_files():
    rnd = random.Random(1234)
    base = make_pel(0x60000001, obmc=21, extra=[JSON_UD, UNKNOWN])
    f = {}
    f['bad_empty_60000010.pel'] = b''
    f['bad_random_60000011.pel'] = bytes(rnd.randrange(256) for _ in range(300))
    f['bad_short_60000012'] = b'PH\x00'
    for n in (7, 8, 20, 47, 48, 55, 56, 71, 72, 80, 100, 151, 152, 160, len(base) - 1):
        f['bad_trunc%03d_600000%02X.pel' % (n, n & 0xff)] = base[:n]
    f['bad_phid_60000020.pel'] = make_pel(0x60000020, obmc=22, ph_sid=b'XX')
    f['bad_uhid_60000021.pel'] = make_pel(0x60000021, obmc=23, uh_sid=b'YY')
    f['bad_count_60000022.pel'] = make_pel(0x60000022, obmc=24, nsec=9)
    f['bad_count2_60000023.pel'] = make_pel(0x60000023, obmc=25, nsec=2, extra=[JSON_UD])
    f['bad_creator_60000024.pel'] = make_pel(0x60000024, obmc=26, creator=b'\xff')
    f['bad_seclen_60000025.pel'] = make_pel(0x60000025, obmc=27,
                                            extra=[sec_hdr(b'ZZ', 4, 1, 0, 1)])
    f['bad_nonascii_src_60000026.pel'] = make_pel(0x60000026, obmc=28, src=None,
                                                  extra=[src_section('BD8D').replace(b'BD8D', b'\xc3\x28\xa0\xa1')])
    for i in range(12):
        b = bytearray(base)
        for _ in range(rnd.randrange(1, 6)):
            b[rnd.randrange(len(b))] = rnd.randrange(256)
        f['bad_corrupt%02d_600001%02X.pel' % (i, i)] = bytes(b)
    for i in range(6):
        b = bytearray(base)
        # keep both headers valid, corrupt the rest
        for _ in range(rnd.randrange(1, 10)):
            b[rnd.randrange(72, len(b))] = rnd.randrange(256)
        f['bad_tail%02d_600002%02X' % (i, i)] = bytes(b)
    return f


def write_files(dest, files):
    os.makedirs(dest, exist_ok=True)
    for name in sorted(files):
        with open(os.path.join(dest, name), 'wb') as fd:
            fd.write(files[name])


def build_scenario(kind, work):
    """Populate the scratch directory 'work' (already exists, empty)."""
    logs = os.path.join(work, 'logs')
    os.makedirs(os.path.join(work, 'out'))
    with open(os.path.join(work, 'exclude.txt'), 'w') as fd:
        fd.write('BD8D1234\nBD8D0003 BD8D0F0F\n11002200\n')
    with open(os.path.join(work, 'exclude_empty.txt'), 'w') as fd:
        pass
    with open(os.path.join(work, 'afile'), 'w') as fd:
        fd.write('x')
    single = {}
    single.update(good_files())
    single.update(bad_files())
    write_files(os.path.join(work, 'single'), single)
    if kind == 'empty':
        os.makedirs(logs)
        return
    files = {}
    if kind in ('good', 'mixed', 'broken'):
        files.update(good_files())
    if kind in ('bad', 'mixed', 'broken'):
        files.update(bad_files())
    write_files(logs, files)
    # a sub directory (must be ignored), a symlink to it, a symlink to a file
    write_files(os.path.join(logs, 'sub'),
                {'2024010100000009_5000000F.pel': make_pel(0x5000000F, obmc=99)})
    os.symlink('sub', os.path.join(logs, 'linkdir.pel'))
    if kind != 'bad':
        os.symlink('2024010100000001_50000002.pel', os.path.join(logs, 'linkfile_7000000A.pel'))
    if kind == 'broken':
        os.symlink('does-not-exist', os.path.join(logs, 'zz_broken_7000000B.pel'))


# --------------------------------------------------------------------------
# In-process driver (runs inside a subprocess with PYTHONPATH of one tree)
# --------------------------------------------------------------------------

DRIVER = r'''
import json, os, sys
ops = json.loads(sys.argv[1])
import pel.peltool.peltool as pt
from pel.peltool.config import Config
from pel.datastream import DataStream

def mkconfig(d):
    c = Config()
    for k, v in d.items():
        setattr(c, k, v)
    return c

BMC = "/var/lib/phosphor-logging/extensions/pels/logs/"
for op in ops:
    kind = op[0]
    sys.stdout.flush()
    print("## " + json.dumps(op))
    try:
        if kind == "call":
            _, name, args, cfg = op
            args = list(args)
            if cfg is not None:
                args.append(mkconfig(cfg))
            r = getattr(pt, name)(*args)
            print("-> " + repr(r))
        elif kind == "callkw":
            _, name, args, cfg, extra = op
            r = getattr(pt, name)(*args, mkconfig(cfg), *extra)
            print("-> " + repr(r))
        elif kind == "summary":
            _, path, cfg = op
            with open(path, "rb") as fd:
                data = fd.read()
            print("-> " + repr(pt.parsePELSummary(DataStream(data, byte_order="big", is_signed=False), mkconfig(cfg))))
        elif kind == "main":
            sys.argv = ["/x/y/peltool.py"] + op[1]
            pt.main()
            print("-> main returned")
        elif kind == "bmcmain":
            real = os.path.isdir
            os.path.isdir = lambda p: True if p == BMC else real(p)
            try:
                sys.argv = ["peltool"] + op[1]
                pt.main()
                print("-> main returned")
            finally:
                os.path.isdir = real
    except SystemExit as e:
        print("-> SystemExit " + repr(e.code))
    except BaseException as e:
        print("-> EXC %s: %s" % (type(e).__name__, e))
    sys.stdout.flush()
'''


# --------------------------------------------------------------------------
# Case list
# --------------------------------------------------------------------------

def cli_cases():
    cases = []

    def add(scn, args, opt=False):
        cases.append(('cli', scn, args, opt))

    filters = [[], ['-E'], ['-s'], ['-N'], ['-H'], ['-t'], ['-S', 'Informational'],
               ['-S', 'Predictive', 'Critical'], ['-O', '-H'], ['-O', '-S', 'Unrecoverable'],
               ['-s', '-O', '-S', 'Recovered'], ['-N', '-O'], ['-E', '-O'], ['-O'],
               ['-H', '-S', 'Symptom', 'Diagnostic'], ['-t', '-O'], ['-P', '-E']]
    shapes = [[], ['-x'], ['-r'], ['-e', '.pel'], ['-x', '-r', '-e', '.pel'], ['-e', '']]
    for mode in (['-l'], ['-a'], ['-n']):
        for fi, flt in enumerate(filters):
            for si, shp in enumerate(shapes):
                # full cross product on 'mixed' for the first shapes, sampled otherwise
                if si < 2 or (fi + si) % 3 == 0:
                    add('mixed', ['-p', 'logs'] + mode + flt + shp)
        for scn in ('good', 'bad', 'empty', 'broken'):
            for flt in ([], ['-E'], ['-H', '-O']):
                for shp in ([], ['-x'], ['-r', '-e', '.pel']):
                    add(scn, ['-p', 'logs'] + mode + flt + shp)
        add('mixed', ['-p', 'logs/'] + mode + ['-E'])
        add('mixed', ['-p', 'logs/sub'] + mode + ['-E'])
        add('mixed', ['-p', 'logs/linkdir.pel'] + mode + ['-E', '-r'])
        add('mixed', ['-p', 'logs'] + mode + ['-E'], True)

    for pid in ('50000001', '0x50000001', '5000000a', '0X5000000A', '5000000B', '99999999',
                '123', '5000000', '0x', '60000011', '60000020', '60000021', '60000024',
                '6000002F', '7000000A', '5000000F', '60000010', 'logs/50000001'):
        for shp in ([], ['-x'], ['-E'], ['-H', '-O']):
            add('mixed', ['-p', 'logs', '-i', pid] + shp)
        add('empty', ['-p', 'logs', '-i', pid])
        add('broken', ['-p', 'logs', '-i', pid, '-x'])
    add('broken', ['-p', 'logs', '-i', '7000000B'])
    add('broken', ['-p', 'logs', '--id', '7000000b', '-x'], True)

    for bid in ('1', '3', '5', '10', '12', '21', '22', '23', '26', '99', '999', 'abc', '01', '0'):
        for shp in ([], ['-x'], ['-H', '-O'], ['-E', '-r']):
            add('mixed', ['-p', 'logs', '--bmc-id', bid] + shp)
        add('good', ['-p', 'logs', '--bmc-id', bid])
        add('empty', ['-p', 'logs', '--bmc-id', bid, '-x'])
        add('broken', ['-p', 'logs', '--bmc-id', bid])
        add('bad', ['-p', 'logs', '--bmc-id', bid])

    for plid in ('50000001', '0x50000002', '5000000a', '9999999', '00000000', '60000001',
                 '5000000B', '500000011'):
        for shp in ([], ['-x'], ['-r'], ['-e', '.pel'], ['-E'], ['-x', '-H', '-O'], ['-N']):
            add('mixed', ['-p', 'logs', '--plid', plid] + shp)
        add('empty', ['-p', 'logs', '--plid', plid])
        add('broken', ['-p', 'logs', '--plid', plid])
        add('good', ['-p', 'logs', '--plid', plid, '-x', '-r'])

    for src in ('BD8D', 'BD8D1234', 'ZZZZ', 'B', '1', 'BD8D1234' + 'x' * 24, 'BD8D1234' + 'x' * 25,
                'bd8d', ' '):
        for shp in ([], ['-x'], ['-r'], ['-e', '.pel'], ['-E'], ['-x', '-E'], ['-H', '-O']):
            add('mixed', ['-p', 'logs', '--src', src] + shp)
        add('empty', ['-p', 'logs', '--src', src])
        add('broken', ['-p', 'logs', '--src', src])
        add('good', ['-p', 'logs', '--src', src, '-r', '-E'])

    for exf in ('exclude.txt', 'exclude_empty.txt', 'missing.txt', 'out', 'logs/2024010100000000_50000001'):
        for shp in ([], ['-x'], ['-r', '-E'], ['-e', '.pel'], ['-x', '-E', '-r']):
            add('mixed', ['-p', 'logs', '--src-exclude', exf] + shp)
        add('empty', ['-p', 'logs', '--src-exclude', exf])
        add('good', ['-p', 'logs', '--src-exclude', exf])
        add('broken', ['-p', 'logs', '--src-exclude', exf, '-x'])

    for scn in ('mixed', 'good', 'bad', 'empty', 'broken'):
        add(scn, ['-p', 'logs', '-D'])
        add(scn, ['-p', 'logs', '--delete-all', '-e', '.pel'])
        for pid in ('50000001', '0x5000000a', '5000000A', '99999999', '12', '60000011',
                    '7000000A', '7000000B', '5000000F', '0x50000002'):
            add(scn, ['-p', 'logs', '-d', pid])
        add(scn, ['-p', 'logs', '-d', '50000003'], True)
        for jopt in ([], ['-o', 'out'], ['-o', 'missing'], ['-c'], ['-e', '.pel'], ['-c', '-o', 'out'],
                     ['-E'], ['-H', '-O', '-c'], ['-x'], ['-o', 'afile'], ['-c', '-e', '.txt', '-E'],
                     ['-o', 'logs/sub', '-c', '-E'], ['-P', '-E', '-o', 'out']):
            add(scn, ['-p', 'logs', '-j'] + jopt)
        add(scn, ['-p', 'logs', '-j', '-c', '-E'], True)

    names = sorted(set(good_files()) | set(bad_files()))
    for i, name in enumerate(names):
        path = os.path.join('single', name)
        add('empty', ['-f', path])
        add('empty', ['-f', path, '-E', '-c'])
        if i % 3 == 0:
            add('empty', ['-f', path, '-x', '-E'])
        if i % 3 == 1:
            add('empty', ['-f', path, '-H', '-O', '-c'])
        if i % 3 == 2:
            add('empty', ['-f', path, '-P', '-c', '-x'], True)
    add('empty', ['-f', 'missing'])
    add('empty', ['-f', 'missing', '-c'])
    add('empty', ['-f', 'logs'])
    add('empty', ['-f', 'single/2024010100000000_50000001', '-p', 'nowhere', '-l'])

    for args in ([], ['--help'], ['-h'], ['-p', 'nowhere', '-l'], ['-p', 'afile', '-l'], ['-l'],
                 ['-a'], ['-n'], ['-j'], ['-D'], ['--bogus'], ['-p', 'logs', '-S', 'Bogus', '-l'],
                 ['-p', 'logs', '-S'], ['-p', 'logs'], ['-p', 'logs', '-E', '-x'], ['-p', 'logs', '-A'],
                 ['-p', 'logs', '-l', '-a', '-n'], ['-p', 'logs', '-a', '-n'], ['-p', 'logs', '-n', '-D'],
                 ['-p', 'logs', '-i', '50000001', '--bmc-id', '3'], ['-p', 'logs', '--plid', '50000001', '-l'],
                 ['-p', 'logs', '-j', '-l'], ['-p', 'logs', '-d', '50000001', '-D'],
                 ['-p', 'logs', '--src', 'BD', '--src-exclude', 'exclude.txt'],
                 ['-p', 'logs', '--bmc-id', '3', '--plid', '123'], ['-p', '', '-l'],
                 ['-p', 'logs', '-e', 'pel', '-l'], ['-p', 'logs', '-l', '-e', '.PEL'],
                 ['-p', 'logs', '-o', 'out', '-l'], ['-p', 'logs', '-c', '-a'],
                 ['-p', 'logs', '-j', '-o', '']):
        add('mixed', args)
        add('mixed', args, True)
    return cases


def driver_cases():
    E = {'every_pel': True}
    H = {'hex': True, 'every_pel': True}
    good = 'logs/2024010100000000_50000001'
    ops_lists = []
    # functions on a path that does not exist / is a file / is empty
    ops = []
    for p in ('nowhere', 'afile', 'out', 'logs', 'logs/', 'logs/sub', ''):
        ops.append(['call', 'getFileList', [p, None], None])
        ops.append(['call', 'getFileList', [p, '.pel', True], None])
        ops.append(['call', 'getFileList', [p, '', False], None])
        ops.append(['call', 'getFileList', [p, '.txt'], None])
        for fn in ('listOption', 'extractAllPELsData', 'printPELCount', 'parsePelFromPLID',
                   'parsePelFromSRCID', 'parsePelFromID', 'parsePelFromBmcID'):
            for cfg in ({'plid': '50000001', 'src': 'BD8D', 'pelID': '50000001', 'bmcID': '3'},
                        {'plid': '0x50000001', 'src': 'BD8D', 'pelID': '0x50000002', 'bmcID': '10',
                         'hex': True, 'rev': True, 'extension': '.pel', 'every_pel': True}):
                ops.append(['call', fn, [p], cfg])
    ops_lists.append(('mixed', ops))
    ops_lists.append(('empty', ops))

    # repeated decodes in one process, various configs, direct calls
    ops = []
    for rep in range(2):
        for cfg in ({}, E, H, {'hidden': True, 'only': True}, {'severities': [4, 2], 'only': True},
                    {'rev': True, 'extension': '.pel'}, {'serviceable': True, 'severities': [0]},
                    {'non_serviceable': True, 'hex': True}, {'critSysTerm': True, 'only': True},
                    {'allow_plugins': False, 'every_pel': True}):
            for fn in ('listOption', 'extractAllPELsData', 'printPELCount'):
                ops.append(['call', fn, ['logs'], cfg])
    ops_lists.append(('mixed', ops))
    ops_lists.append(('good', ops))
    ops_lists.append(('bad', ops))

    ops = []
    for cfg in ({'src': 'BD8D', 'srcExcludeFile': 'exclude.txt'},
                {'src': 'BD8D', 'srcExcludeFile': 'exclude.txt', 'hex': True},
                {'src': 'BD8D', 'srcExcludeFile': 'exclude.txt', 'every_pel': True, 'rev': True},
                {'src': '', 'srcExcludeFile': ''}, {'src': None, 'srcExcludeFile': None},
                {'src': 'x' * 33}, {'src': 'x' * 32}, {'srcExcludeFile': 'missing.txt'},
                {'srcExcludeFile': 'exclude_empty.txt', 'hex': True, 'every_pel': True},
                {'src': '0', 'extension': '.txt', 'every_pel': True}):
        ops.append(['call', 'parsePelFromSRCID', ['logs'], cfg])
    for cfg in ({'plid': '50000001'}, {'plid': '50000001', 'hex': True}, {'plid': 'x'},
                {'plid': '0x5000000a', 'every_pel': True}, {'plid': '00000000', 'rev': True}):
        ops.append(['call', 'parsePelFromPLID', ['logs'], cfg])
    for cfg in ({'pelID': '50000001'}, {'pelID': '0x5000000a', 'hex': True}, {'pelID': 'zz'},
                {'pelID': '60000011'}, {'pelID': '99999999'}, {'pelID': '2024010'},
                {'pelID': '20240101'}, {'pelID': '_5000000'}):
        ops.append(['call', 'parsePelFromID', ['logs'], cfg])
    for cfg in ({'bmcID': '1'}, {'bmcID': '21', 'hex': True}, {'bmcID': None}, {'bmcID': 3},
                {'bmcID': '11', 'every_pel': True}, {'bmcID': '13'}):
        ops.append(['call', 'parsePelFromBmcID', ['logs'], cfg])
    ops_lists.append(('mixed', ops))
    ops_lists.append(('broken', ops))

    ops = []
    for f in (good, 'single/bad_random_60000011.pel', 'single/bad_phid_60000020.pel',
              'single/bad_uhid_60000021.pel', 'single/bad_count_60000022.pel', 'missing', 'logs',
              'single/2024010100000001_50000002.pel', 'single/bad_empty_60000010.pel'):
        for cfg in ({}, E, H):
            ops.append(['callkw', 'parseAndPrintPELFile', [f], cfg, [False]])
            ops.append(['callkw', 'parseAndPrintPELFile', [f], cfg, [True]])
            ops.append(['call', 'extractAndSummarizePEL', [f], cfg])
        for outdir, clean in (('out', False), ('missing', True), ('afile', True), ('', False),
                              ('out', True), ('out', True)):
            ops.append(['callkw', 'parseAndWriteOutput', [f, outdir], E, [clean]])
            ops.append(['callkw', 'parseAndWriteOutput', [f, outdir], {}, [clean]])
    for pid in ('50000001', '0x5000000a', 'abc', '', '0X12345678', '0x0x1234', 'ß2345678'):
        ops.append(['call', 'processId', [pid], None])
    for p, pid in (('logs', '50000002'), ('logs', '50000002'), ('nowhere', '50000001'),
                   ('logs', 'bad'), ('logs', '0x5000000A'), ('logs', '7000000A'), ('logs', '20240101'),
                   ('afile', '50000001')):
        ops.append(['call', 'deletePELFromPELId', [p, pid], None])
    ops.append(['call', 'getFileList', ['logs', None], None])
    ops.append(['call', 'deleteAllPELs', ['nowhere'], None])
    ops.append(['call', 'deleteAllPELs', ['afile'], None])
    ops.append(['call', 'deleteAllPELs', ['logs/sub'], None])
    ops.append(['call', 'deleteAllPELs', ['logs'], None])
    ops.append(['call', 'getFileList', ['logs', None], None])
    ops.append(['call', 'deleteAllPELs', ['logs'], None])
    ops.append(['call', 'listOption', ['logs'], E])
    ops_lists.append(('mixed', ops))
    ops_lists.append(('broken', ops))

    # main() called in-process (SystemExit codes / messages, argv[0] handling)
    ops = []
    for argv in (['-p', 'logs', '-l'], ['-p', 'logs', '-n', '-E'], ['-p', 'logs'], [],
                 ['-p', 'nowhere', '-a'], ['-p', 'logs', '-i', '12'], ['-p', 'logs', '-i', '50000001'],
                 ['-p', 'logs', '--src', 'x' * 40], ['-p', 'logs', '--src-exclude', 'missing'],
                 ['-p', 'logs', '--src-exclude', 'exclude.txt', '-E'],
                 ['-p', 'logs', '-j', '-o', 'missing'], ['-f', good], ['-f', 'single/bad_phid_60000020.pel'],
                 ['-f', 'single/bad_uhid_60000021.pel', '-c'], ['-f', 'missing'],
                 ['-p', 'logs', '-S', 'Critical', 'Symptom', '-O', '-l'],
                 ['-p', 'logs', '-j', '-o', 'out', '-c', '-e', '.pel'], ['-p', 'logs', '-l', '-E'],
                 ['-p', 'logs', '-d', '50000001'], ['-p', 'logs', '-D'], ['-p', 'logs', '-n', '-E'],
                 ['--help']):
        ops.append(['main', argv])
    ops_lists.append(('mixed', ops))

    # BMC flavour of main(): default path exists (faked), -A instead of -p
    ops = []
    for argv in (['--help'], ['-l'], ['-A', '-l'], ['-a'], ['-A', '-a', '-x'], ['-n'], ['-A', '-n'],
                 ['-i', '50000001'], ['-A', '--bmc-id', '3'], ['--plid', '50000001'], ['--src', 'BD'],
                 ['-A', '--src-exclude', 'exclude.txt'], ['-d', '50000001'], ['-D'], ['-A', '-D'],
                 ['-j'], ['-A', '-j', '-o', 'out'], ['-j', '-o', 'missing'], ['-p', 'logs', '-l'], [],
                 ['-A'], ['-f', good, '-A'], ['-f', good, '-x']):
        ops.append(['bmcmain', argv])
    ops_lists.append(('mixed', ops))

    cases = []
    for scn, ops in ops_lists:
        cases.append(('drv', scn, ops, False))
        cases.append(('drv', scn, ops, True))
    return cases


# --------------------------------------------------------------------------
# Execution
# --------------------------------------------------------------------------

def norm_stderr(text):
    out = []
    in_tb = False
    for line in text.splitlines():
        if line.startswith('Traceback (most recent call last):'):
            in_tb = True
            out.append('<traceback>')
            continue
        if in_tb:
            if line.startswith(' '):
                continue
            in_tb = False
        out.append(line)
    return '\n'.join(out)


def snapshot(work):
    snap = {}
    for root, dirs, files in os.walk(work):
        dirs.sort()
        for d in list(dirs):
            p = os.path.join(root, d)
            if os.path.islink(p):
                snap[os.path.relpath(p, work)] = 'link->' + os.readlink(p)
            else:
                snap[os.path.relpath(p, work) + '/'] = 'dir'
        for f in sorted(files):
            p = os.path.join(root, f)
            rel = os.path.relpath(p, work)
            if rel.startswith('single' + os.sep) and not os.path.islink(p):
                # unchanged input corpus: only record presence and size
                snap[rel] = os.path.getsize(p)
                continue
            if os.path.islink(p):
                snap[rel] = 'link->' + os.readlink(p)
            else:
                with open(p, 'rb') as fd:
                    snap[rel] = hashlib.sha1(fd.read()).hexdigest()
    return snap


def run_case(root, case, base_tmp):
    kind, scn, payload, opt = case
    work = tempfile.mkdtemp(dir=base_tmp)
    try:
        build_scenario(scn, work)
        env = dict(os.environ)
        env['PYTHONPATH'] = os.path.join(root, 'modules')
        env['PYTHONDONTWRITEBYTECODE'] = '1'
        env['PYTHONHASHSEED'] = '0'
        cmd = [PY] + (['-O'] if opt else [])
        if kind == 'cli':
            cmd += [os.path.join(root, 'modules', 'pel', 'peltool', 'peltool.py')] + payload
        else:
            cmd += ['-c', DRIVER, json.dumps(payload)]
        p = subprocess.run(cmd, cwd=work, env=env, stdout=subprocess.PIPE, stderr=subprocess.PIPE,
                           stdin=subprocess.DEVNULL, timeout=300)
        return {'rc': p.returncode, 'stdout': p.stdout,
                'stderr': norm_stderr(p.stderr.decode('utf-8', 'replace')),
                'files': snapshot(work)}
    finally:
        shutil.rmtree(work, ignore_errors=True)


def main():
    if len(sys.argv) != 3:
        sys.exit(__doc__)
    pristine, patched = (os.path.abspath(a) for a in sys.argv[1:3])
    cases = cli_cases() + driver_cases()
    base_tmp = tempfile.mkdtemp(prefix='diffcheck_', dir=os.path.dirname(os.path.abspath(__file__)))
    diffs = 0
    try:
        def both(case):
            return run_case(pristine, case, base_tmp), run_case(patched, case, base_tmp)

        with ThreadPoolExecutor(max_workers=min(16, (os.cpu_count() or 2) * 2)) as ex:
            results = list(ex.map(both, cases))
        nonempty = 0
        for case, (a, b) in zip(cases, results):
            if a['stdout'] or a['files']:
                nonempty += 1
            if a != b:
                diffs += 1
                if diffs <= 10:
                    print('DIFF in case %r' % (case[:2] + (str(case[2])[:200], case[3]),))
                    for k in a:
                        if a[k] != b[k]:
                            print('  %s:\n    pristine: %r\n    patched:  %r' % (
                                k, str(a[k])[:1500], str(b[k])[:1500]))
    finally:
        shutil.rmtree(base_tmp, ignore_errors=True)
    if diffs:
        print('DIFFERENT (%d of %d cases)' % (diffs, len(cases)))
        sys.exit(1)
    print('IDENTICAL (%d cases)' % len(cases))
    sys.exit(0)


if __name__ == '__main__':
    main()
