#!/usr/bin/env python
"""
Differential check for the R42 refactorings (SRC decoding, callouts, registry
look-up, component names, value tables).

usage: diffcheck.py <pristine_root> <patched_root>

A driver script is executed in subprocesses, once per (root, mode), with
PYTHONPATH pointing at <root>/modules (plus an optional directory with a fake
pel_registry package and fake parser plug-ins).  The driver decodes a large
number of generated inputs in ONE process (so caches / repeated decodes are
covered as well) and prints one JSON record per case.  The records of the two
roots are compared one by one.
"""
import json
import os
import shutil
import subprocess
import sys
import tempfile

PYTHON = sys.executable

DRIVER = r'''
import contextlib
import io
import json
import os
import random
import struct
import sys

WORK = sys.argv[1]
PELDIR = os.path.join(WORK, "pels")

from pel.datastream import DataStream
from pel.peltool import peltool, src, registry, comp_id, pel_values, pel_types
from pel.peltool.config import Config

CASES = 0


def dump(obj, depth=0):
    """Stable, deep description of an object (used to compare state)."""
    if depth > 14:
        return "<deep>"
    if obj is None or isinstance(obj, (bool, int, float, str)):
        return obj
    if isinstance(obj, (bytes, bytearray, memoryview)):
        return "bytes:" + bytes(obj).hex()
    if isinstance(obj, dict):
        return [[dump(k, depth + 1), dump(v, depth + 1)] for k, v in obj.items()]
    if isinstance(obj, (list, tuple)):
        return [dump(v, depth + 1) for v in obj]
    if isinstance(obj, DataStream):
        return {"<stream index>": obj.index}
    if isinstance(obj, type(sys)):
        return "<module %s>" % obj.__name__
    if hasattr(obj, "__dict__"):
        d = {k: dump(v, depth + 1) for k, v in sorted(vars(obj).items())}
        d["<class>"] = type(obj).__name__
        return d
    return repr(obj)


def case(ident, fn):
    """Run fn, capture stdout / stderr / result / exception."""
    global CASES
    CASES += 1
    out, err = io.StringIO(), io.StringIO()
    rec = {"id": ident}
    try:
        with contextlib.redirect_stdout(out), contextlib.redirect_stderr(err):
            rec["result"] = dump(fn())
    except BaseException as e:
        rec["exc"] = [type(e).__name__, str(e)]
    rec["out"] = out.getvalue()
    rec["err"] = err.getvalue()
    sys.__stdout__.write(json.dumps(rec, sort_keys=True) + "\n")


# ----------------------------------------------------------------------------
# PEL builders
# ----------------------------------------------------------------------------
def sec_header(sid, length, ver=1, sub=0, comp=0x1000):
    return struct.pack(">HHBBH", sid & 0xFFFF, length & 0xFFFF, ver & 0xFF,
                       sub & 0xFF, comp & 0xFFFF)


def build_ph(creator=b"O", count=3, comp=0x2000, logid=77, eid=0x50001234,
             plid=0x50001234):
    body = bytes.fromhex("2023051211223344") + bytes.fromhex("2023051211223455")
    body += creator[:1] + b"\x00\x00" + bytes([count & 0xFF])
    body += struct.pack(">IQII", logid, 0x0102030405060708, plid, eid)
    return sec_header(0x5048, 48, 1, 0, comp) + body


def build_uh(sev=0x40, flags=0xA000, comp=0x2000, subsystem=0x8D, states=0x0201):
    body = struct.pack(">BBBBIBBHI", subsystem, 3, sev, 0, 0, 0, 0, flags, states)
    return sec_header(0x5548, 24, 1, 0, comp) + body


def build_fru(flags, pn=b"PN12345\x00", ccin=b"2E2F", sn=b"YL1234567890", size=None):
    body = b""
    if flags & 0x0A:
        body += pn.ljust(8, b"\x00")[:8]
    if flags & 0x04:
        body += ccin.ljust(4, b"\x00")[:4]
    if flags & 0x01:
        body += sn.ljust(12, b"\x00")[:12]
    if size is None:
        size = 4 + len(body)
    return b"ID" + bytes([size & 0xFF, flags & 0xFF]) + body


def build_pce(mt=b"9105-22A", sn=b"SN0123456789", name=b"pcename\x00", size=None, flags=0):
    body = mt.ljust(8, b"\x00")[:8] + sn.ljust(12, b"\x00")[:12] + name
    if size is None:
        size = 4 + len(body)
    return b"PE" + bytes([size & 0xFF, flags & 0xFF]) + body


def build_mru(ids, flags=None, size=None):
    body = b"\x00\x00\x00\x00"
    for i, mid in enumerate(ids):
        body += struct.pack(">II", 0x48 + i, mid & 0xFFFFFFFF)
    if flags is None:
        flags = len(ids) & 0xF
    if size is None:
        size = 4 + len(body)
    return b"MR" + bytes([size & 0xFF, flags & 0xFF]) + body


def build_callout(prio=0x48, loc=b"U78DA.ND1.1234567-P0\x00\x00\x00\x00", subs=(), size=None,
                  flags=0, loclen=None):
    body = loc + b"".join(subs)
    if loclen is None:
        loclen = len(loc)
    if size is None:
        size = 4 + len(body)
    return bytes([size & 0xFF, flags & 0xFF, prio & 0xFF, loclen & 0xFF]) + body


def build_callouts(callouts, wordlen=None, sid=0xC0, flags=0):
    body = b"".join(callouts)
    if wordlen is None:
        wordlen = (4 + len(body) + 3) // 4
    return bytes([sid, flags]) + struct.pack(">H", wordlen & 0xFFFF) + body


def build_src_body(ascii_str=b"BD8D2030", flags=0x00, wordcount=9, words=None,
                   callouts=b"", version=2):
    if words is None:
        words = [0x00000055, 0x2E2D0010, 0x11223344, 0x21000000, 0xAABBCCDD,
                 0x00000001, 0x00000002, 0x00000003]
    body = bytes([version & 0xFF, flags & 0xFF, 0, wordcount & 0xFF]) + struct.pack(">HH", 0, 72 + len(callouts))
    for w in words:
        body += struct.pack(">I", w & 0xFFFFFFFF)
    body += ascii_str.ljust(32, b" ")[:32]
    return body + callouts


def build_src(sid=0x5053, comp=0x3000, **kw):
    body = build_src_body(**kw)
    return sec_header(sid, 8 + len(body), 1, 1, comp) + body


def build_pel(creator=b"O", sections=(), count=None, **kw):
    if count is None:
        count = 2 + len(sections)
    return build_ph(creator, count, **kw) + build_uh() + b"".join(sections)


def std_callouts():
    return build_callouts([
        build_callout(0x48, subs=[build_fru(0x1D)]),
        build_callout(0x4D, loc=b"", subs=[build_fru(0x42, pn=b"BMC0001\x00")]),
        build_callout(0x41, loc=b"Ufcs-P0\x00", subs=[build_fru(0x9F), build_pce(),
                                                           build_mru([1, 2, 0xDEADBEEF])]),
        build_callout(0x4C, loc=b"U1\x00\x00", subs=[build_mru([]), build_fru(0x20 | 0x02, pn=b"NOPROC\x00\x00")]),
        build_callout(0x99, loc=b"Uabc", subs=[build_fru(0xF0 | 0x08)]),
    ])


def make_config(plugins=True, **kw):
    c = Config()
    c.every_pel = True
    c.allow_plugins = plugins
    for k, v in kw.items():
        setattr(c, k, v)
    return c


def decode(data, plugins=True, **kw):
    stream = DataStream(data, byte_order="big", is_signed=False)
    return peltool.parsePEL(stream, make_config(plugins, **kw), False)


def summary(data, plugins=True, **kw):
    stream = DataStream(data, byte_order="big", is_signed=False)
    return peltool.parsePELSummary(stream, make_config(plugins, **kw))


# ----------------------------------------------------------------------------
# value tables / enums
# ----------------------------------------------------------------------------
def tables():
    res = {}
    for name in sorted(vars(pel_values)):
        val = getattr(pel_values, name)
        if isinstance(val, dict) and not name.startswith("_"):
            res[name] = [[repr(k), repr(v)] for k, v in val.items()]
    return res


def enums():
    res = {}
    for mod, names in ((pel_types, ("SeverityValues", "ActionFlagsValues", "TransmissionState", "SectionID",
                                    "SRCType")),
                       (src, ("HeaderFlags", "ErrorStatusFlags", "Flags"))):
        for name in names:
            val = getattr(mod, name)
            res[mod.__name__ + "." + name] = [[m.name, repr(m.value), repr(m)] for m in val]
            res[mod.__name__ + "." + name + ".lookup"] = [val(m.value) is m for m in val]
    return res


PUBLIC = {
    registry: ("Registry", "json", "os"),
    comp_id: ("creatorIDs", "os", "json", "sys", "componentIDs", "pelConfigRootPath", "attemptedToParseCompIDs",
              "getAllCreatorsCompIDs", "getDisplayCompID"),
    pel_values: ("TransmissionState", "creatorIDs", "sectionNames", "subsystemValues", "eventScopeValues",
                 "eventTypeValues", "severityValues", "severityGroupValues", "actionFlagsValues",
                 "transmissionStates", "failingComponentType", "calloutPriorityValues"),
    pel_types: ("Enum", "unique", "SeverityValues", "ActionFlagsValues", "TransmissionState", "SectionID", "SRCType"),
    src: ("DataStream", "OrderedDict", "Enum", "unique", "SRCType", "Registry", "failingComponentType",
          "calloutPriorityValues", "getDisplayCompID", "Config", "json", "sys", "importlib", "registry",
          "calloutParsers", "srcParsers", "HeaderFlags", "ErrorStatusFlags", "Flags", "get_value", "FRUIdentity",
          "PCEIdentity", "MRUCallout", "MRU", "Callout", "SRC"),
}


case("tables", tables)
case("enums", enums)
case("public-names", lambda: {m.__name__: [[n, hasattr(m, n)] for n in names] for m, names in PUBLIC.items()})
case("src-methods", lambda: sorted(n for n in vars(src.SRC) if n in ("buildMessage", "buildHexwordDescs", "getErrorDetails",
                                                                     "getProcedureDesc", "getCallouts", "parse", "toJSON")))
case("registry-initial", lambda: [len(src.registry.pels), type(src.registry.pels).__name__])
for sid in list(range(0x4000, 0x6000, 7)) + [m.value for m in pel_types.SectionID] + [0, 0xFFFF, 0x12345]:
    case("secname-%x" % sid, lambda sid=sid: peltool.getSectionName(sid))

# ----------------------------------------------------------------------------
# component ids
# ----------------------------------------------------------------------------
COMP_IDS = [0, 1, 0x1000, 0x2000, 0x2D00, 0x3000, 0x4142, 0x4100, 0x0041, 0xFFFF, 0xABCD, 0xBD00,
            0xE500, 0x10000, 0x12345, -1, -0x1234, 0x7A7A, 0x2020]
CREATORS = ["O", "B", "H", "C", "K", "L", "M", "N", "P", "S", "T", "X", "o", "", "OO", "\x00", "Z", "Q"]
case("compid-state-0", lambda: [comp_id.attemptedToParseCompIDs, dump(comp_id.componentIDs)])
for rnd in range(2):
    for cr in CREATORS:
        for cid in COMP_IDS:
            case("compid-%d-%r-%x" % (rnd, cr, cid), lambda cr=cr, cid=cid: comp_id.getDisplayCompID(cid, cr))
    case("compid-state-%d" % (rnd + 1), lambda: [comp_id.attemptedToParseCompIDs, dump(comp_id.componentIDs)])
case("compid-unhashable", lambda: comp_id.getDisplayCompID(5, ["O"]))
case("compid-again", comp_id.getAllCreatorsCompIDs)
case("compid-state-x", lambda: [comp_id.attemptedToParseCompIDs, dump(comp_id.componentIDs)])


def forced_reload():
    comp_id.attemptedToParseCompIDs = False
    comp_id.componentIDs.clear()
    try:
        return comp_id.getDisplayCompID(0x1000, "O")
    finally:
        pass


case("compid-forced-reload", forced_reload)
case("compid-state-y", lambda: [comp_id.attemptedToParseCompIDs, dump(comp_id.componentIDs)])


def with_root(path):
    old = comp_id.pelConfigRootPath
    comp_id.pelConfigRootPath = path
    comp_id.attemptedToParseCompIDs = False
    comp_id.componentIDs.clear()
    try:
        return [comp_id.getDisplayCompID(0x1000, "O"), comp_id.getDisplayCompID(0x3000, "B"),
                comp_id.getDisplayCompID(0x3000, "N"), dump(comp_id.componentIDs)]
    finally:
        comp_id.pelConfigRootPath = old


for sub in ("cfg_good", "cfg_bad", "cfg_empty", "cfg_null", "cfg_missing"):
    case("compid-root-" + sub, lambda sub=sub: with_root(os.path.join(WORK, sub)))
    case("compid-root-after-" + sub, lambda: [comp_id.attemptedToParseCompIDs, dump(comp_id.componentIDs),
                                              comp_id.getDisplayCompID(0x1000, "O")])
case("compid-final-reset", forced_reload)

# ----------------------------------------------------------------------------
# registry
# ----------------------------------------------------------------------------
GOOD_PELS = json.load(open(os.path.join(WORK, "registry_good.json")))["PELs"]
BAD_PEL_LISTS = json.load(open(os.path.join(WORK, "registry_bad.json")))
CODES = ["0x2030", "0x2031", "0x2032", "0x2033", "0x2034", "0x2035", "0x2036", "0x9999", "0x", "", "2030",
         "0x203", "x2030", "0xABCD", "0xabcd", "0x1510", "0xE504", "0x2040", "0x2041"]
TYPES = ["BD", "11", "BC", "", "XX", "bd"]


def lookup(pels, code, typ):
    r = registry.Registry()
    r.pels = pels
    return r.getErrorMessage(code, typ)


for code in CODES:
    for typ in TYPES:
        case("reg-default-%s-%s" % (code, typ), lambda code=code, typ=typ: src.registry.getErrorMessage(code, typ))
        case("reg-good-%s-%s" % (code, typ), lambda code=code, typ=typ: lookup(GOOD_PELS, code, typ))
for n, pels in enumerate(BAD_PEL_LISTS):
    for code in ("0x2030", "0x2031", "0x9999"):
        for typ in ("BD", "11", "BC"):
            case("reg-bad-%d-%s-%s" % (n, code, typ), lambda pels=pels, code=code, typ=typ: lookup(pels, code, typ))
case("reg-identity", lambda: [lookup(GOOD_PELS, "0x2030", "BD").get("Words6To9") is GOOD_PELS[0]["SRC"]["Words6To9"],
                               lookup(GOOD_PELS, "0x9999", "BD") is lookup(GOOD_PELS, "0x9999", "BD")])
case("reg-loadjson", lambda: len(registry.Registry().loadJson(os.path.join(WORK, "registry_good.json"))))
case("reg-loadjson-missing", lambda: registry.Registry().loadJson(os.path.join(WORK, "nonexistent.json")))
case("reg-loadjson-nopels", lambda: registry.Registry().loadJson(os.path.join(WORK, "registry_bad.json")))
case("reg-loadjson-notjson", lambda: registry.Registry().loadJson(os.path.join(WORK, "srcexclude.txt")))


import types


def with_fake_pel_registry(mod, fn, exists=None):
    """Run fn with sys.modules['pel_registry'] replaced (None = import fails)."""
    missing = object()
    old = sys.modules.get("pel_registry", missing)
    old_exists = os.path.exists
    sys.modules["pel_registry"] = mod
    if exists is not None:
        os.path.exists = exists
    try:
        return fn()
    finally:
        os.path.exists = old_exists
        if old is missing:
            del sys.modules["pel_registry"]
        else:
            sys.modules["pel_registry"] = old


def fake_mod(**attrs):
    m = types.ModuleType("pel_registry")
    for k, v in attrs.items():
        setattr(m, k, v)
    return m


def raiser(exc):
    def f():
        raise exc
    return f


def new_registry_state():
    r = registry.Registry()
    return [type(r.pels).__name__, len(r.pels), sorted(vars(r))]


def comp_reload():
    comp_id.attemptedToParseCompIDs = False
    comp_id.componentIDs.clear()
    try:
        return [comp_id.getDisplayCompID(0x1000, "O"), dump(comp_id.componentIDs), comp_id.attemptedToParseCompIDs]
    except BaseException as e:
        return ["EXC", type(e).__name__, str(e), dump(comp_id.componentIDs), comp_id.attemptedToParseCompIDs]


FAKE_MODS = [
    ("none", None),
    ("empty-path", fake_mod(get_registry_path=lambda: "", __file__=os.path.join(WORK, "cfg_good", "__init__.py"))),
    ("good-path", fake_mod(get_registry_path=lambda: os.path.join(WORK, "registry_good.json"),
                           __file__=os.path.join(WORK, "cfg_null", "__init__.py"))),
    ("missing-path", fake_mod(get_registry_path=lambda: os.path.join(WORK, "nope.json"),
                              __file__=os.path.join(WORK, "nope", "__init__.py"))),
    ("nopels-path", fake_mod(get_registry_path=lambda: os.path.join(WORK, "registry_bad.json"),
                             __file__=os.path.join(WORK, "cfg_bad", "__init__.py"))),
    ("raises-mnf", fake_mod(get_registry_path=raiser(ModuleNotFoundError("inner")), __file__="bare.py")),
    ("raises-imp", fake_mod(get_registry_path=raiser(ImportError("inner")), __file__=None)),
    ("raises-val", fake_mod(get_registry_path=raiser(ValueError("inner")), __file__=5)),
    ("no-attrs", types.ModuleType("pel_registry")),
    ("none-path", fake_mod(get_registry_path=lambda: None, __file__=os.path.join(WORK, "cfg_empty", "x.py"))),
]
for name, mod in FAKE_MODS:
    for exn, exists in (("real", None), ("all", lambda p: True), ("nothing", lambda p: False)):
        case("fake-registry-%s-%s" % (name, exn), lambda mod=mod, exists=exists: with_fake_pel_registry(mod, new_registry_state, exists))
        case("fake-compid-%s-%s" % (name, exn), lambda mod=mod, exists=exists: with_fake_pel_registry(mod, comp_reload, exists))
case("compid-final-reset-2", forced_reload)

# ----------------------------------------------------------------------------
# SRC unit level: buildMessage / buildHexwordDescs / getErrorDetails / parse
# ----------------------------------------------------------------------------
def new_src(creator="O", words=None, ascii_str="BD8D2030"):
    s = src.SRC(DataStream(b"", byte_order="big", is_signed=False), 0x5053, 80, 1, 1, 0x2000, creator)
    s.hexData = list(words) if words is not None else [0x55, 0x2E2D0010, 0x11223344, 0x21000000, 0xAABBCCDD, 1, 2, 3]
    s.asciiString = ascii_str.ljust(32)
    return s


DETAILS = [
    {},
    {"Message": "plain"},
    {"Message": ""},
    {"Message": "arg %1 and %2", "MessageArgSources": ["SRCWord6", "SRCWord9"]},
    {"Message": "arg %1 and %2 %3", "MessageArgSources": ["SRCWord6", "SRCWord9"]},
    {"Message": "arg %1", "MessageArgSources": ["SRCWord6", "SRCWord7", "SRCWord8"]},
    {"Message": "arg %1 %0 %a %10", "MessageArgSources": ["SRCWord2"]},
    {"Message": "arg %1", "MessageArgSources": []},
    {"Message": "no args", "MessageArgSources": []},
    {"Message": "brace {x} %1", "MessageArgSources": ["SRCWord6"]},
    {"Message": "brace { %1", "MessageArgSources": ["SRCWord6"]},
    {"Message": "brace {0} {1} %1", "MessageArgSources": ["SRCWord6", "SRCWord7"]},
    {"Message": "neg %1 %2", "MessageArgSources": ["SRCWord1", "SRCWord0"]},
    {"Message": "bad %1", "MessageArgSources": ["SRCWordX"]},
    {"Message": "bad %1", "MessageArgSources": [""]},
    {"Message": "bad %1", "MessageArgSources": [5]},
    {"Message": "bad %1", "MessageArgSources": "SRCWord6"},
    {"Message": 12, "MessageArgSources": ["SRCWord6"]},
    {"Message": 12},
    {"Message": None},
    {"MessageArgSources": ["SRCWord6"]},
    {"Message": "w", "Words6To9": {}},
    {"Message": "w", "Words6To9": None},
    {"Message": "w", "Words6To9": {"6": {"Description": "d6", "AdditionalDataPropSource": "A6"},
                                   "9": {"Description": "d9", "AdditionalDataPropSource": "A9"}}},
    {"Message": "w", "Words6To9": {"7": {"AdditionalDataPropSource": "A7"},
                                   "8": {"Description": "d8", "AdditionalDataPropSource": "A8"}}},
    {"Message": "w", "Words6To9": {"8": {"Description": "d8"}}},
    {"Message": "w", "Words6To9": {"12": {"Description": "d12", "AdditionalDataPropSource": "A"}}},
    {"Message": "w", "Words6To9": {"12": {"Description": "d12"}}},
    {"Message": "w", "Words6To9": {"x": {"Description": "d", "AdditionalDataPropSource": "A"}}},
    {"Message": "w", "Words6To9": {"1": {"Description": "d", "AdditionalDataPropSource": "Message"},
                                   "0": {"Description": "e", "AdditionalDataPropSource": "Message"}}},
    {"Message": "w", "Words6To9": {"6": "notadict"}},
    {"Message": "w", "Words6To9": {"6": None}},
    {"Message": "w", "Words6To9": ["6"]},
    {"Message": "w", "Words6To9": "67"},
    {"Words6To9": {"6": {"Description": "d6", "AdditionalDataPropSource": "A6"}}},
]


class FakeRegistry:
    def __init__(self, details):
        self.details = details
        self.calls = []

    def getErrorMessage(self, code, srcType):
        self.calls.append((code, srcType))
        return self.details


def error_details(details, code="2030", typ="BD", words=None):
    real = src.registry
    fake = FakeRegistry(details)
    src.registry = fake
    try:
        out = {"pre": 1}
        s = new_src(words=words)
        s.getErrorDetails(out, code, typ)
        return [dump(out), fake.calls]
    finally:
        src.registry = real


for n, det in enumerate(DETAILS):
    for wn, words in enumerate((None, [1, 2, 3], [])):
        case("buildmsg-%d-%d" % (n, wn), lambda det=det, words=words: new_src(words=words).buildMessage(det))
        case("hexdescs-%d-%d" % (n, wn), lambda det=det, words=words: new_src(words=words).buildHexwordDescs(det))
        case("errdetails-%d-%d" % (n, wn), lambda det=det, words=words: error_details(det, words=words))
case("errdetails-nonstr-code", lambda: error_details({"Message": "m"}, code=2030))
case("errdetails-empty-code", lambda: error_details({"Message": "m"}, code="", typ=""))

HEXW = ["%08X" % (0x11111111 * i) for i in range(1, 12)]
for cr in ["O", "B", "H", "K", "L", "M", "P", "S", "T", "C", "Z", "", "o", "t", "O.x"]:
    for rnd in range(2):
        case("parse-%r-%d" % (cr, rnd), lambda cr=cr: new_src(cr).parse(HEXW[:8]))
    case("parse-long-%r" % cr, lambda cr=cr: new_src(cr).parse(HEXW))
    case("parse-tuple-%r" % cr, lambda cr=cr: new_src(cr).parse(tuple(HEXW[:9])))
    for ln in (0, 7):
        case("parse-short-%r-%d" % (cr, ln), lambda cr=cr, ln=ln: new_src(cr).parse(HEXW[:ln]))
    for proc in ("BMC0001", "BMC0002", "BMC0003", "BMC0004", "BMC0005", ""):
        case("procdesc-%r-%s" % (cr, proc), lambda cr=cr, proc=proc: (lambda o: [new_src(cr).getProcedureDesc(proc, o), o])({"x": 1}))
    case("plugin-caches-%r" % cr, lambda: [sorted((k, v is None) for k, v in src.srcParsers.items()),
                                           sorted((k, v is None) for k, v in src.calloutParsers.items())])

# ----------------------------------------------------------------------------
# Callout structures directly on streams (also little endian / signed streams)
# ----------------------------------------------------------------------------
def on_stream(cls, data, order="big", signed=False, skip=0):
    st = DataStream(data, byte_order=order, is_signed=signed)
    if skip:
        st.inc_index(skip)
    obj = None
    try:
        obj = cls(st)
        res = dump(obj)
        if isinstance(obj, src.Callout):
            res["<flattened>"] = obj.flattenedSize()
        return [res, st.index]
    except BaseException as e:
        return ["EXC", type(e).__name__, str(e), st.index]


STRUCTS = [
    (src.FRUIdentity, build_fru(0x1D)), (src.FRUIdentity, build_fru(0x00)), (src.FRUIdentity, build_fru(0x0F)),
    (src.FRUIdentity, build_fru(0x02)), (src.FRUIdentity, build_fru(0x08)), (src.FRUIdentity, build_fru(0x0A)),
    (src.FRUIdentity, build_fru(0x05, ccin=b"\xff\xfe\x00\x00")), (src.FRUIdentity, build_fru(0x09, pn=b"\x80abc")),
    (src.FRUIdentity, build_fru(0xFF, sn=b"\x00\x00SN\x00\x00")),
    (src.PCEIdentity, build_pce()), (src.PCEIdentity, build_pce(name=b"")), (src.PCEIdentity, build_pce(size=10)),
    (src.PCEIdentity, build_pce(size=23)), (src.PCEIdentity, build_pce(size=24)), (src.PCEIdentity, build_pce(size=25)),
    (src.PCEIdentity, build_pce(size=200)), (src.PCEIdentity, build_pce(mt=b"\x00" * 8, name=b"\x00\x00\x00\x00")),
    (src.PCEIdentity, build_pce(sn=b"\xc3\x28")), (src.PCEIdentity, build_pce(name=b"\xff\xff")),
    (src.MRU, build_mru([1, 2, 3])), (src.MRU, build_mru([])), (src.MRU, build_mru([7] * 15)),
    (src.MRU, build_mru([1, 2], flags=0xF5)), (src.MRU, build_mru([1], flags=0x10)),
    (src.Callout, build_callout(subs=[build_fru(0x1D), build_pce(), build_mru([1, 2])])),
    (src.Callout, build_callout(loc=b"")), (src.Callout, build_callout(loc=b"", subs=[build_mru([9])])),
    (src.Callout, build_callout(subs=[build_fru(0x08), build_fru(0x0D)])),
    (src.Callout, build_callout(subs=[b"XX\x08\x00abcd", build_fru(0x08)])),
    (src.Callout, build_callout(subs=[build_pce(size=0)])), (src.Callout, build_callout(subs=[build_pce(size=4)])),
    (src.Callout, build_callout(subs=[build_mru([1], size=0), build_mru([2], size=0)], size=255)),
    (src.Callout, build_callout(subs=[build_fru(0x08)], size=4)), (src.Callout, build_callout(subs=[build_fru(0x08)], size=0)),
    (src.Callout, build_callout(subs=[build_fru(0x08)], size=255)),
    (src.Callout, build_callout(loc=b"\xff\xfe\xfd\xfc", subs=[build_fru(0x08)])),
    (src.Callout, build_callout(loc=b"ABCD", loclen=200)),
]
rng = random.Random(4242)
for n, (cls, data) in enumerate(STRUCTS):
    case("struct-%d" % n, lambda cls=cls, data=data: on_stream(cls, data))
    case("struct-skip-%d" % n, lambda cls=cls, data=data: on_stream(cls, b"\x01\x02\x03" + data + b"tail", skip=3))
    case("struct-le-%d" % n, lambda cls=cls, data=data: on_stream(cls, data, "little", True))
    case("struct-mv-%d" % n, lambda cls=cls, data=data: on_stream(cls, memoryview(data)))
    case("struct-nobo-%d" % n, lambda cls=cls, data=data: on_stream(cls, data, None, None))
    for cut in range(len(data)):
        case("struct-%d-cut-%d" % (n, cut), lambda cls=cls, data=data, cut=cut: on_stream(cls, data[:cut]))
    for m in range(12):
        b = bytearray(data)
        for _ in range(rng.randint(1, 3)):
            b[rng.randrange(len(b))] = rng.choice([0, 1, 2, 4, 8, 0x0F, 0x10, 0x7F, 0x80, 0xFF, rng.randrange(256)])
        case("struct-%d-mut-%d" % (n, m), lambda cls=cls, b=bytes(b): on_stream(cls, b))
for n in range(150):
    data = bytes(rng.randrange(256) for _ in range(rng.randint(0, 60)))
    for cls in (src.FRUIdentity, src.PCEIdentity, src.MRU, src.Callout):
        case("struct-rand-%s-%d" % (cls.__name__, n), lambda cls=cls, data=data: on_stream(cls, data))
for n in range(150):
    # random but plausible callouts: type tags kept intact
    subs = []
    for _ in range(rng.randint(0, 4)):
        kind = rng.randrange(4)
        if kind == 0:
            subs.append(build_fru(rng.randrange(256), size=rng.choice([None, None, rng.randrange(256)])))
        elif kind == 1:
            subs.append(build_pce(name=bytes(rng.choice(b"ab\x00") for _ in range(rng.randint(0, 6))),
                                  size=rng.choice([None, None, rng.randrange(40)])))
        elif kind == 2:
            subs.append(build_mru([rng.randrange(1 << 32) for _ in range(rng.randint(0, 4))],
                                  flags=rng.choice([None, None, rng.randrange(256)])))
        else:
            subs.append(bytes(rng.randrange(256) for _ in range(rng.randint(1, 8))))
    data = build_callout(rng.choice([0x48, 0x4D, 0x41, 0x00]), loc=rng.choice([b"", b"U1\x00\x00", b"Uxyz-P1-C22\x00"]),
                         subs=subs, size=rng.choice([None, None, None, rng.randrange(256)]))
    case("struct-plaus-%d" % n, lambda data=data: on_stream(src.Callout, data))
case("get_value", lambda: [src.get_value(b"\x01\x02\x03\x04", 0, 2), src.get_value(b"\x01\x02\x03\x04", 3, 2),
                           src.get_value(b"\x01\x02", 5, 2), src.get_value(memoryview(b"IDxx"), 0, 2)])

# ----------------------------------------------------------------------------
# SRC.toJSON directly (state of the object is compared as well)
# ----------------------------------------------------------------------------
def src_direct(body, creator="O", plugins=True, order="big", signed=False, twice=False, comp=0x2000):
    st = DataStream(body, byte_order=order, is_signed=signed)
    s = src.SRC(st, 0x5053, 8 + len(body), 1, 1, comp, creator)
    res = []
    try:
        res.append(dump(s.toJSON(make_config(plugins))))
        if twice:
            res.append(dump(s.toJSON(make_config(plugins))))
    except BaseException as e:
        res.append(["EXC", type(e).__name__, str(e)])
    state = dump(s)
    return [res, state, st.index]


ASCII = [b"BD8DE510", b"BD8DE504", b"BD8D2030", b"BD8D2031", b"BD8D2032", b"BD8D2033", b"BD8D2034", b"BD8D2035", b"BD8D2036", b"BD8D9999",
         b"11002040", b"110015FF", b"BC8A2041", b"BC8A1510", b"B7001111", b"bd8d2030", b"BD", b"", b"BD8D20",
         b"BD8Dabcd", b"BD8DABCD", b"\x00" * 32, b"BD8D2030" + b"\x00" * 24, b"BD8D2030 with trailing text   "]
for n, a in enumerate(ASCII):
    for cr in ("O", "B", "H", "T", "K", "Z"):
        for plugins in (True, False):
            for flags in (0x00, 0x01):
                body = build_src_body(a, flags=flags, callouts=std_callouts() if flags & 1 else b"")
                case("srcdirect-%d-%s-%d-%x" % (n, cr, plugins, flags),
                     lambda body=body, cr=cr, plugins=plugins: src_direct(body, cr, plugins))
for flags in range(0, 256, 1):
    body = build_src_body(b"BD8D2030", flags=flags, callouts=std_callouts())
    case("srcdirect-flags-%x" % flags, lambda body=body: src_direct(body))
for wc in list(range(0, 14)) + [0x7F, 0xFF]:
    for twice in (False, True):
        body = build_src_body(b"BD8D2031", wordcount=wc)
        case("srcdirect-wc-%d-%d" % (wc, twice), lambda body=body, twice=twice: src_direct(body + body, twice=twice))
    # second decode on the same object: hexData keeps growing, so word numbers > 9 become valid
    other = build_src_body(b"BC8A2041", wordcount=wc, words=[0xA0000000 + i for i in range(8)])
    case("srcdirect-wc2-%d" % wc, lambda other=other: src_direct(build_src_body(b"BD8D2031", wordcount=3) + other, twice=True))
for n in range(60):
    words = [rng.choice([0, 0xFFFFFFFF, 0x20000000, 0x02000000, 0x01000000, 0x23000000, rng.randrange(1 << 32)])
             for _ in range(8)]
    for a in (b"BD8D2030", b"11002040", b"BC8A2041", b"B1812222"):
        body = build_src_body(a, words=words, wordcount=rng.choice([9, 9, 5, 2]))
        case("srcdirect-words-%d-%s" % (n, a.decode()), lambda body=body: src_direct(body, rng.choice("OBT")))
        case("srcdirect-words-le-%d-%s" % (n, a.decode()), lambda body=body: src_direct(body, "O", True, "little", True))
case("srcdirect-nobo", lambda: src_direct(build_src_body(), "O", True, None, None))
case("srcdirect-mv", lambda: src_direct(memoryview(build_src_body())))
full = build_src_body(b"BD8D2030", flags=1, callouts=std_callouts())
for cut in range(len(full) + 1):
    case("srcdirect-cut-%d" % cut, lambda cut=cut: src_direct(full[:cut]))
for n in range(400):
    b = bytearray(full)
    for _ in range(rng.randint(1, 4)):
        b[rng.randrange(len(b))] = rng.choice([0, 1, 4, 8, 0x0F, 0x10, 0x18, 0x7F, 0x80, 0xFF, rng.randrange(256)])
    case("srcdirect-mut-%d" % n, lambda b=bytes(b): src_direct(b))
for n in range(200):
    b = bytearray(full)
    # corrupt only the callout area
    for _ in range(rng.randint(1, 3)):
        b[rng.randrange(72, len(b))] = rng.choice([0, 1, 2, 4, 8, 0x0F, 0x10, 0x18, 0x7F, 0x80, 0xFF, rng.randrange(256)])
    case("srcdirect-comut-%d" % n, lambda b=bytes(b): src_direct(b, rng.choice("OBHTZ")))
CALLOUT_SETS = [
    build_callouts([]), build_callouts([], wordlen=0), build_callouts([], wordlen=1), build_callouts([], wordlen=2),
    build_callouts([build_callout(subs=[build_fru(0x1D)])], wordlen=2),
    build_callouts([build_callout(subs=[build_fru(0x1D)])], wordlen=0xFFFF),
    build_callouts([build_callout(loc=b"", subs=[build_pce(size=10)])]),
    build_callouts([build_callout(loc=b"", subs=[build_pce(size=24)])]),
    build_callouts([build_callout(loc=b"", subs=[build_pce(mt=b"\x00" * 8, name=b"\x00\x00")])]),
    build_callouts([build_callout(loc=b"", subs=[build_pce(mt=b"\x00" * 8, name=b"nm")])]),
    build_callouts([build_callout(loc=b"", subs=[build_mru([])])]),
    build_callouts([build_callout(loc=b"", subs=[build_mru([0, 0xFFFFFFFF])])]),
    build_callouts([build_callout(loc=b"\x00\x00\x00\x00", subs=[build_fru(0x10)])]),
    build_callouts([build_callout(loc=b"\x00\x00\x00\x00", subs=[build_fru(0x42, pn=p)]) for p in
                    (b"BMC0001", b"BMC0002", b"BMC0003", b"BMC0004", b"BMC0005", b"BMC0001")]),
    build_callouts([build_callout(p, subs=[build_fru(f)]) for p, f in
                    ((0x48, 0x10), (0x4D, 0x20), (0x41, 0x30), (0x42, 0x40), (0x43, 0x90), (0x4C, 0xA0), (0, 0xB0),
                     (0xFF, 0xC0), (0x49, 0xE0), (0x4E, 0xD0), (0x4D, 0x00))]),
    build_callouts([build_callout(subs=[build_fru(0x0A, pn=b"BOTHSET")])]),
    build_callouts([build_callout()] * 3),
]
for n, cs in enumerate(CALLOUT_SETS):
    for cr in ("O", "B", "H", "P", "T", "K", "L", "Z"):
        for plugins in (True, False):
            body = build_src_body(b"BD8D2030", flags=1, callouts=cs)
            case("srcdirect-cs-%d-%s-%d" % (n, cr, plugins), lambda body=body, cr=cr, plugins=plugins: src_direct(body, cr, plugins))
            case("srcdirect-cs-le-%d-%s-%d" % (n, cr, plugins),
                 lambda body=body, cr=cr, plugins=plugins: src_direct(body, cr, plugins, "little", True))

# ----------------------------------------------------------------------------
# whole PELs through peltool.parsePEL / parsePELSummary
# ----------------------------------------------------------------------------
PELS = {}
for cr in (b"O", b"B", b"H", b"K", b"L", b"M", b"P", b"T", b"Z", b"\x00"):
    PELS["basic-" + cr.hex()] = build_pel(cr, [build_src(ascii_str=b"BD8D2030", flags=1, callouts=std_callouts())])
    PELS["two-" + cr.hex()] = build_pel(cr, [build_src(ascii_str=b"BC8A2041", flags=1, callouts=std_callouts()),
                                               build_src(sid=0x5353, ascii_str=b"11002040"),
                                               build_src(sid=0x5353, ascii_str=b"BD8D2036", comp=0x4142)])
PELS["nosrc"] = build_pel(b"O", [])
PELS["count-too-big"] = build_pel(b"O", [build_src()], count=5)
PELS["count-small"] = build_pel(b"O", [build_src()], count=2)
PELS["other-sections"] = build_pel(b"O", [build_src(), sec_header(0x4D49, 12) + b"abcd", sec_header(0x4D49, 12) + b"efgh"])
PELS["bad-ph"] = b"XX" + build_pel(b"O", [build_src()])[2:]
PELS["bad-uh"] = build_pel(b"O", [build_src()])[:48] + b"ZZ" + build_pel(b"O", [build_src()])[50:]
for name, data in sorted(PELS.items()):
    for plugins in (True, False):
        case("pel-%s-%d" % (name, plugins), lambda data=data, plugins=plugins: decode(data, plugins))
        case("pelsum-%s-%d" % (name, plugins), lambda data=data, plugins=plugins: summary(data, plugins))
base = PELS["basic-4f"]
for cut in range(0, len(base) + 1):
    case("pel-cut-%d" % cut, lambda cut=cut: decode(base[:cut]))
for n in range(500):
    b = bytearray(base)
    for _ in range(rng.randint(1, 4)):
        b[rng.randrange(len(b))] = rng.choice([0, 1, 4, 8, 0x10, 0x42, 0x48, 0x4F, 0x7F, 0x80, 0xFF, rng.randrange(256)])
    case("pel-mut-%d" % n, lambda b=bytes(b): decode(b, rng.random() < 0.8))
baseT = PELS["basic-54"]
for n in range(300):
    b = bytearray(baseT)
    for _ in range(rng.randint(1, 4)):
        b[rng.randrange(72, len(b))] = rng.choice([0, 1, 2, 3, 4, 8, 0x10, 0x42, 0x48, 0x4F, 0x7F, 0x80, 0xFF, rng.randrange(256)])
    case("pelT-mut-%d" % n, lambda b=bytes(b): decode(b))
for n in range(100):
    b = bytes(rng.randrange(256) for _ in range(rng.randint(0, 300)))
    case("pel-rand-%d" % n, lambda b=b: decode(b))
    case("pel-rand-hdr-%d" % n, lambda b=b: decode(base[:80] + b))
base2 = PELS["two-42"]
for n in range(200):
    b = bytearray(base2)
    for _ in range(rng.randint(1, 3)):
        b[rng.randrange(72, len(b))] = rng.randrange(256)
    case("pel2-mut-%d" % n, lambda b=bytes(b): decode(b))
    case("pel2sum-mut-%d" % n, lambda b=bytes(b): summary(b))

# write files for the CLI runs (same content for every run; harmless rewrite)
os.makedirs(PELDIR, exist_ok=True)
for name, data in sorted(PELS.items()):
    with open(os.path.join(PELDIR, name + ".pel"), "wb") as f:
        f.write(data)
with open(os.path.join(PELDIR, "truncated.pel"), "wb") as f:
    f.write(base[:150])
with open(os.path.join(PELDIR, "garbage.txt"), "wb") as f:
    f.write(b"not a pel at all")

case("final-plugin-caches", lambda: [sorted((k, v is None) for k, v in src.srcParsers.items()),
                                     sorted((k, v is None) for k, v in src.calloutParsers.items())])
case("final-compid-state", lambda: [comp_id.attemptedToParseCompIDs, dump(comp_id.componentIDs)])
sys.__stdout__.write("CASES %d\n" % CASES)
'''

REGISTRY_GOOD = {"PELs": [
    {"Name": "a", "SRC": {"ReasonCode": "0x2030",
                          "Words6To9": {"6": {"Description": "desc six", "AdditionalDataPropSource": "WORD6"},
                                        "7": {"AdditionalDataPropSource": "WORD7"},
                                        "9": {"Description": "desc nine", "AdditionalDataPropSource": "WORD9"}}},
     "Documentation": {"Message": "Error %1 happened at %2", "MessageArgSources": ["SRCWord6", "SRCWord8"],
                       "Description": "x"}},
    {"Name": "noreason", "SRC": {"Type": "BD"}, "Documentation": {"Message": "never"}},
    {"Name": "b", "SRC": {"ReasonCode": "0x2031", "Type": "BD", "Words6To9": {}},
     "Documentation": {"Message": "Plain message"}},
    {"Name": "c", "SRC": {"ReasonCode": "0x2032", "Words6To9": {"12": {"Description": "oops",
                                                                      "AdditionalDataPropSource": "W12"}}},
     "Documentation": {"Message": "bad word index"}},
    {"Name": "d", "SRC": {"ReasonCode": "0x2033"},
     "Documentation": {"Message": "brace { in %1 message", "MessageArgSources": ["SRCWord6"]}},
    {"Name": "e", "SRC": {"ReasonCode": "0x2034"},
     "Documentation": {"Message": "too few %1 %2", "MessageArgSources": ["SRCWord9"]}},
    {"Name": "f", "SRC": {"ReasonCode": "0x2035"},
     "Documentation": {"Message": "", "MessageArgSources": []}},
    {"Name": "g", "SRC": {"ReasonCode": "0x2036", "Words6To9": {"8": {"Description": "shadow",
                                                                     "AdditionalDataPropSource": "Message"}}},
     "Documentation": {"Message": "shadowed"}},
    {"Name": "dupe", "SRC": {"ReasonCode": "0x2030"}, "Documentation": {"Message": "second match, never used"}},
    {"Name": "p", "SRC": {"ReasonCode": "0x2040", "Type": "11",
                          "Words6To9": {"6": {"Description": "pwr", "AdditionalDataPropSource": "PWR"}}},
     "Documentation": {"Message": "Power fault %1", "MessageArgSources": ["SRCWord7"]}},
    {"Name": "h", "SRC": {"ReasonCode": "0x2041", "Type": "BC"},
     "Documentation": {"Message": "Hostboot %1 %2 %3", "MessageArgSources": ["SRCWord2", "SRCWord3", "SRCWord9"]}},
    {"Name": "list", "SRC": {"ReasonCode": ["0xABCD", "0x1510"], "Type": "BC"},
     "Documentation": {"Message": "list of codes"}},
    {"Name": "long", "SRC": {"ReasonCode": "0xE5040"}, "Documentation": {"Message": "substring match"}},
]}

REGISTRY_BAD = [
    [{"Name": "nosrc", "Documentation": {"Message": "m"}}],
    [{"SRC": {"ReasonCode": "0x2030"}}],
    [{"SRC": {"ReasonCode": "0x2030"}, "Documentation": {}}],
    [{"SRC": {"ReasonCode": "0x2030"}, "Documentation": {"MessageArgSources": ["SRCWord6"]}}],
    [{"SRC": {"ReasonCode": "0x2030"}, "Documentation": None}],
    [{"SRC": {"ReasonCode": "0x2030"}, "Documentation": "Message"}],
    [{"SRC": {"ReasonCode": "0x2030"}, "Documentation": ["Message"]}],
    [{"SRC": {"ReasonCode": None}, "Documentation": {"Message": "m"}}],
    [{"SRC": {"ReasonCode": 2030}, "Documentation": {"Message": "m"}}],
    [{"SRC": "ReasonCode", "Documentation": {"Message": "m"}}],
    [{"SRC": ["ReasonCode"], "Documentation": {"Message": "m"}}],
    [{"SRC": None, "Documentation": {"Message": "m"}}],
    [None],
    ["SRC"],
    [[]],
    [5],
    [{"SRC": {"ReasonCode": "0x2031", "Type": "11"}, "Documentation": {"Message": "first"}},
     {"SRC": {"ReasonCode": "0x2031"}},
     {"SRC": {"ReasonCode": "0x2031", "Type": "BC"}, "Documentation": {"Message": "third"}}],
    [{"SRC": {"ReasonCode": "0x2031", "Type": None}, "Documentation": {"Message": "none type"}},
     {"SRC": {"ReasonCode": "0x2030", "Type": "BD", "Words6To9": 0}, "Documentation": {"Message": "falsy words"}}],
    [{"SRC": {"ReasonCode": "0x2030", "Words6To9": [1]}, "Documentation": {"Message": "list words",
                                                                        "MessageArgSources": None}}],
    {"0": {"SRC": {"ReasonCode": "0x2030"}, "Documentation": {"Message": "dict of pels"}}},
    "0x2030",
    [],
]

PLUGINS = {
    "pel_registry/__init__.py": (
        "import os\n"
        "def get_registry_path():\n"
        "    return os.path.join(os.path.dirname(__file__), 'message_registry.json')\n"),
    "calloutparsers/__init__.py": "import pkgutil\n__path__ = pkgutil.extend_path(__path__, __name__)\n",
    "calloutparsers/tcallouts/__init__.py": "",
    "calloutparsers/tcallouts/tcallouts.py": (
        "import json\n"
        "def getMaintProcDesc(name):\n"
        "    if name == 'BMC0001':\n"
        "        return json.dumps(['line one', 'line two for ' + name])\n"
        "    if name == 'BMC0002':\n"
        "        return ''\n"
        "    if name == 'BMC0003':\n"
        "        return 'this is not json'\n"
        "    if name == 'BMC0004':\n"
        "        raise RuntimeError('boom')\n"
        "    if name == 'BMC0005':\n"
        "        print('callout plugin says hi')\n"
        "        return json.dumps({'k': name})\n"
        "    return None\n"),
    "calloutparsers/bcallouts/__init__.py": "",
    "calloutparsers/bcallouts/bcallouts.py": "raise ValueError('broken callout plugin')\n",
    "calloutparsers/hcallouts/__init__.py": "",
    "calloutparsers/hcallouts/hcallouts.py": "x = 1\n",
    "calloutparsers/pcallouts/__init__.py": "",
    "calloutparsers/pcallouts/pcallouts.py": "import sys\nsys.exit(7)\n",
    "srcparsers/__init__.py": "import pkgutil\n__path__ = pkgutil.extend_path(__path__, __name__)\n",
    "srcparsers/tsrc/__init__.py": "",
    "srcparsers/tsrc/tsrc.py": (
        "import json\n"
        "def parseSRCToJson(ascii, w2, w3, w4, w5, w6, w7, w8, w9):\n"
        "    if w3.endswith('FF'):\n"
        "        raise KeyError('bad word ' + w3)\n"
        "    if w4.endswith('00'):\n"
        "        return 'null'\n"
        "    if w4.endswith('01'):\n"
        "        return ''\n"
        "    if w4.endswith('02'):\n"
        "        return '{not json'\n"
        "    if w4.endswith('03'):\n"
        "        return None\n"
        "    return json.dumps({'ascii': ascii.strip(), 'words': [w2, w3, w4, w5, w6, w7, w8, w9]})\n"),
    "srcparsers/o2000/__init__.py": "",
    "srcparsers/o2000/o2000.py": (
        "import json\n"
        "def parseSRCToJson(ascii, *words):\n"
        "    if words[2].endswith('44'):\n"
        "        return json.dumps({'component parser': ascii.strip(), 'n': len(words), 'w': words[4]})\n"
        "    raise RuntimeError('component parser failed for ' + words[2])\n"),
    "srcparsers/bsrc/__init__.py": "",
    "srcparsers/bsrc/bsrc.py": "raise ValueError('broken src plugin')\n",
    "srcparsers/hsrc/__init__.py": "",
    "srcparsers/hsrc/hsrc.py": "x = 1\n",
    "srcparsers/psrc/__init__.py": "",
    "srcparsers/psrc/psrc.py": "import sys\nsys.exit(7)\n",
    "srcparsers/lsrc/__init__.py": "",
    "srcparsers/lsrc/lsrc.py": "print('importing lsrc')\nraise ImportError('lsrc is noisy and broken')\n",
    "calloutparsers/lcallouts/__init__.py": "",
    "calloutparsers/lcallouts/lcallouts.py": "print('importing lcallouts')\nraise ImportError('lcallouts is noisy')\n",
    "srcparsers/ksrc/__init__.py": "",
    "srcparsers/ksrc/ksrc.py": (
        "def parseSRCToJson(*args):\n"
        "    print('src plugin output', len(args))\n"
        "    return '[1, 2, 3]'\n"),
}

COMP_FILES = {
    "O_component_ids.json": {"1000": "bmc common function", "2000": "bmc error logging", "ABCD": "upper",
                             "abcd": "lower", "3000": "bmc state"},
    "B_component_ids.json": {"3000": "hostboot three", "0100": "hb one"},
    "N_component_ids.json": None,
    "L_component_ids.json": ["3000", "1000"],
    "T_component_ids.json.bak": {"1000": "from a backup file"},
    "unrelated.json": {"1000": "unrelated"},
    "_component_ids.json": {"1000": "empty creator"},
}


def write_support(work):
    sup = os.path.join(work, "support")
    for rel, text in PLUGINS.items():
        path = os.path.join(sup, rel)
        os.makedirs(os.path.dirname(path), exist_ok=True)
        with open(path, "w") as f:
            f.write(text)
    regdir = os.path.join(sup, "pel_registry")
    with open(os.path.join(regdir, "message_registry.json"), "w") as f:
        json.dump(REGISTRY_GOOD, f)
    for name, content in COMP_FILES.items():
        with open(os.path.join(regdir, name), "w") as f:
            json.dump(content, f)
    with open(os.path.join(work, "registry_good.json"), "w") as f:
        json.dump(REGISTRY_GOOD, f)
    with open(os.path.join(work, "registry_bad.json"), "w") as f:
        json.dump(REGISTRY_BAD, f)
    with open(os.path.join(work, "srcexclude.txt"), "w") as f:
        f.write("BD8D2030\n11002040\n")
    # alternative "BMC" config roots for comp_id
    good = os.path.join(work, "cfg_good")
    os.makedirs(good)
    with open(os.path.join(good, "O_component_ids.json"), "w") as f:
        json.dump({"1000": "root good"}, f)
    with open(os.path.join(good, "message_registry.json"), "w") as f:
        json.dump(REGISTRY_GOOD, f)
    bad = os.path.join(work, "cfg_bad")
    os.makedirs(bad)
    with open(os.path.join(bad, "O_component_ids.json"), "w") as f:
        f.write("{ this is not json")
    os.makedirs(os.path.join(work, "cfg_empty"))
    null = os.path.join(work, "cfg_null")
    os.makedirs(null)
    with open(os.path.join(null, "N_component_ids.json"), "w") as f:
        f.write("null")
    with open(os.path.join(null, "O_component_ids.json"), "w") as f:
        f.write("[\"1000\"]")
    with open(os.path.join(work, "driver.py"), "w") as f:
        f.write(DRIVER)
    return sup


def run(cmd, env, cwd):
    p = subprocess.run(cmd, env=env, cwd=cwd, stdout=subprocess.PIPE, stderr=subprocess.PIPE, timeout=1200)
    return p.returncode, p.stdout.decode("utf-8", "replace"), p.stderr.decode("utf-8", "replace")


def make_env(root, support):
    env = {k: v for k, v in os.environ.items() if k not in ("PYTHONPATH", "PYTHONOPTIMIZE")}
    path = os.path.join(root, "modules")
    if support:
        # the fake plug-in packages extend the real ones (pkgutil.extend_path)
        path = support + os.pathsep + path
    env["PYTHONPATH"] = path
    env["PYTHONDONTWRITEBYTECODE"] = "1"
    env["PYTHONHASHSEED"] = "0"
    return env


CLI_OPTION_SETS = [
    ["-f", "@basic-4f.pel"], ["-f", "@basic-4f.pel", "-P"], ["-f", "@basic-42.pel"], ["-f", "@two-48.pel"],
    ["-f", "@two-4f.pel", "-P"], ["-f", "@truncated.pel"], ["-f", "@garbage.txt"], ["-f", "@bad-ph.pel"],
    ["-f", "@basic-50.pel"], ["-f", "@two-50.pel"], ["-f", "@basic-54.pel"], ["-f", "@two-54.pel"], ["-f", "@two-4b.pel"], ["-f", "@basic-4f.pel", "-x"], ["-f", "@count-too-big.pel"],
    ["-p", "@", "-l"], ["-p", "@", "-l", "-E"], ["-p", "@", "-l", "-E", "-r", "-e", ".pel"], ["-p", "@", "-a", "-E"],
    ["-p", "@", "-a", "-E", "-P", "-e", ".pel"], ["-p", "@", "-n", "-E"], ["-p", "@", "--src", "BD8D2030", "-E"],
    ["-p", "@", "--src", "BC8A", "-e", ".pel"], ["-p", "@", "--plid", "50001234", "-E", "-e", ".pel"],
    ["-p", "@", "-i", "basic-4f"], ["-p", "@", "--bmc-id", "77", "-e", ".pel"],
    ["-p", "@", "--src-exclude", "@@srcexclude.txt", "-E", "-e", ".pel"],
]


def collect(root, work, support, optimize):
    """returns list of (case id, record) for one root / mode"""
    records = []
    env = make_env(root, support)
    opt = ["-O"] if optimize else []
    rc, out, err = run([PYTHON] + opt + [os.path.join(work, "driver.py"), work], env, work)
    lines = out.splitlines()
    for line in lines:
        if line.startswith("{"):
            rec = json.loads(line)
            records.append((rec["id"], line))
        else:
            records.append(("driver-line", line))
    records.append(("driver-exit", repr((rc, err))))
    peltool = os.path.join(root, "modules", "pel", "peltool", "peltool.py")
    peldir = os.path.join(work, "pels")
    for n, opts in enumerate(CLI_OPTION_SETS):
        args = []
        for o in opts:
            if o.startswith("@@"):
                args.append(os.path.join(work, o[2:]))
            elif o.startswith("@"):
                args.append(os.path.join(peldir, o[1:]) if o[1:] else peldir)
            else:
                args.append(o)
        res = run([PYTHON] + opt + [peltool] + args, env, work)
        # the script path differs between the roots; it only shows up in usage texts
        res = tuple(r.replace(root, "<ROOT>") if isinstance(r, str) else r for r in res)
        records.append(("cli-%d" % n, repr(res)))
    return records


def main():
    if len(sys.argv) != 3:
        sys.exit("usage: diffcheck.py <pristine_root> <patched_root>")
    pristine, patched = (os.path.abspath(p) for p in sys.argv[1:3])
    work = tempfile.mkdtemp(prefix="r42_diffcheck_")
    total = 0
    ok = True
    try:
        support = write_support(work)
        for use_support in (True, False):
            for optimize in (False, True):
                mode = "support=%d,-O=%d" % (use_support, optimize)
                a = collect(pristine, work, support if use_support else None, optimize)
                b = collect(patched, work, support if use_support else None, optimize)
                if len(a) != len(b):
                    print("DIFFERENT number of records in mode %s: %d vs %d" % (mode, len(a), len(b)))
                    ok = False
                if len(a) < 1000:
                    print("driver produced too few records in mode %s (%d): %s" % (mode, len(a), a[-1:]))
                    ok = False
                for (ida, ra), (idb, rb) in zip(a, b):
                    total += 1
                    if ida != idb or ra != rb:
                        ok = False
                        print("DIFFERENCE in mode %s, case %s / %s:\n  pristine: %s\n  patched:  %s" %
                              (mode, ida, idb, ra[:2000], rb[:2000]))
    finally:
        shutil.rmtree(work, ignore_errors=True)
    if ok:
        print("IDENTICAL (%d cases)" % total)
        sys.exit(0)
    print("NOT IDENTICAL (%d cases compared)" % total)
    sys.exit(1)


if __name__ == "__main__":
    main()
