#!/usr/bin/env python3
"""
Differential check for refactorings of modules/io_drawer/* and
modules/udparsers/m2c00/m2c00.py.

Usage:  diffcheck.py <pristine_root> <patched_root>

The script runs a deterministic "worker" (this same file, --worker) once per
source tree in a subprocess with PYTHONPATH=<root>/modules (normal and -O),
which exercises the io_drawer and m2c00 code on many generated inputs and
prints one line per case.  It also runs the dump.py and peltool.py command
lines on generated dump files / binary PELs.  All outputs are compared.

Prints "IDENTICAL (<n> cases)" and exits 0 if everything is identical,
otherwise prints the differences and exits 1.
"""

import json
import os
import random
import shutil
import struct
import subprocess
import sys
import tempfile

PY = sys.executable


# ---------------------------------------------------------------------------
# Input generators (shared by worker and CLI driver; deterministic)
# ---------------------------------------------------------------------------

BUFFER_NAMES = ['IICS', 'IICM', 'POWR', 'FANS', 'INFO', 'ERRL']


def read_hashes(string_file):
    hashes = []
    with open(string_file) as f:
        for line in f:
            parts = line.split('||')
            if len(parts) == 3 and parts[0].strip().isdigit():
                hashes.append(int(parts[0].strip()))
    return hashes


def make_header(name=b'IICS', size=None, ver=2, hdr_len=32, time_flg=1,
                endian=0x42, wrap=0, next_free=0, body_len=0):
    if size is None:
        size = 32 + body_len
    comp = name[:12].ljust(12, b'\0')
    return (bytes([ver & 0xFF, hdr_len & 0xFF, time_flg & 0xFF, endian & 0xFF])
            + comp + b'\0\0\0\0'
            + struct.pack('>III', size & 0xFFFFFFFF, wrap & 0xFFFFFFFF,
                          next_free & 0xFFFFFFFF))


def make_entry(rnd, hash_value, tag=0x4654, data=b'', tbh=None, tbl=None,
               line=None, bad=None):
    tbh = rnd.randrange(0x10000) if tbh is None else tbh
    tbl = rnd.randrange(0x10000) if tbl is None else tbl
    line = rnd.randrange(0, 100000) if line is None else line
    length = len(data)
    pad = b'\0' * ((4 - length % 4) % 4)
    total = 16 + length + len(pad) + 4
    if bad == 'size':
        total += rnd.choice([-4, -1, 1, 4, 1000])
    if bad == 'length':
        length = rnd.choice([1025, 2000, 0xFFFF])
    if bad == 'nopad':
        pad = b''
    return (struct.pack('>HHHHII', tbh, tbl, length & 0xFFFF, tag,
                        hash_value & 0xFFFFFFFF, line & 0xFFFFFFFF)
            + data + pad + struct.pack('>I', total & 0xFFFFFFFF))


def rand_bytes(rnd, n):
    return bytes(rnd.randrange(256) for _ in range(n))


def make_trace_buffer(rnd, hashes, name=None, n_entries=None, mutate=None):
    name = (name or rnd.choice(BUFFER_NAMES)).encode()
    n = rnd.randrange(0, 8) if n_entries is None else n_entries
    body = b''
    for _ in range(n):
        kind = rnd.random()
        if kind < 0.45 and hashes:
            h = rnd.choice(hashes)
        elif kind < 0.7 and hashes:
            h = (rnd.choice(hashes) + 100000 * rnd.randrange(1, 50)) \
                & 0xFFFFFFFF
        else:
            h = rnd.randrange(0, 1 << 32)
        tag = rnd.choice([0x4654, 0x4654, 0x4644, rnd.randrange(0x10000)])
        dlen = rnd.choice([0, 0, 4, 8, 12, 16, 20, 24, 1, 2, 3, 5, 7, 13,
                           rnd.randrange(0, 64), 1024])
        if rnd.random() < 0.5:
            data = rand_bytes(rnd, dlen)
        else:
            data = bytes(rnd.choice([0, 1, 2, 0x41, 0x7F]) for _ in range(dlen))
        bad = None
        if mutate == 'entry' and rnd.random() < 0.3:
            bad = rnd.choice(['size', 'length', 'nopad'])
        body += make_entry(rnd, h, tag, data, bad=bad)
    size = None
    if mutate == 'hdrsize':
        size = rnd.choice([0, 31, 32, 33, 32 + len(body) // 2,
                           32 + len(body) + 100, 0xFFFFFFFF])
    buf = make_header(name, size=size, wrap=rnd.randrange(0, 5),
                      next_free=rnd.randrange(0, 4096),
                      body_len=len(body)) + body
    if mutate == 'truncate' and buf:
        buf = buf[:rnd.randrange(0, len(buf))]
    elif mutate == 'flip' and buf:
        b = bytearray(buf)
        for _ in range(rnd.randrange(1, 6)):
            b[rnd.randrange(len(b))] = rnd.randrange(256)
        buf = bytes(b)
    elif mutate == 'append':
        buf += rand_bytes(rnd, rnd.randrange(1, 40))
    return buf


def make_ilog(rnd, n=None, special=True):
    n = rnd.randrange(0, 12) if n is None else n
    out = b''
    ptes = [0x010000DE, 0x01040000, 0x0101443F, 0xE2082690, 0xE20C2690,
            0xE2042690, 0x100100FF, 0x02003132, 0x00000000, 0xFFFFFFFF,
            0xE0040000, 0xE0000000, 0xD0040000]
    for _ in range(n):
        r = rnd.random()
        if special and r < 0.1:
            out += b'\0' * 8
            continue
        ts = rnd.choice([0, 1, 59, 60, 3599, 3600, 0xFFFE, 0xFFFF,
                         rnd.randrange(0x10000)])
        seq = rnd.choice([0, rnd.randrange(0x10000)])
        pte = rnd.choice(ptes) if r < 0.6 else rnd.randrange(1 << 32)
        if rnd.random() < 0.2:
            pte |= 0x00040000
        out += struct.pack('>HHI', ts, seq, pte)
    if rnd.random() < 0.3:
        out += rand_bytes(rnd, rnd.randrange(1, 8))
    return out


def hexdump_lines_bmc(data, upper=True):
    lines = []
    for i in range(0, len(data), 16):
        chunk = data[i:i + 16]
        words = [chunk[j:j + 4].hex() for j in range(0, len(chunk), 4)]
        if upper:
            words = [w.upper() for w in words]
        text = ''.join(chr(b) if 0x20 <= b < 0x7f else '.' for b in chunk)
        line = '%04X:  %s' % (i & 0xFFFF, ' '.join(words))
        if len(chunk) == 16:
            line += '  <%s>' % text
        lines.append(line + '\n')
    return lines


def hexdump_lines_old(data):
    lines = []
    for i in range(0, len(data), 16):
        chunk = data[i:i + 16]
        line = ' '.join('%02x' % b for b in chunk)
        if len(chunk) == 16:
            line += ' ' + ''.join(chr(b) if 0x20 <= b < 0x7f else '.'
                                  for b in chunk)
        lines.append(line + '\n')
    return lines


def make_dump_bytes(rnd, hashes, variant):
    ilog = make_ilog(rnd)
    bufs = []
    names = BUFFER_NAMES[:]
    rnd.shuffle(names)
    nb = rnd.randrange(0, 5)
    for name in names[:nb]:
        mut = None
        if variant == 'corrupt':
            mut = rnd.choice([None, 'truncate', 'flip', 'entry', 'hdrsize',
                              'append'])
        bufs.append(make_trace_buffer(rnd, hashes, name=name, mutate=mut))
    if variant == 'dupname' and bufs:
        bufs.append(make_trace_buffer(rnd, hashes, name=names[0]))
    data = ilog + b''.join(bufs)
    if variant == 'noilog':
        data = b''.join(bufs)
    if variant == 'random':
        data = rand_bytes(rnd, rnd.randrange(0, 200))
    return data


CUSTOM_STRINGS = [
    '#FSP_TRACE_v2|||Thu Sep 24 12:55:43 2020|||BUILD:Release\n',
    '100001||I> plain message||a.cpp(1)\n',
    '200002||I> one arg %d||b.cpp(2)\n',
    '  300003  ||  E> two args 0x%X and %u  ||  c.cpp(3)  \n',
    '400004||five %d %d %d %d %d||d.cpp(4)\n',
    '500005||six %d %d %d %d %d %d||e.cpp(5)\n',
    '600006||str %s and char %c||f.cpp(6)\n',
    '700007||percent %% literal %d||g.cpp(7)\n',
    '800008||bad spec %q %d||h.cpp(8)\n',
    '900009||||empty.cpp(9)\n',
    '1000010||a||b||c.cpp(10)\n',
    'notanumber||x||y.cpp(11)\n',
    '1100011|x||y.cpp(12)\n',
    '1200012||no newline at end||z.cpp(13)',
    '\n',
    '1300013||dup first||dup.cpp(1)\n',
    '1300013||dup second||dup.cpp(2)\n',
    '2300013||partial A %d||pa.cpp(23)\n',
    '3300013||partial B %x||pb.cpp(33)\n',
    '00000000000000000014||leading zeros %d||lz.cpp(14)\n',
    '99999999999999999999||huge||huge.cpp(15)\n',
]

CUSTOM_HEADER = [
    '// comment\n',
    '  { "FFFF****", "Outside the table %d", {3}, "out.cpp", 1 },\n',
    'static struct pte_entry_struct static_pte_entry_table[PTE_TABLE_SIZE] = \n',
    '{\n',
    '  { "010000**", "Begin power on, node type = 0x%02X", {4}, "states.cpp", 485 },\n',
    '  { "0101****", "Fan presence 0x%02X, flash = %c", {4, 3}, "fan.cpp", 530 },\n',
    '  { "01040000", "  Power on complete  ", {}, "states.cpp", 601 },\n',
    '  { "E2082690", "P1 IO Bay VRM in \\"N-Mode\\"", {}, "vrm_monitor.cpp", 145 },\n',
    '  { "e30a****", "lower case pattern %d %d", {3,4}, "lc.cpp", 7 },\n',
    '  { "0200****", "Too few specs %c", {3, 4}, "states.cpp", 254 },\n',
    '  { "0300****", "Too many specs %d %d %d", {3}, "states.cpp", 255 },\n',
    '  { "0400****", "Out of range params %d", {0, 5, 9, 2}, "states.cpp", 256 },\n',
    '  { "0500****", "Double digit %d", {12}, "states.cpp", 257 },\n',
    '  { "0600****", "No trailing comma", {1}, "states.cpp", 258 }\n',
    '  { "07******", "Literal 100%", {}, "pct.cpp", 259 },\n',
    '  { "0[89]00**", "regex chars", {1}, "re.cpp", 260 },\n',
    '  { "E4******", "error entry %02X", {2}, "err.cpp", 261 },\n',
    '  { "********", "catch all short", {}, "all.cpp", 262 },\n',
    '  { ""        , "The End" }\n',
    '  { "AAAA****", "After the end %d", {3}, "after.cpp", 2 },\n',
    '};\n',
    '\n',
    'struct mex_hlog_field mex_hlog_fields[MEX_HLOG_FIELD_COUNT] =\n',
    '{\n',
    '  { 1, "hl_one" }, \n',
    '  { 2, "hl_two" },\n',
    '  { 3, "hl_three_invalid" },\n',
    '  { 1, "hl_again" }\n',
    '  garbage line\n',
    '  { 2, "hl_last" },\n',
    '};\n',
    '  { 1, "hl_outside" },\n',
    'static struct mex_hlog_field mex_hlog_fields[N] = {\n',
    '  { 1, "hl_second_block" },\n',
    '};\n',
]

BAD_HEADER = [
    'struct pte_entry_struct static_pte_entry_table[PTE_TABLE_SIZE] = {\n',
    '  { "0[1", "unbalanced regex", {}, "bad.cpp", 1 },\n',
    '  { ""        , "The End" }\n',
]


def write_lines(path, lines):
    with open(path, 'w') as f:
        f.writelines(lines)


def prepare_files(workdir):
    files = {}
    files['strings'] = os.path.join(workdir, 'customStringFile')
    write_lines(files['strings'], CUSTOM_STRINGS)
    files['header'] = os.path.join(workdir, 'custom_pte.h')
    write_lines(files['header'], CUSTOM_HEADER)
    files['badheader'] = os.path.join(workdir, 'bad_pte.h')
    write_lines(files['badheader'], BAD_HEADER)
    files['empty'] = os.path.join(workdir, 'empty_file')
    write_lines(files['empty'], [])
    files['missing'] = os.path.join(workdir, 'does_not_exist')
    return files


# ---------------------------------------------------------------------------
# Worker: runs in a subprocess with PYTHONPATH=<root>/modules
# ---------------------------------------------------------------------------

def worker(root, workdir):
    import contextlib
    import io

    from io_drawer import dump as dump_mod
    from io_drawer import hlog as hlog_mod
    from io_drawer import ilog as ilog_mod
    from io_drawer import trace as trace_mod
    from io_drawer import utils as utils_mod
    from io_drawer.drawer_type import (DRAWER_TYPES, MEX_DRAWER_TYPE,
                                       NIMITZ_DRAWER_TYPE)
    from pel.datastream import DataStream
    from udparsers.m2c00 import m2c00

    assert os.path.realpath(trace_mod.__file__).startswith(
        os.path.realpath(root)), trace_mod.__file__

    out = sys.stdout
    counter = [0]

    def norm(v):
        if isinstance(v, memoryview):
            return ('mv', v.tobytes().hex())
        if isinstance(v, (bytes, bytearray)):
            return (type(v).__name__, bytes(v).hex())
        if isinstance(v, (list, tuple)):
            return (type(v).__name__, [norm(x) for x in v])
        if isinstance(v, dict):
            return (type(v).__name__, [(norm(k), norm(x))
                                       for k, x in v.items()])
        if isinstance(v, (str, int, float, bool)) or v is None:
            return (type(v).__name__, v)
        if hasattr(v, 'pattern') and hasattr(v, 'flags'):
            return ('re', v.pattern, v.flags)
        if hasattr(v, '__dict__'):
            return (type(v).__name__, norm(vars(v)))
        return ('repr', repr(v))

    def emit(name, value):
        counter[0] += 1
        text = repr(norm(value)).replace(root, '<ROOT>')
        out.write('%05d:%s\t%s\n' % (counter[0], name, text))

    def run(name, fn, *args, **kwargs):
        try:
            res = fn(*args, **kwargs)
        except BaseException as e:      # noqa
            res = ('EXC', type(e).__name__, str(e))
        emit(name, res)
        return res

    files = prepare_files(workdir)
    mex_strings = MEX_DRAWER_TYPE.get_trace_string_file_path()
    nim_strings = NIMITZ_DRAWER_TYPE.get_trace_string_file_path()
    mex_header = MEX_DRAWER_TYPE.get_header_file_path()
    nim_header = NIMITZ_DRAWER_TYPE.get_header_file_path()
    mex_hashes = read_hashes(mex_strings)
    nim_hashes = read_hashes(nim_strings)
    custom_hashes = [100001, 200002, 300003, 400004, 500005, 600006, 700007,
                     800008, 900009, 1000010, 1200012, 1300013, 2300013,
                     3300013, 14, 4300013, 5400004, 99999999999999999999]

    rnd = random.Random(20240917)

    # --- utils.format_timestamp -------------------------------------------
    for t in list(range(-3, 130)) + [3599, 3600, 3601, 7199, 7200, 35999,
                                     36000, 0xFFFE, 0xFFFF, 0x10000, 10**9,
                                     True, False, 59.0, None, 'x']:
        run('ts/%r' % (t,), utils_mod.format_timestamp, t)
    for _ in range(300):
        t = rnd.randrange(0x10000)
        run('ts/r%d' % t, utils_mod.format_timestamp, t)

    # --- trace.TraceString ------------------------------------------------
    fmts = ['plain', 'one %d', 'two %d %x', 'hex 0x%08X', 'str %s', 'chr %c',
            'pct %% %d', 'bad %q', 'five %d %d %d %d %d', 'trailing %',
            '%(name)s', '', '%5.2f|%-4d|%+d']
    argsets = [(), (1,), (1, 2), (65, 66, 67), (1, 2, 3, 4, 5),
               (0xFFFFFFFF,), (0x110000,), (-1,)]
    for fi, fmt in enumerate(fmts):
        ts = trace_mod.TraceString(12345678, fmt, 'loc.cpp(1)')
        for ai, a in enumerate(argsets):
            run('tstr/msg/%d/%d' % (fi, ai), ts.get_message, a)
    hv = [0, 1, 13, 100000, 100013, 1300013, 2300013, 99999, 12345678,
          12445678, 4294967295, -1, None]
    for a in hv:
        ts = trace_mod.TraceString(a, 'f', 'l')
        emit('tstr/vars/%r' % (a,), ts)
        for b in hv:
            run('tstr/match/%r/%r' % (a, b), ts.is_match, b)
            run('tstr/partial/%r/%r' % (a, b), ts.is_partial_match, b)

    # --- trace.TraceStringFile --------------------------------------------
    for label, path in [('custom', files['strings']), ('mex', mex_strings),
                        ('nimitz', nim_strings), ('empty', files['empty']),
                        ('missing', files['missing']),
                        ('hdr', files['header'])]:
        sf = run('tsf/new/' + label, trace_mod.TraceStringFile, path)
        if isinstance(sf, tuple):
            continue
        emit('tsf/count/' + label, len(sf.trace_strings))
        pool = {'custom': custom_hashes, 'mex': mex_hashes[:40],
                'nimitz': nim_hashes[:40]}.get(label, [1, 2])
        for h in pool:
            for delta in (0, 100000, 300000, 1, -100000):
                run('tsf/get/%s/%d/%d' % (label, h, delta),
                    sf.get_trace_string, h + delta)
        for fi, fields in enumerate([('1', 'a', 'b'), (' 22 ', ' m ', ' l '),
                                     ('1', 'a'), ('1', 'a', 'b', 'c'), (),
                                     ('x', 'a', 'b'), ('', 'a', 'b'),
                                     ['7', 'la', 'lb']]):
            run('tsf/add/%s/%d' % (label, fi), sf._add_trace_string, fields)
        emit('tsf/after/' + label, sf.trace_strings[-4:])

    # --- trace.TraceBufferHeader / TraceEntry / TraceBuffer ----------------
    def stream_of(data, **kw):
        kw.setdefault('byte_order', 'big')
        kw.setdefault('is_signed', False)
        return DataStream(memoryview(data), **kw)

    names = [b'IICS', b'POWR\0\0  ', b'ERRL    ', b'  AB  \0\0', b'\0\0\0',
             b'\xff\xfeXY\x80', b'ABCDEFGHIJKL', b' \0 \0', b'']
    for ni, name in enumerate(names):
        for cut in (0, 1, 31, 32, 33, 40):
            data = (make_header(name, size=0x01020304, wrap=7,
                                next_free=0x55) + b'\xAA' * 8)[:cut]
            hdr = trace_mod.TraceBufferHeader()
            st = stream_of(data)
            run('hdr/read/%d/%d' % (ni, cut), hdr.read, st)
            emit('hdr/state/%d/%d' % (ni, cut), (hdr, st.index))
    for bi, kw in enumerate([dict(byte_order='little'), dict(is_signed=True),
                             dict(byte_order=None), dict(is_signed=None)]):
        hdr = trace_mod.TraceBufferHeader()
        st = stream_of(make_header(b'FANS', size=0xF0000001), **kw)
        run('hdr/kw/%d' % bi, hdr.read, st)
        emit('hdr/kwstate/%d' % bi, (hdr, st.index))
        ent = trace_mod.TraceEntry()
        st = stream_of(make_entry(rnd, 0xF2345678, data=b'\x81\x02\x03'),
                       **kw)
        run('ent/kw/%d' % bi, ent.read, st)
        emit('ent/kwstate/%d' % bi, (ent, st.index))

    for i in range(400):
        dlen = rnd.choice([0, 1, 2, 3, 4, 5, 8, 9, 16, 20, 21, 24, 40, 1023,
                           1024])
        tag = rnd.choice([0x4654, 0x4644, 0, 0xFFFF])
        bad = rnd.choice([None, None, None, 'size', 'length', 'nopad'])
        raw = make_entry(rnd, rnd.randrange(1 << 32), tag,
                         rand_bytes(rnd, dlen), bad=bad)
        mode = rnd.choice(['full', 'full', 'cut', 'extra', 'prefix'])
        prefix = 0
        if mode == 'cut':
            raw = raw[:rnd.randrange(0, len(raw) + 1)]
        elif mode == 'extra':
            raw += rand_bytes(rnd, rnd.randrange(1, 9))
        elif mode == 'prefix':
            prefix = rnd.randrange(1, 7)
            raw = rand_bytes(rnd, prefix) + raw
        ent = trace_mod.TraceEntry()
        st = stream_of(raw)
        if prefix:
            st.inc_index(prefix)
        run('ent/read/%d' % i, ent.read, st)
        emit('ent/state/%d' % i, (ent, st.index))
        run('ent/args/%d' % i, ent.get_args)
        run('ent/bin/%d' % i, ent.is_binary_trace)
    # get_args on hand-made entries
    for i, (tag, data) in enumerate([
            (0x4654, None), (0x4644, None), (0x4644, b'\0' * 8),
            (0x4654, b''), (0x4654, b'\1\2\3'), (0x4654, b'\1\2\3\4'),
            (0x4654, bytes(range(19))), (0x4654, bytes(range(20))),
            (0x4654, bytes(range(28))), (None, bytes(range(8)))]):
        ent = trace_mod.TraceEntry()
        ent.tag = tag
        ent.data = None if data is None else memoryview(data)
        run('ent/args2/%d' % i, ent.get_args)

    class Few(trace_mod.TraceEntry):
        MAX_ARGS = 2

    class NoArgs(trace_mod.TraceEntry):
        MAX_ARGS = 0

    for cls in (Few, NoArgs):
        ent = cls()
        ent.tag = 0x4654
        ent.data = memoryview(bytes(range(24)))
        run('ent/args3/' + cls.__name__, ent.get_args)

    for i in range(150):
        mut = rnd.choice([None, None, 'truncate', 'flip', 'entry', 'hdrsize',
                          'append'])
        raw = make_trace_buffer(rnd, custom_hashes, mutate=mut)
        buf = trace_mod.TraceBuffer()
        st = stream_of(raw)
        run('buf/read/%d' % i, buf.read, st)
        emit('buf/state/%d' % i, (buf, st.index))

    # --- trace._format_trace_entry / parse_trace_data ---------------------
    csf = trace_mod.TraceStringFile(files['strings'])
    for i in range(300):
        h = rnd.choice(custom_hashes)
        if rnd.random() < 0.3:
            h += 100000 * rnd.randrange(1, 9)
        if rnd.random() < 0.15:
            h = rnd.randrange(1 << 32)
        ent = trace_mod.TraceEntry()
        ent.tbh = rnd.choice([0, 0xFFFF, rnd.randrange(0x10000)])
        ent.tbl = rnd.randrange(0x10000)
        ent.line = rnd.choice([0, 7, 99999, 100000, rnd.randrange(1 << 32)])
        ent.hash_value = h
        ent.tag = rnd.choice([0x4654, 0x4654, 0x4644, 0x1234])
        ent.length = rnd.choice([0, 3, 4, 8, 20, 24, 33])
        ent.data = rnd.choice([None, memoryview(rand_bytes(rnd, ent.length))])
        lines = ['seed']
        run('fmt/entry/%d' % i, trace_mod._format_trace_entry, ent, csf,
            lines)
        emit('fmt/lines/%d' % i, lines)
    ent = trace_mod.TraceEntry()        # never read: all fields None
    lines = []
    run('fmt/entry/none', trace_mod._format_trace_entry, ent, csf, lines)
    emit('fmt/lines/none', lines)

    for label, path, hashes, count in [
            ('custom', files['strings'], custom_hashes, 500),
            ('mex', mex_strings, mex_hashes, 70),
            ('nimitz', nim_strings, nim_hashes, 70),
            ('empty', files['empty'], custom_hashes, 10),
            ('missing', files['missing'], custom_hashes, 3)]:
        for i in range(count):
            mut = rnd.choice([None, None, None, 'truncate', 'flip', 'entry',
                              'hdrsize', 'append'])
            raw = make_trace_buffer(rnd, hashes, mutate=mut)
            if i % 37 == 5:
                raw = rand_bytes(rnd, rnd.randrange(0, 80))
            if i % 41 == 7:
                raw = b''
            data = memoryview(raw)
            run('trace/%s/%d' % (label, i), trace_mod.parse_trace_data, data,
                path)
            if i % 10 == 0:       # repeated decode in the same process
                run('trace/%s/%d/again' % (label, i),
                    trace_mod.parse_trace_data, data, path)
    run('trace/bytes', trace_mod.parse_trace_data,
        make_trace_buffer(rnd, custom_hashes), files['strings'])
    run('trace/bytearray', trace_mod.parse_trace_data,
        bytearray(make_trace_buffer(rnd, custom_hashes)), files['strings'])

    # --- ilog.PTETableEntry -------------------------------------------------
    entry_specs = [
        ('010000**', 'node type = 0x%02X', (4,)),
        ('0101****', 'fan 0x%02X flash %c', (4, 3)),
        ('01040000', 'Power on complete', ()),
        ('E2082690', 'VRM "N-Mode"', ()),
        ('e2******', 'lower %d', (2,)),
        ('0200****', 'too few %c', (3, 4)),
        ('0300****', 'too many %d %d', (3,)),
        ('0400****', 'range %d', (0, 5, 9, 2, -1)),
        ('********', 'all %d %d %d %d', (1, 2, 3, 4)),
        ('E*0[04]****', 'regex-ish', ()),
        ('E20C2690', 'reported pattern', ()),
        ('', 'empty pattern', ()),
        ('0100', 'short pattern', ()),
        ('07******', 'literal 100%', ()),
        ('08******', 'floats %d', (1.0, 2.5, 4.0)),
    ]
    ptes = [0x010000DE, 0x0101443F, 0x01040000, 0xE2082690, 0xE20C2690,
            0xE2042690, 0xE2FFFFFF, 0x02003132, 0x03000506, 0x04001122,
            0, 0xFFFFFFFF, 0xE0040000, 0xE0000000, 0xD0040000, 0x07000000,
            0x08010203, 0x1FFFFFFFF, -1, -0x1FBFFFFF]
    ptes += [rnd.randrange(1 << 32) for _ in range(25)]
    for si, (pat, fmt, params) in enumerate(entry_specs):
        ent = run('pte/new/%d' % si, ilog_mod.PTETableEntry, pat, fmt,
                  params, 'f.cpp', si)
        if isinstance(ent, tuple):
            continue
        for pte in ptes:
            run('pte/msg/%d/%X' % (si, pte), ent.get_message, pte)
            run('pte/matches/%d/%X' % (si, pte), ent.matches, pte)
            run('pte/exact/%d/%X' % (si, pte), ent._is_exact_match, pte)
            run('pte/rep/%d/%X' % (si, pte), ent._is_reported_error_pte, pte)
    run('pte/new/badre', ilog_mod.PTETableEntry, '0[1', 'x', (), 'f', 1)
    run('pte/new/strparams', ilog_mod.PTETableEntry, '01', 'x', ('1',), 'f', 1)
    ent = ilog_mod.PTETableEntry('01******', 'x %d', (1,), 'f', 1)
    for bad in (1.5, None, '01000000'):
        run('pte/badarg/msg/%r' % (bad,), ent.get_message, bad)
        run('pte/badarg/matches/%r' % (bad,), ent.matches, bad)
        run('pte/badarg/exact/%r' % (bad,), ent._is_exact_match, bad)
        run('pte/badarg/rep/%r' % (bad,), ent._is_reported_error_pte, bad)

    # --- ilog.PTETable ----------------------------------------------------
    for label, path in [('custom', files['header']), ('mex', mex_header),
                        ('nimitz', nim_header), ('empty', files['empty']),
                        ('missing', files['missing']),
                        ('bad', files['badheader']),
                        ('strings', files['strings'])]:
        tbl = run('tbl/new/' + label, ilog_mod.PTETable, path)
        if isinstance(tbl, tuple):
            continue
        emit('tbl/count/' + label, len(tbl.entries))
        if label == 'custom':
            emit('tbl/entries/custom', tbl.entries)
        else:
            emit('tbl/sample/' + label, tbl.entries[:5] + tbl.entries[-5:])
        for pte in ptes:
            e = run('tbl/get/%s/%X' % (label, pte), tbl.get_entry, pte)
        for fi, fields in enumerate([
                ('0200****', ' PEROM level = %c%c  ', '3, 4', 's.cpp', '254'),
                ('01', r'q \"x\" ', '', 'f', '1'),
                ('01', 'm', '12, 3', 'f', '1'),
                ('01', 'm', '1', 'f'), (), ('01', 'm', '1', 'f', 'x'),
                ('01', 'm', '1', 'f', '1', 'extra'),
                ['02', 'list', '4', 'f', ' 9 '],
                ('0[', 'm', '', 'f', '1')]):
            run('tbl/add/%s/%d' % (label, fi), tbl._add_entry, fields)
        emit('tbl/after/' + label, tbl.entries[-4:])
        n = len(tbl.entries)
        run('tbl/reparse/' + label, tbl._parse_header_file)
        emit('tbl/reparse/count/' + label, (n, len(tbl.entries)))

    # --- ilog.parse_ilog_data ---------------------------------------------
    for label, path, count in [('custom', files['header'], 400),
                               ('mex', mex_header, 40),
                               ('nimitz', nim_header, 40),
                               ('empty', files['empty'], 10),
                               ('missing', files['missing'], 2),
                               ('bad', files['badheader'], 2)]:
        for i in range(count):
            raw = make_ilog(rnd)
            if i % 29 == 3:
                raw = rand_bytes(rnd, rnd.randrange(0, 64))
            if i % 31 == 4:
                raw = b''
            run('ilog/%s/%d' % (label, i), ilog_mod.parse_ilog_data,
                memoryview(raw), path)
            if i % 10 == 0:
                run('ilog/%s/%d/again' % (label, i),
                    ilog_mod.parse_ilog_data, memoryview(raw), path)

    # --- hlog -----------------------------------------------------------------
    for label, path in [('custom', files['header']), ('mex', mex_header),
                        ('nimitz', nim_header), ('empty', files['empty']),
                        ('missing', files['missing']),
                        ('strings', files['strings'])]:
        run('hlog/fields/' + label, hlog_mod.get_hlog_fields, path)
        for i in range(60 if label in ('custom', 'mex') else 12):
            n = rnd.choice([0, 1, 2, 3, 5, 8, 16, 40, 47, 48, 49, 64,
                            rnd.randrange(0, 80)])
            if rnd.random() < 0.5:
                raw = bytes(rnd.choice([0, 0, 0, 1, 0xFF, rnd.randrange(256)])
                            for _ in range(n))
            else:
                raw = rand_bytes(rnd, n)
            run('hlog/parse/%s/%d' % (label, i), hlog_mod.parse_hlog_data,
                memoryview(raw), path)

    # --- dump -------------------------------------------------------------
    run('dump/names', dump_mod._get_drawer_type_names)
    for name in ['mex', 'nimitz', 'MEX', '', None, 'other']:
        r = run('dump/type/%r' % (name,), dump_mod._get_drawer_type, name)
    for i in range(40):
        lines = ['seed']
        run('dump/fmt_ilog/%d' % i, dump_mod._format_ilog_data,
            memoryview(make_ilog(rnd)), lines, files['header'])
        emit('dump/fmt_ilog/lines/%d' % i, lines)
        lines = ['seed']
        run('dump/fmt_trace/%d' % i, dump_mod._format_trace_data,
            memoryview(make_trace_buffer(
                rnd, custom_hashes,
                mutate=rnd.choice([None, 'truncate', 'flip']))),
            lines, files['strings'])
        emit('dump/fmt_trace/lines/%d' % i, lines)
    lines = ['seed']
    run('dump/fmt_ilog/missing', dump_mod._format_ilog_data,
        memoryview(b'\1' * 8), lines, files['missing'])
    emit('dump/fmt_ilog/missing/lines', lines)
    lines = ['seed']
    run('dump/fmt_trace/missing', dump_mod._format_trace_data,
        memoryview(b'\1' * 8), lines, files['missing'])
    emit('dump/fmt_trace/missing/lines', lines)

    variants = ['good', 'good', 'corrupt', 'dupname', 'noilog', 'random']
    for i in range(260):
        variant = variants[i % len(variants)]
        raw = make_dump_bytes(rnd, custom_hashes, variant)
        run('dump/data/%d' % i, dump_mod.parse_dump_data, memoryview(raw),
            files['header'], files['strings'])
        if i % 13 == 0:
            run('dump/data/%d/real' % i, dump_mod.parse_dump_data,
                memoryview(raw), mex_header, nim_strings)
        if i % 17 == 0:
            run('dump/data/%d/missing_h' % i, dump_mod.parse_dump_data,
                memoryview(raw), files['missing'], files['strings'])
            run('dump/data/%d/missing_s' % i, dump_mod.parse_dump_data,
                memoryview(raw), files['header'], files['missing'])
    run('dump/data/empty', dump_mod.parse_dump_data, memoryview(b''),
        files['missing'], files['missing'])
    run('dump/data/bytes', dump_mod.parse_dump_data, b'\1' * 16,
        files['header'], files['strings'])

    dump_path = os.path.join(workdir, 'dumpfile.txt')
    for i in range(160):
        variant = variants[i % len(variants)]
        raw = make_dump_bytes(rnd, custom_hashes, variant)
        style = i % 5
        if style == 0:
            dl = hexdump_lines_bmc(raw)
        elif style == 1:
            dl = hexdump_lines_old(raw)
        elif style == 2:
            dl = hexdump_lines_bmc(raw, upper=False)
            dl.insert(rnd.randrange(len(dl) + 1), 'some unrelated text\n')
            dl.insert(0, '\n')
        elif style == 3:
            dl = hexdump_lines_old(raw)
            if dl:
                k = rnd.randrange(len(dl))
                dl[k] = dl[k][:rnd.randrange(len(dl[k]))] + '\n'
        else:
            dl = [''.join(rnd.choice('0123456789ABCDEF :<>xyz')
                          for _ in range(rnd.randrange(0, 70))) + '\n'
                  for _ in range(rnd.randrange(0, 6))]
        write_lines(dump_path, dl)
        run('dump/file/%d' % i, dump_mod.parse_dump_file, dump_path,
            files['header'], files['strings'])
    run('dump/file/missing', dump_mod.parse_dump_file, files['missing'],
        files['header'], files['strings'])
    write_lines(dump_path, hexdump_lines_bmc(b'\1' * 16))
    run('dump/file/missing_h', dump_mod.parse_dump_file, dump_path,
        files['missing'], files['strings'])

    def call_with_argv(fn, argv):
        old = sys.argv
        so, se = io.StringIO(), io.StringIO()
        sys.argv = ['dump.py'] + argv
        try:
            with contextlib.redirect_stdout(so), contextlib.redirect_stderr(se):
                try:
                    res = fn()
                except BaseException as e:      # noqa
                    res = ('EXC', type(e).__name__, str(e))
        finally:
            sys.argv = old
        return (res, so.getvalue(), se.getvalue())

    write_lines(dump_path, hexdump_lines_bmc(
        make_dump_bytes(random.Random(5), custom_hashes, 'good')))
    argvs = [
        [], ['-h'], ['x'], ['x', '-t', 'mex'], ['x', '-t', 'nimitz'],
        ['x', '-t', 'bogus'], ['x', '--drawer-type', 'mex', '-d', 'H'],
        ['x', '-t', 'mex', '-s', 'S'], ['-t', 'nimitz', '-d', 'H', '-s', 'S',
                                        'y'],
        ['x', '-t', 'mex', '-d', '', '-s', ''], ['x', 'y', '-t', 'mex'],
        ['x', '-t', 'mex', '--header-file=H2', '--string-file=S2'],
        ['x', '-t'], ['-t', 'mex'],
    ]
    for i, argv in enumerate(argvs):
        emit('dump/args/%d' % i, call_with_argv(dump_mod.parse_args, argv))
    main_argvs = [
        [dump_path, '-t', 'mex'],
        [dump_path, '-t', 'nimitz', '-d', files['header'], '-s',
         files['strings']],
        [dump_path, '-t', 'mex', '-d', files['missing']],
        [dump_path, '-t', 'mex', '-s', files['missing']],
        [files['missing'], '-t', 'mex'],
        [files['empty'], '-t', 'mex'],
        [dump_path, '-t', 'mex', '-d', files['badheader']],
        [dump_path],
    ]
    for i, argv in enumerate(main_argvs):
        emit('dump/main/%d' % i, call_with_argv(dump_mod.main, argv))

    # --- m2c00 -------------------------------------------------------------
    for v in [0, 1, 2, 3, -1, 255, None, '1']:
        run('m2c00/type/%r' % (v,), m2c00._get_drawer_type, v)
    payloads = [b'', b'\0', b'\0' * 8, b'\1' * 7]
    for _ in range(12):
        payloads.append(make_ilog(rnd))
        payloads.append(make_trace_buffer(
            rnd, mex_hashes, mutate=rnd.choice([None, 'truncate', 'flip',
                                                'entry'])))
        payloads.append(make_trace_buffer(rnd, nim_hashes))
        payloads.append(bytes(rnd.choice([0, 0, 1, 0xFF])
                              for _ in range(rnd.randrange(1, 60))))
        payloads.append(rand_bytes(rnd, rnd.randrange(1, 100)))
    for pi, raw in enumerate(payloads):
        mv = memoryview(raw)
        for v in (0, 1, 2, 3):
            if v in (0, 3) and pi % 4:
                continue
            run('m2c00/hlog/%d/%d' % (pi, v), m2c00._parse_hlog, v, mv)
            run('m2c00/ilog/%d/%d' % (pi, v), m2c00._parse_ilog, v, mv)
            run('m2c00/trace/%d/%d' % (pi, v), m2c00._parse_trace, v, mv)
            run('m2c00/unsup/%d/%d' % (pi, v), m2c00._parse_unsupported, v,
                mv)
            for st in (72, 73, 84, 0, 1, 71, 74, 85, 255):
                if st not in (72, 73, 84) and (pi % 5 or v != 1):
                    continue
                run('m2c00/json/%d/%d/%d' % (pi, v, st), m2c00.parseUDToJson,
                    st, v, mv)
    for st in (72, 73, 84, 5, None, '72'):
        run('m2c00/json/bytes/%r' % (st,), m2c00.parseUDToJson, st, 1,
            b'\1\2\3\4\5\6\7\x08')
        run('m2c00/json/none/%r' % (st,), m2c00.parseUDToJson, st, 1, None)
        run('m2c00/json/again/%r' % (st,), m2c00.parseUDToJson, st, 2,
            memoryview(b'\1\2\3\4\5\6\7\x08'))

    # --- ParseUserData (the way peltool calls the m2c00 parser) -----------
    from pel.peltool.config import Config
    from pel.peltool.parse_user_data import ParseUserData
    for pi, raw in enumerate(payloads[:24]):
        for st in (72, 73, 84, 9):
            for v in (1, 2, 7):
                for plugins in (True, False):
                    cfg = Config()
                    cfg.allow_plugins = plugins
                    pud = ParseUserData('M', 0x2C00, st, v, raw)
                    run('pud/%d/%d/%d/%s' % (pi, st, v, plugins), pud.parse,
                        cfg)

    out.write('#COUNT\t%d\n' % counter[0])
    out.flush()


# ---------------------------------------------------------------------------
# Binary PEL construction for the peltool command line
# ---------------------------------------------------------------------------

def section_header(sid, length, ver, subtype, comp):
    return sid + struct.pack('>HBBH', length, ver, subtype, comp)


def make_pel(ud_sections, creator=b'M', eid=0x50000001, action_flags=0x8000,
             severity=0x40):
    """ud_sections: list of (version, sub_type, comp_id, data bytes)."""
    count = 2 + len(ud_sections)
    ts = bytes([0x20, 0x24, 0x03, 0x08, 0x18, 0x40, 0x27, 0x00])
    ph = (section_header(b'PH', 48, 1, 0, 0x2C00) + ts + ts + creator
          + b'\0\0' + bytes([count]) + struct.pack('>I', 7)
          + b'\0' * 8 + struct.pack('>II', eid, eid))
    uh = (section_header(b'UH', 24, 1, 0, 0x2C00)
          + bytes([0x7A, 0x03, severity, 0x00]) + b'\0\0\0\0'
          + bytes([0, 0]) + struct.pack('>HI', action_flags, 0))
    out = ph + uh
    for (ver, st, comp, data) in ud_sections:
        out += section_header(b'UD', 8 + len(data), ver, st, comp) + data
    return out


def build_pel_files(pel_dir):
    rnd = random.Random(77)
    root_guess = None
    hashes = [32403714, 38405017, 41406102, 45603949]
    names = []

    def add(name, blob):
        path = os.path.join(pel_dir, name)
        with open(path, 'wb') as f:
            f.write(blob)
        names.append(name)

    ilog = make_ilog(rnd, n=6)
    trace = make_trace_buffer(rnd, hashes, n_entries=5)
    hlog = bytes(rnd.choice([0, 0, 1, 2, 0xFF]) for _ in range(48))
    add('01_all_mex.pel', make_pel([(1, 72, 0x2C00, hlog),
                                    (1, 73, 0x2C00, ilog),
                                    (1, 84, 0x2C00, trace)], eid=0x50000001))
    add('02_all_nimitz.pel', make_pel([(2, 72, 0x2C00, hlog),
                                       (2, 73, 0x2C00, ilog),
                                       (2, 84, 0x2C00, trace)],
                                      eid=0x50000002))
    add('03_bad_version.pel', make_pel([(9, 72, 0x2C00, hlog),
                                        (0, 73, 0x2C00, ilog),
                                        (3, 84, 0x2C00, trace),
                                        (9, 10, 0x2C00, b'abc')],
                                       eid=0x50000003))
    add('04_unsupported.pel', make_pel([(1, 1, 0x2C00, b'hello world'),
                                        (1, 84, 0x2C00, b''),
                                        (1, 73, 0x2C00, b'\0' * 8),
                                        (1, 72, 0x2C00, b'\0')],
                                       eid=0x50000004))
    add('05_corrupt_trace.pel', make_pel(
        [(1, 84, 0x2C00, make_trace_buffer(rnd, hashes, mutate=m))
         for m in ('truncate', 'flip', 'entry', 'hdrsize', 'append')],
        eid=0x50000005))
    add('06_other_creator.pel', make_pel([(1, 73, 0x2C00, ilog),
                                          (1, 84, 0x2C01, trace)],
                                         creator=b'O', eid=0x50000006))
    blob = make_pel([(1, 73, 0x2C00, ilog), (1, 84, 0x2C00, trace)],
                    eid=0x50000007)
    add('07_truncated.pel', blob[:-9])
    add('08_info_hidden.pel', make_pel([(2, 84, 0x2C00, trace)],
                                       eid=0x50000008, action_flags=0x4000,
                                       severity=0x00))
    for k in range(9, 15):
        secs = []
        for _ in range(rnd.randrange(1, 5)):
            st = rnd.choice([72, 73, 84, rnd.randrange(256)])
            ver = rnd.choice([1, 2, rnd.randrange(256)])
            kind = rnd.random()
            if kind < 0.3:
                data = make_ilog(rnd)
            elif kind < 0.6:
                data = make_trace_buffer(
                    rnd, hashes, mutate=rnd.choice([None, 'flip', 'truncate']))
            else:
                data = rand_bytes(rnd, rnd.randrange(0, 90))
            secs.append((ver, st, 0x2C00, data))
        add('%02d_random.pel' % k, make_pel(secs, eid=0x50000000 + k))
    return names


# ---------------------------------------------------------------------------
# Parent: run everything for both trees and compare
# ---------------------------------------------------------------------------

def run_cmd(root, argv, cwd, opt=False, stdin=None):
    env = dict(os.environ)
    env['PYTHONPATH'] = os.path.join(root, 'modules')
    env['PYTHONDONTWRITEBYTECODE'] = '1'
    env['PYTHONHASHSEED'] = '0'
    env['COLUMNS'] = '80'
    cmd = [PY] + (['-O'] if opt else []) + argv
    p = subprocess.run(cmd, cwd=cwd, env=env, stdout=subprocess.PIPE,
                       stderr=subprocess.PIPE, stdin=subprocess.DEVNULL,
                       timeout=1200)
    real = os.path.realpath(root)
    so = p.stdout.decode('utf-8', 'replace').replace(real, '<ROOT>') \
        .replace(root, '<ROOT>')
    se = p.stderr.decode('utf-8', 'replace').replace(real, '<ROOT>') \
        .replace(root, '<ROOT>')
    return p.returncode, so, se


def snapshot_dir(path):
    snap = {}
    for base, dirs, names in os.walk(path):
        dirs.sort()
        for n in sorted(names):
            full = os.path.join(base, n)
            with open(full, 'rb') as f:
                snap[os.path.relpath(full, path)] = f.read()
    return snap


def collect(root, scratch):
    """Returns an ordered dict: case name -> observed result."""
    results = {}
    me = os.path.abspath(__file__)

    # In-process API cases (normal and -O)
    for opt in (False, True):
        workdir = os.path.join(scratch, 'work')
        if os.path.exists(workdir):
            shutil.rmtree(workdir)
        os.makedirs(workdir)
        rc, so, se = run_cmd(root, [me, '--worker', root, workdir], scratch,
                             opt=opt)
        tag = 'O/' if opt else 'N/'
        results[tag + 'worker-exit'] = (rc, se)
        for line in so.splitlines():
            name, _, value = line.partition('\t')
            key = tag + name
            assert key not in results, 'duplicate case name ' + key
            results[key] = value
        shutil.rmtree(workdir)

    # dump.py command line
    workdir = os.path.join(scratch, 'cli')
    if os.path.exists(workdir):
        shutil.rmtree(workdir)
    os.makedirs(workdir)
    files = prepare_files(workdir)
    dump_py = os.path.join(root, 'modules', 'io_drawer', 'dump.py')
    rnd = random.Random(4242)
    hashes = read_hashes(os.path.join(root, 'modules', 'io_drawer',
                                      'mexStringFile'))[:60]
    custom_hashes = [100001, 200002, 300003, 400004, 500005, 600006, 1300013,
                     2300013, 4300013]
    dump_files = []
    variants = ['good', 'corrupt', 'dupname', 'noilog', 'random', 'good']
    for i in range(18):
        use_real = i % 2 == 0
        raw = make_dump_bytes(rnd, hashes if use_real else custom_hashes,
                              variants[i % len(variants)])
        path = os.path.join(workdir, 'dump%02d.txt' % i)
        write_lines(path, hexdump_lines_bmc(raw) if i % 3 else
                    hexdump_lines_old(raw))
        dump_files.append((path, use_real))
    cli_cases = []
    for i, (path, use_real) in enumerate(dump_files):
        if use_real:
            cli_cases.append([path, '-t', 'mex'])
            cli_cases.append([path, '--drawer-type', 'nimitz'])
        else:
            cli_cases.append([path, '-t', 'mex', '-d', files['header'], '-s',
                              files['strings']])
            cli_cases.append([path, '-t', 'nimitz', '-s', files['strings']])
    p0 = dump_files[0][0]
    cli_cases += [
        [], ['-h'], [p0], [p0, '-t', 'bogus'], [p0, '-t', 'mex', '-d',
                                                files['missing']],
        [p0, '-t', 'mex', '-s', files['missing']],
        [files['missing'], '-t', 'mex'], [files['empty'], '-t', 'nimitz'],
        [p0, '-t', 'mex', '-d', files['badheader']],
        [workdir, '-t', 'mex'],
    ]
    for i, argv in enumerate(cli_cases):
        for opt in (False, True):
            if opt and i % 4:
                continue
            results['cli/dump/%d/%s' % (i, opt)] = run_cmd(
                root, [dump_py] + argv, workdir, opt=opt)
    results['cli/dump/files'] = sorted(os.listdir(workdir))

    # peltool.py command line with PELs that carry M/2C00 user data
    pel_dir = os.path.join(workdir, 'pels')
    os.makedirs(pel_dir)
    names = build_pel_files(pel_dir)
    peltool = os.path.join(root, 'modules', 'pel', 'peltool', 'peltool.py')
    for n in names:
        path = os.path.join(pel_dir, n)
        results['cli/pel/f/' + n] = run_cmd(root, [peltool, '-f', path],
                                            workdir)
        results['cli/pel/fP/' + n] = run_cmd(root, [peltool, '-P', '-f',
                                                    path], workdir)
    results['cli/pel/fO/' + names[0]] = run_cmd(
        root, [peltool, '-f', os.path.join(pel_dir, names[0])], workdir,
        opt=True)
    results['cli/pel/a'] = run_cmd(root, [peltool, '-p', pel_dir, '-a', '-E'],
                                   workdir)
    results['cli/pel/l'] = run_cmd(root, [peltool, '-p', pel_dir, '-l'],
                                   workdir)
    results['cli/pel/i'] = run_cmd(root, [peltool, '-p', pel_dir, '-i',
                                          '50000002'], workdir)
    out_dir = os.path.join(workdir, 'json_out')
    os.makedirs(out_dir)
    results['cli/pel/j'] = run_cmd(root, [peltool, '-p', pel_dir, '-j', '-o',
                                          out_dir, '-E'], workdir)
    snap = snapshot_dir(out_dir)
    results['cli/pel/j/files'] = sorted(snap)
    for k, v in snap.items():
        results['cli/pel/j/file/' + k] = v
    results['cli/pel/dir-after'] = sorted(os.listdir(pel_dir))
    shutil.rmtree(workdir)
    return results


def main():
    if len(sys.argv) >= 2 and sys.argv[1] == '--worker':
        worker(sys.argv[2], sys.argv[3])
        return 0
    if len(sys.argv) != 3:
        print(__doc__)
        return 2
    pristine = os.path.abspath(sys.argv[1])
    patched = os.path.abspath(sys.argv[2])
    base = os.path.dirname(os.path.abspath(__file__))
    scratch = tempfile.mkdtemp(prefix='dc_', dir=base)
    try:
        res_a = collect(pristine, scratch)
        res_b = collect(patched, scratch)
    finally:
        shutil.rmtree(scratch, ignore_errors=True)

    problems = []
    for key in ('N/worker-exit', 'O/worker-exit'):
        for res, label in ((res_a, 'pristine'), (res_b, 'patched')):
            if res[key][0] != 0:
                problems.append('%s worker failed (%s): %s'
                                % (label, key, res[key][1][-2000:]))
    for res, label in ((res_a, 'pristine'), (res_b, 'patched')):
        for tag in ('N/', 'O/'):
            if (tag + '#COUNT') not in res:
                problems.append('%s worker %s did not finish' % (label, tag))
    keys_a, keys_b = list(res_a), list(res_b)
    if keys_a != keys_b:
        only_a = [k for k in keys_a if k not in res_b]
        only_b = [k for k in keys_b if k not in res_a]
        problems.append('case lists differ: only pristine=%r only patched=%r'
                        % (only_a[:10], only_b[:10]))
    ndiff = 0
    for k in keys_a:
        if k in res_b and res_a[k] != res_b[k]:
            ndiff += 1
            if ndiff <= 15:
                problems.append('DIFF %s\n  pristine: %.600r\n  patched:  %.600r'
                                % (k, res_a[k], res_b[k]))
    if ndiff > 15:
        problems.append('... %d differing cases in total' % ndiff)
    n = len([k for k in keys_a if not k.endswith('#COUNT')])
    if problems:
        print('\n'.join(problems))
        print('DIFFERENT (%d cases, %d differ)' % (n, ndiff))
        return 1
    print('IDENTICAL (%d cases)' % n)
    return 0


if __name__ == '__main__':
    sys.exit(main())
