#!/usr/bin/env python3
"""
Differential check for area R09 (m2c00 / oe500 UD parsers, oe500 / osrc SRC
parsers, ocallouts callout parser, hwdiags ParserData).

usage: diffcheck.py <pristine_root> <patched_root>

Both roots are copied (modules/ only) into scratch directories, once per
"data scenario" (different contents of pel/hwdiags/data).  A driver script is
then run under each copy in a subprocess (with and without -O) and exercises
the parser entry points directly with many well-formed, truncated, corrupted
and random inputs.  In addition peltool.py is run on generated binary PELs with
several option combinations.  All stdout/stderr bytes, exit codes and files
created are compared.

Prints "IDENTICAL (<n> cases)" and exits 0 if everything matches, else exits 1.
"""

import json
import os
import random
import shutil
import struct
import subprocess
import sys
import tempfile
from concurrent.futures import ThreadPoolExecutor

PY = sys.executable

# --------------------------------------------------------------------------
# hwdiags data scenarios
# --------------------------------------------------------------------------

GOOD_DATA = {
    "model_ec": {"id": "20da0020", "type": "proc", "desc": "P10 2.0"},
    "attn_types": {"1": "CS", "2": "UCS", "3": "RE", "68": "HA"},
    "signatures": {
        "abcd": ["SIG_NAME", {"5": "the description", "0": "bit zero"}],
        "1234": ["OTHER_SIG", {}],
    },
    "registers": {
        "abcdef": ["A_REGISTER_NAME_LONGER_THAN_25_CHARACTERS_FOR_SURE",
                   {"0": "0x1234", "1": "deadbeef", "255": "FFFFFFFFFF"}],
        "000001": ["SHORT", {"0": "10"}],
    },
}

GOOD_DATA2 = {
    "model_ec": {"id": "60d20020", "type": "ocmb"},
    "signatures": {"abcd": ["ONLY_NAME"]},
    "registers": {},
}

WEIRD_DATA = {
    "model_ec": {"id": "20da0020", "type": 5, "desc": None},
    "attn_types": {"1": None, "2": ["x"], "3": {"a": 1}},
    "signatures": {
        "abcd": {"0": "x"},          # KeyError(0) on [0]
        "abce": [],                  # IndexError
        "abcf": ["N", None],         # TypeError on [1][bit]
        "abd0": ["N", ["a", "b"]],   # TypeError list indices str
        "abd1": "string",            # 's'; then [1] -> 't', ['5'] TypeError
        "abd2": [None, {"5": None}],
        "abd3": [7, {"5": 9}],
    },
    "registers": {
        "abcdef": ["N", {"0": "zz"}],          # ValueError
        "abcdee": ["N", {"0": 5}],             # TypeError
        "abcded": ["N", {"0": None}],          # TypeError
        "abcdec": [["list name"], {"0": "10"}],  # reg_name is a list
        "abcdeb": {"0": "x"},                  # KeyError(0)
        "abcdea": [],                          # IndexError
        "abcde9": ["NAMEONLY"],                # IndexError on [1]
        "abcde8": [None, {"0": "1F"}],         # None name
        "abcde7": ["N", "str"],                # TypeError
        "abcde6": ["  padded name  ", {"0": " 0x10 ", "1": "-5", "2": "1_0"}],
        "abcde5": [{"k": "v"}, {"0": "1"}],    # reg_name is a dict
        "abcde4": [5, {"0": "1"}],             # reg_name is an int
        "abcde3": [1.5, {"0": "1"}],
        "abcde2": [True, {"0": "1"}],
        "abcde1": ["\u00e9\u00e8 unicode name that is quite long indeed", {"0": "ff"}],
    },
}

WEIRD_DATA2 = {
    "model_ec": {"id": "60d20020"},
    "attn_types": [],
    "signatures": None,
    "registers": 5,
}

WEIRD_DATA3 = {
    # model_ec entry whose nested "model_ec" is strange
    "model_ec": {"id": "aaaaaaaa", "type": {"k": 1}, "desc": ["d"]},
}

SCENARIOS = {
    "nodata": {},
    "good": {"p10_20.json": json.dumps(GOOD_DATA),
             "ocmb.json": json.dumps(GOOD_DATA2)},
    "weird": {"w1.json": json.dumps(WEIRD_DATA),
              "w2.json": json.dumps(WEIRD_DATA2),
              "w3.json": json.dumps(WEIRD_DATA3)},
    "broken_json": {"bad.json": "{ this is not json"},
    "broken_key": {"nokey.json": json.dumps({"something": 1})},
}

# --------------------------------------------------------------------------
# The driver: runs inside a subprocess with PYTHONPATH=<copy>/modules
# --------------------------------------------------------------------------

DRIVER = r'''
import io, json, random, struct, sys, contextlib, importlib

rng = random.Random(20260902)
results = []
case_no = [0]


def describe(value):
    if isinstance(value, (str, int, float, bool, type(None))):
        return [type(value).__name__, repr(value)]
    if isinstance(value, (list, tuple)):
        return [type(value).__name__, [describe(v) for v in value]]
    if isinstance(value, dict):
        return [type(value).__name__,
                [[describe(k), describe(v)] for k, v in value.items()]]
    return [type(value).__name__, repr(value)]


def run(label, func, *args, **kwargs):
    case_no[0] += 1
    out = io.StringIO()
    err = io.StringIO()
    try:
        with contextlib.redirect_stdout(out), contextlib.redirect_stderr(err):
            value = func(*args, **kwargs)
        res = ['ok', describe(value)]
    except BaseException as e:
        res = ['exc', type(e).__name__, str(e), repr(e.args)]
    print(json.dumps([case_no[0], label, res, out.getvalue(), err.getvalue()]))


def mv(b):
    return memoryview(bytes(b))


def rand_bytes(n):
    return bytes(rng.getrandbits(8) for _ in range(n))


# ------------------------------------------------------------------ m2c00
from udparsers.m2c00 import m2c00

HLOG = b'\x00\xDE\xAD'
ILOG = b'\x8A\xDF\x0F\x19\x01\x00\x00\xDE'
TRACE = (b'\x02\x20\x01\x42\x49\x49\x43\x53' + b'\x00' * 12 +
         b'\x00\x00\x00\x20' + b'\x00\x00\x00\x00' + b'\x00\x00\x00\x20')
TRACE2 = (b'\x02\x20\x01\x42\x49\x49\x43\x53' + b'\x00' * 12 +
          b'\x00\x00\x00\x60' + b'\x00\x00\x00\x01' + b'\x00\x00\x00\x40' +
          bytes(range(64)))

m2_datas = [b'', HLOG, ILOG, TRACE, TRACE2, HLOG * 40, ILOG * 9,
            ILOG[:5], TRACE[:17], TRACE[:31], b'\x00', b'\xff' * 33]
for n in (1, 2, 3, 7, 8, 9, 16, 31, 32, 33, 64, 200):
    m2_datas.append(rand_bytes(n))
# corrupted trace headers
for i in range(0, len(TRACE), 3):
    t = bytearray(TRACE)
    t[i] ^= 0xFF
    m2_datas.append(bytes(t))
# ilog entries with many random PTEs
m2_datas.append(b''.join(rand_bytes(4) + struct.pack('>I', rng.getrandbits(32))
                         for _ in range(30)))

sub_types = [72, 73, 84, 0, 1, 71, 255, -1, 72.0, True, None, 'H', (72,)]
versions = [1, 2, 0, 3, -1, 1.0, None, '1']

for st in sub_types:
    for ver in versions:
        for d in m2_datas:
            run('m2c00.parseUDToJson st=%r ver=%r len=%d' % (st, ver, len(d)),
                m2c00.parseUDToJson, st, ver, mv(d))

# unhashable sub type, non memoryview data
run('m2c00 unhashable', m2c00.parseUDToJson, [72], 1, mv(HLOG))
run('m2c00 unhashable2', m2c00.parseUDToJson, {}, 1, mv(b''))
for d in (HLOG, bytearray(ILOG), None, 5, 'text', [1, 2, 3], [], ''):
    for st in (72, 73, 84, 9):
        for ver in (1, 3):
            run('m2c00 odd data %r st=%r ver=%r' % (d, st, ver),
                m2c00.parseUDToJson, st, ver, d)

for name in ('_parse_hlog', '_parse_ilog', '_parse_trace',
             '_parse_unsupported'):
    f = getattr(m2c00, name)
    for ver in versions:
        for d in (b'', HLOG, ILOG, TRACE, rand_bytes(40)):
            run('m2c00.%s ver=%r len=%d' % (name, ver, len(d)), f, ver, mv(d))
    run('m2c00.%s None' % name, f, 1, None)
    run('m2c00.%s list' % name, f, 4, [1, 2])

for ver in versions + [2.0, True, False, [], 10 ** 30]:
    run('m2c00._get_drawer_type %r' % (ver,),
        lambda v: m2c00._get_drawer_type(v).name, ver)
run('m2c00 consts', lambda: (m2c00.SUB_TYPE_HLOG, m2c00.SUB_TYPE_ILOG,
                             m2c00.SUB_TYPE_TRACE))

# ------------------------------------------------------------------ ocallouts
from calloutparsers.ocallouts import ocallouts

for p in (['BMC%04d' % i for i in range(0, 12)] +
          ['', 'bmc0001', 'BMC0001 ', 'BMC0001\x00', None, 1, 1.5, True,
           ('BMC0001',), b'BMC0001', ['BMC0001'], {}, frozenset()]):
    run('ocallouts %r' % (p,), ocallouts.getMaintProcDesc, p)
run('ocallouts procedures', lambda: ocallouts.procedures)
run('ocallouts twice', lambda: (ocallouts.getMaintProcDesc('BMC0002'),
                                ocallouts.getMaintProcDesc('BMC0002')))

# ------------------------------------------------------------------ osrc
from srcparsers.osrc import osrc


def osrc_state():
    return sorted((k, v is None, getattr(v, '__name__', None))
                  for k, v in osrc.osrcParsers.items())


def call_osrc(refcode, words):
    r = None
    try:
        r = osrc.parseSRCToJson(refcode, *words)
    finally:
        st = osrc_state()
    return [r, st]


def call_osrc_safe(refcode, words):
    try:
        r = ['ok', osrc.parseSRCToJson(refcode, *words)]
    except BaseException as e:
        r = ['exc', type(e).__name__, str(e)]
    return [r, osrc_state()]


W_GOOD = ['00000055', '00000010', '00000000', '00000000',
          '20DA0020', '00120301', 'ABCD0105', '00000000']
W_GOOD2 = ['00000055', '00000010', '00000000', '00000000',
           '60d20020', 'FFFFFF44', '1234FF00', '00000000']
W_BAD = ['0', '1', '2', '3', 'xyz', '12', '', 'ZZZZZZZZ']
W_LONG = ['00000055'] * 4 + ['20DA00200', '001203010', 'ABCD01050', '0']
W_NONSTR = [1, 2, 3, 4, 5, 6, 7, 8]

refcodes = ['BD8DE510', 'BD8DE500', 'BD8De510', 'BD8DE5', 'BD8D', '',
            'BD8D3600', 'BD8D3600', 'BC8A0510', 'BC', 'bc8A0510', 'BD8DE510',
            '11001510', 'BD8D..10', 'BD8D/.00', 'BD8D  00', 'BD8DE510' + ' ' * 24,
            'BD8Dé00', 'BD8DE500', 'BC8A0510',
            'BD8D9900', 'BD8D9900', 'BD8D9800', 'BD8D9800', 'BD8D9700',
            'BD8D9700', 'BD8D9600', 'BD8D9610', 'BD8D9500', 'BD8D9500',
            'BD8D9400', 'BD8D9400', 'BD8D9300', 'BD8D9200', 'BD8D9200',
            'BC8A9600', 'BD8D9600']
for rc in refcodes:
    for w in (W_GOOD, W_GOOD2, W_BAD, W_LONG, W_NONSTR):
        run('osrc rc=%r w=%r' % (rc, w[4:7]), call_osrc_safe, rc, w)
for rc in (None, 5, b'BD8DE510', ['B', 'C'], ('BD', 'xx')):
    run('osrc odd rc=%r' % (rc,), call_osrc_safe, rc, W_GOOD)
run('osrc too few args', lambda: osrc.parseSRCToJson('BD8DE510', '1'))
run('osrc state', osrc_state)
# poke the cache the way another caller could
osrc.osrcParsers['srcparsers.oe500.oe500'] = None
run('osrc after cache poison', call_osrc_safe, 'BD8DE510', W_GOOD)
del osrc.osrcParsers['srcparsers.oe500.oe500']
run('osrc after cache delete', call_osrc_safe, 'BD8DE510', W_GOOD)
osrc.osrcParsers.clear()
run('osrc after cache clear', call_osrc_safe, 'BD8D3600', W_GOOD)
run('osrc after cache clear 2', call_osrc_safe, 'BD8DE510', W_GOOD)

# ------------------------------------------------------------------ src oe500
src_oe500 = importlib.import_module('srcparsers.oe500.oe500')
for rc in ('BD8DE510', 'BD8DE500', 'BD8DE51', 'BD8DE5100', '', '      10',
           None, 5, b'BD8DE510', ['1', '0'] * 4, ('a',) * 6 + ('1', '0')):
    for w in (W_GOOD, W_GOOD2, W_BAD, W_LONG, W_NONSTR,
              ['0'] * 4 + ['20da0020', 'ffffffff', 'abcf0005', ''],
              ['0'] * 4 + ['20da0020', '00010002', 'abd00105', ''],
              ['0'] * 4 + ['20da0020', '00010003', 'abd10105', ''],
              ['0'] * 4 + ['20da0020', '00010001', 'abd20105', ''],
              ['0'] * 4 + ['20da0020', '00010001', 'abd30105', ''],
              ['0'] * 4 + ['20da0020', '00010001', 'abce0105', ''],
              ['0'] * 4 + ['aaaaaaaa', '00010001', 'abce0105', ''],
              ['0'] * 4 + ['60D20020', '00010001', 'abcd0105', '']):
        run('src_oe500 rc=%r w=%r' % (rc, w[4:7]),
            src_oe500.parseSRCToJson, rc, *w)

# ------------------------------------------------------------------ ParserData
try:
    from pel.hwdiags.parserdata import ParserData
    pd = ParserData()
    pd_err = None
except BaseException as e:
    pd = None
    pd_err = [type(e).__name__, str(e)]
run('ParserData()', lambda: pd_err)

if pd is not None:
    run('pd._data keys', lambda: sorted(pd._data.keys()))
    mecs = ['20da0020', '20DA0020', '60d20020', '60D20020', 'aaaaaaaa',
            '23ABcdEf', '00000000', 'some_string', '0123ABcdEf', '', '20da002',
            '20da0020\n', ' 20da0020', '20da002g', None, 5, b'20da0020']
    for m in mecs:
        run('pd.query_model_ec %r' % (m,), pd.query_model_ec, m)
        for a in (0, 1, 2, 3, 68, 255, 256, -1, '1', None, 1.0, True):
            run('pd.get_attn_desc %r %r' % (m, a), pd.get_attn_desc, m, a)
        for n, c in ((0, 0), (1, 2), (255, 65535), (256, 0), (0, 65536),
                     (-1, 0), (0, -1), (1.5, 2), (1, 2.5), ('1', 2), (1, '2'),
                     (None, 0), (True, False)):
            run('pd.get_chip_desc %r %r %r' % (m, n, c),
                pd.get_chip_desc, m, n, c)
    sigs = ['abcd', 'ABCD', 'abce', 'abcf', 'abd0', 'abd1', 'abd2', 'abd3',
            '1234', '5555', 'abc', 'abcde', 'xyzw', '', None, 7]
    for m in mecs[:6] + [None, 'zz']:
        for s in sigs:
            for inst, bit in ((0, 0), (1, 5), (255, 255), (256, 5), (5, 256),
                              (-1, 5), (1, -5), (1.5, 5), (1, 5.0), ('1', 5),
                              (1, '5'), (None, None)):
                run('pd.get_sig_desc %r %r %r %r' % (m, s, inst, bit),
                    pd.get_sig_desc, m, s, inst, bit)
    regs = ['abcdef', 'ABCDEF', 'abcdee', 'abcded', 'abcdec', 'abcdeb',
            'abcdea', 'abcde9', 'abcde8', 'abcde7', 'abcde6', 'abcde5',
            'abcde4', 'abcde3', 'abcde2', 'abcde1', '000001',
            '999999', 'abcde', 'abcdeff', 'ghijkl', '', None, 9]
    for m in mecs[:6] + [None, 'zz']:
        for r in regs:
            for inst in (0, 1, 2, 255, 256, -1, 1.0, '0', None, True):
                run('pd.get_reg_data %r %r %r' % (m, r, inst),
                    pd.get_reg_data, m, r, inst)
    words = ['20da0020', '20DA0020', '60d20020', 'aaaaaaaa', '11111111',
             '22223344', '55556677', '00120301', 'abcd0105', 'ABCD0105',
             'abce0105', 'abcf0105', 'abd00105', 'abd10105', 'abd20105',
             'abd30105', '12340000', 'ffffffff', '', 'xyz', '123456789', None,
             5, '0012030', 'abcd01 5']
    for a in words[:5] + words[18:]:
        for b in words[5:8] + words[17:]:
            for c in words[8:]:
                run('pd.get_signature %r %r %r' % (a, b, c),
                    pd.get_signature, a, b, c)
    for args in ((), ('a',), ('a', 'b')):
        run('pd.get_signature arity %r' % (args,), pd.get_signature, *args)
    for d, n in (('ab', 1), ('AB', 1), ('abc', 1), ('abcd', 2), ('abcdef', 3),
                 ('abcdef12', 4), ('abcdef1', 4), ('', 1), ('ab', 0),
                 ('ab', 5), ('ab', '1'), ('ab', None), (None, 1), (5, 2),
                 (b'ab', 1), ('ab\n', 1), ('\nab', 1)):
        run('pd._check_hex %r %r' % (d, n), pd._check_hex, d, n)
    for d, n in ((0, 1), (255, 1), (256, 1), (-1, 1), (65535, 2), (65536, 2),
                 (0, 0), (1, 0), (5, -1), (5, 1.5), ('5', 1), (5, '1'),
                 (None, 1), (1.5, 1), (True, 1)):
        run('pd._check_int %r %r' % (d, n), pd._check_int, d, n)
    # a second instance must behave the same (class level state)
    pd2 = ParserData()
    run('pd2.get_signature', pd2.get_signature, '20da0020', '00120301',
        'abcd0105')
    run('pd2._check_hex', pd2._check_hex, 'zz', 1)

# ------------------------------------------------------------------ ud oe500
ud_oe500 = importlib.import_module('udparsers.oe500.oe500')


def sig_list(sigs, count=None):
    b = struct.pack('>I', len(sigs) if count is None else count)
    for a, bb, c in sigs:
        b += bytes.fromhex(a) + bytes.fromhex(bb) + bytes.fromhex(c)
    return b


def reg_dump(chips, count=None):
    b = struct.pack('>I', len(chips) if count is None else count)
    for model_ec, chip_pos, node_pos, regs, nregs in chips:
        b += bytes.fromhex(model_ec) + struct.pack('>HBI', chip_pos, node_pos,
                                                   len(regs) if nregs is None
                                                   else nregs)
        for rid, inst, data in regs:
            b += bytes.fromhex(rid) + struct.pack('>BB', inst, len(data)) + data
    return b


SIGS = [('20da0020', '00120301', 'abcd0105'),
        ('20da0020', 'ffffff44', '1234ff00'),
        ('60d20020', '00000002', 'abcd0000'),
        ('aaaaaaaa', '00010003', 'abce0105'),
        ('20da0020', '00010003', 'abce0105'),
        ('20da0020', '00010003', 'abcf0105'),
        ('20da0020', '00010002', 'abd00105'),
        ('20da0020', '00010001', 'abd10105'),
        ('20da0020', '00010001', 'abd20105'),
        ('20da0020', '00010001', 'abd30105'),
        ('12345678', '9abcdef0', '0fedcba9')]

REGS_OK = [('abcdef', 0, bytes(range(8))), ('abcdef', 1, bytes(range(16))),
           ('abcdef', 255, b'\xff'), ('000001', 0, b'\x12\x34\x56'),
           ('999999', 7, b'\xde\xad\xbe\xef\x01'),
           ('abcdef', 9, bytes(range(255)))]
REGS_W = [('abcdef', 0, b'\x01'), ('abcdee', 0, b'\x01'), ('abcded', 0, b'\x01'),
          ('abcdec', 0, b'\x01'), ('abcdeb', 0, b'\x01'), ('abcdea', 0, b'\x01'),
          ('abcde9', 0, b'\x01'), ('abcde8', 0, b'\x01'), ('abcde7', 0, b'\x01'),
          ('abcde6', 0, b'\x01'), ('abcde6', 1, b'\x01'), ('abcde6', 2, b'\x01'),
          ('abcde5', 0, b'\x01'), ('abcde4', 0, b'\x01'), ('abcde3', 0, b'\x01'),
          ('abcde2', 0, b'\x01'), ('abcde1', 0, b'\x01\x02\x03')]

ud_datas = {1: [], 2: [], 3: [], 4: [], 5: [], 6: [], 0: []}
ud_datas[1].append(sig_list([]))
ud_datas[1].append(sig_list(SIGS[:2]))
ud_datas[1].append(sig_list(SIGS))
for s in SIGS:
    ud_datas[1].append(sig_list([s]))
ud_datas[1].append(sig_list(SIGS[:2], count=3))
ud_datas[1].append(sig_list(SIGS[:2], count=1))
ud_datas[1].append(sig_list(SIGS[:1], count=0xFFFFFFFF))
ud_datas[1].append(sig_list(SIGS[:3]) + b'\x00\x00\x00')
full = sig_list(SIGS[:2])
for i in range(len(full)):
    ud_datas[1].append(full[:i])

ud_datas[2].append(reg_dump([]))
ud_datas[2].append(reg_dump([('20da0020', 2, 1, REGS_OK, None)]))
ud_datas[2].append(reg_dump([('20da0020', 2, 1, REGS_OK, None),
                             ('60d20020', 65535, 255, REGS_OK[:2], None),
                             ('aaaaaaaa', 0, 0, [], None),
                             ('12345678', 3, 4, REGS_OK[3:5], None)]))
for r in REGS_W:
    ud_datas[2].append(reg_dump([('20da0020', 2, 1, [r], None)]))
ud_datas[2].append(reg_dump([('20da0020', 2, 1, REGS_W[-3:], None)]))
ud_datas[2].append(reg_dump([('20da0020', 2, 1, [('abcdef', 0, b'')], None)]))
ud_datas[2].append(reg_dump([('20da0020', 2, 1, REGS_OK[:2], 3)]))
ud_datas[2].append(reg_dump([('20da0020', 2, 1, REGS_OK[:2], 1)]))
ud_datas[2].append(reg_dump([('20da0020', 2, 1, REGS_OK[:2], None)], count=2))
ud_datas[2].append(reg_dump([('20da0020', 2, 1, REGS_OK[:2], None)], count=0))
full = reg_dump([('20da0020', 2, 1, REGS_OK[:3], None),
                 ('60d20020', 1, 0, REGS_OK[3:5], None)])
for i in range(len(full)):
    ud_datas[2].append(full[:i])
for i in range(0, len(full), 2):
    t = bytearray(full)
    t[i] ^= 0x81
    ud_datas[2].append(bytes(t))

for s in ('{"a": 1}', '[1, 2, {"b": null}]', '"str"', 'null', '5', '', '{',
          '{"a": 1}\x00', '{"a": 1}\x00\x00\x00', '\x00{"a": 1}',
          '{"a": 1}\x00x', '{"k": "é"}', ' {"Callout List": []} \x00',
          '{"a": NaN}', '{"a": 1, "a": 2}'):
    ud_datas[3].append(s.encode('utf8'))
ud_datas[3].append(b'\xff\xfe{"a": 1}')
ud_datas[3].append(b'{"a": "\xe9"}\x00')

full = bytes(range(1, 25))
for i in range(len(full) + 1):
    ud_datas[4].append(full[:i])
ud_datas[4].append(full + b'extra')
ud_datas[4].append(b'\x00' * 24)
ud_datas[4].append(b'\x11' * 4 + b'\x22' * 4 + b'\x00' * 4 + b'\x11' * 4 +
                   b'\x33' * 8)
full = bytes(range(0xA0, 0xA8))
for i in range(len(full) + 1):
    ud_datas[5].append(full[:i])
ud_datas[5].append(full + b'extra')
ud_datas[6] = [b'', b'abc']
ud_datas[0] = [b'', b'abc']

for n in (1, 4, 5, 11, 12, 16, 24, 40, 100):
    for _ in range(3):
        rb = rand_bytes(n)
        for st in (1, 2, 3, 4, 5):
            ud_datas[st].append(rb)
# random but with small counts so that the loops are entered
for _ in range(40):
    ud_datas[1].append(struct.pack('>I', rng.randrange(4)) +
                       rand_bytes(rng.randrange(40)))
    ud_datas[2].append(struct.pack('>I', rng.randrange(3)) + rand_bytes(7) +
                       struct.pack('>I', rng.randrange(4)) +
                       rand_bytes(rng.randrange(60)))

for st in sorted(ud_datas):
    for d in ud_datas[st]:
        for ver in (1, 0):
            run('ud_oe500 st=%r ver=%r len=%d' % (st, ver, len(d)),
                ud_oe500.parseUDToJson, st, ver, mv(d))
for st in (1.0, 2.0, True, None, 'x', -1, 7, 1 << 40, [1], {}):
    run('ud_oe500 odd st=%r' % (st,), ud_oe500.parseUDToJson, st, 1,
        mv(sig_list(SIGS[:1])))
for st in (1, 2, 3, 4, 5, 6):
    for d in (None, b'\x00\x00\x00\x00', bytearray(b'\x00\x00\x00\x01'), 'text',
              5, []):
        run('ud_oe500 odd data st=%r %r' % (st, d), ud_oe500.parseUDToJson, st,
            1, d)
for name in ('_parse_signature_list', '_parse_register_dump',
             '_parse_callout_ffdc', '_parse_hb_scratch_regs',
             '_parse_scratch_reg_sig', '_parse_default'):
    f = getattr(ud_oe500, name)
    for d in (b'', b'\x00\x00\x00\x00', b'{}', bytes(range(24)), rand_bytes(50)):
        run('ud_oe500.%s len=%d' % (name, len(d)), f, 1, mv(d))

# repeat a few decodes at the very end (state carried across decodes?)
run('repeat m2c00', m2c00.parseUDToJson, 72, 1, mv(HLOG))
run('repeat m2c00 bad', m2c00.parseUDToJson, 73, 9, mv(ILOG))
run('repeat osrc', call_osrc_safe, 'BD8DE510', W_GOOD)
run('repeat ud_oe500', ud_oe500.parseUDToJson, 2, 1, mv(ud_datas[2][2]))
run('repeat ocallouts', ocallouts.getMaintProcDesc, 'BMC0008')
'''

# --------------------------------------------------------------------------
# Binary PEL construction
# --------------------------------------------------------------------------


def section_header(sid: bytes, length: int, ver: int, subtype: int,
                   comp: int) -> bytes:
    return sid + struct.pack('>HBBH', length, ver, subtype, comp)


def private_header(creator: bytes, nsections: int, eid: int, plid: int,
                   obmc_id: int = 1, comp: int = 0xE500) -> bytes:
    body = bytes.fromhex('2026100212304500')      # create time
    body += bytes.fromhex('2026100212304600')     # commit time
    body += creator + b'\x00\x00' + bytes([nsections])
    body += struct.pack('>I', obmc_id)
    body += struct.pack('>Q', 0x0102030405060708)
    body += struct.pack('>II', plid, eid)
    return section_header(b'PH', 48, 1, 0, comp) + body


def user_header(sev: int = 0x40, flags: int = 0xA000,
                comp: int = 0xE500) -> bytes:
    body = struct.pack('>BBBBIBBHI', 0x70, 0x03, sev, 0x00, 0, 0, 0, flags, 0)
    return section_header(b'UH', 24, 1, 0, comp) + body


def callout(loc: bytes, proc: bytes, priority: bytes = b'H') -> bytes:
    fru = b'ID' + bytes([12]) + bytes([0x02]) + proc.ljust(8, b'\x00')[:8]
    size = 4 + len(loc) + len(fru)
    return bytes([size, 0, priority[0], len(loc)]) + loc + fru


def src_section(refcode: str, words, callouts=None, sid=b'PS',
                word_count: int = 9, comp: int = 0xE500) -> bytes:
    flags = 0x01 if callouts else 0x00
    body = bytes([2, flags, 0, word_count]) + b'\x00\x00'
    payload = b''.join(struct.pack('>I', w) for w in words)
    payload += refcode.encode('ascii').ljust(32, b' ')[:32]
    co = b''
    if callouts:
        cbody = b''.join(callouts)
        total = 4 + len(cbody)
        co = bytes([0xC0, 0]) + struct.pack('>H', total // 4) + cbody
    size = 8 + len(payload) + len(co)
    body += struct.pack('>H', size)
    return section_header(sid, 8 + size, 1, 1, comp) + body + payload + co


def ud_section(comp: int, subtype: int, ver: int, data: bytes) -> bytes:
    return section_header(b'UD', 8 + len(data), ver, subtype, comp) + data


def build_pel(creator: bytes, sections, eid: int, **kw) -> bytes:
    pel = private_header(creator, 2 + len(sections), eid, eid, obmc_id=eid & 0xff)
    pel += user_header(**kw)
    for s in sections:
        pel += s
    return pel


def build_pels() -> dict:
    rng = random.Random(4711)
    pels = {}

    words_ok = [0x55, 0x10, 0, 0, 0x20DA0020, 0x00120301, 0xABCD0105, 0]
    words2 = [0x55, 0x10, 0, 0x23000000, 0x60D20020, 0xFFFFFF44, 0x1234FF00, 9]
    words_w = [0x55, 0x10, 0, 0, 0x20DA0020, 0x00010003, 0xABCE0105, 0]

    sigs = struct.pack('>I', 2) + bytes.fromhex(
        '20da0020' '00120301' 'abcd0105' '60d20020' 'ffffff44' '1234ff00')
    regs = struct.pack('>I', 1) + bytes.fromhex('20da0020') + \
        struct.pack('>HBI', 2, 1, 3) + \
        bytes.fromhex('abcdef') + bytes([0, 8]) + bytes(range(8)) + \
        bytes.fromhex('000001') + bytes([0, 3]) + b'\x12\x34\x56' + \
        bytes.fromhex('999999') + bytes([7, 5]) + b'\xde\xad\xbe\xef\x01'
    regs_w = struct.pack('>I', 1) + bytes.fromhex('20da0020') + \
        struct.pack('>HBI', 2, 1, 1) + \
        bytes.fromhex('abcdec') + bytes([0, 1]) + b'\x01'
    ffdc = b'{"Callout List": [{"Priority": "high", "Unit": "x"}]}\x00'
    scratch = bytes(range(1, 25))
    scratchsig = bytes(range(0xA0, 0xA8))

    hlog = b'\x00\xDE\xAD' * 20
    ilog = b'\x8A\xDF\x0F\x19\x01\x00\x00\xDE' * 4
    trace = (b'\x02\x20\x01\x42\x49\x49\x43\x53' + b'\x00' * 12 +
             b'\x00\x00\x00\x20' + b'\x00\x00\x00\x00' + b'\x00\x00\x00\x20')

    oe500_uds = [ud_section(0xE500, 1, 1, sigs),
                 ud_section(0xE500, 2, 1, regs),
                 ud_section(0xE500, 3, 1, ffdc),
                 ud_section(0xE500, 4, 1, scratch),
                 ud_section(0xE500, 5, 1, scratchsig),
                 ud_section(0xE500, 6, 1, b'unsupported'),
                 ud_section(0xE500, 2, 1, regs_w),
                 ud_section(0xE500, 1, 1, sigs[:-3]),
                 ud_section(0xE500, 2, 1, regs[:-2]),
                 ud_section(0xE500, 3, 1, b'{not json'),
                 ud_section(0xE500, 4, 1, scratch[:10]),
                 ud_section(0xE500, 5, 1, b'\x01'),
                 ud_section(0xE500, 1, 1, b'\x00')]
    cos = [callout(b'U78DA.ND0.1234567-P0', b'BMC0001'),
           callout(b'', b'BMC0002', b'M'),
           callout(b'Ufcs-P1', b'BMC0008', b'L'),
           callout(b'Ufcs-P1', b'BMC0099', b'L'),
           callout(b'', b'bmc0001')]

    eid = [0x50000000]

    def add(name, creator, sections, **kw):
        eid[0] += 1
        pels[name] = build_pel(creator, sections, eid[0], **kw)

    add('bmc_checkstop', b'O',
        [src_section('BD8DE510', words_ok, cos)] + oe500_uds)
    add('bmc_secondary', b'O',
        [src_section('BD8DE500', words2, cos[:1])] + oe500_uds[:3])
    add('bmc_weirdsig', b'O', [src_section('BD8DE510', words_w)])
    add('bmc_othercomp', b'O',
        [src_section('BD8D3600', words_ok, cos[1:3]),
         src_section('BD8DE510', words_ok, None, sid=b'SS'),
         ud_section(0x3600, 1, 1, b'whatever data')])
    add('bmc_hbsrc', b'O', [src_section('BC8A0510', words_ok, cos[:2])])
    add('bmc_power', b'O', [src_section('1100E510', words2, cos[2:])])
    add('bmc_nowords', b'O', [src_section('BD8DE510', words_ok, None,
                                          word_count=5)])
    add('bmc_info_hidden', b'O', [src_section('BD8DE500', words_ok)],
        sev=0x00, flags=0x4000)
    add('drawer_v1', b'M',
        [src_section('BD8D2C00', words_ok, None, comp=0x2C00),
         ud_section(0x2C00, 72, 1, hlog),
         ud_section(0x2C00, 73, 1, ilog),
         ud_section(0x2C00, 84, 1, trace),
         ud_section(0x2C00, 99, 1, b'raw bytes \x00\x01\x02'),
         ud_section(0x2C00, 72, 1, b'\x00')], comp=0x2C00)
    add('drawer_v2', b'M',
        [ud_section(0x2C00, 72, 2, hlog[:7]),
         ud_section(0x2C00, 73, 2, ilog + b'\x01'),
         ud_section(0x2C00, 84, 2, trace[:20]),
         ud_section(0x2C00, 84, 2, trace + bytes(range(40)))], comp=0x2C00)
    add('drawer_badver', b'M',
        [ud_section(0x2C00, 72, 3, hlog),
         ud_section(0x2C00, 73, 0, ilog),
         ud_section(0x2C00, 84, 200, trace),
         ud_section(0x2C00, 0, 7, b'xyz')], comp=0x2C00)
    for comp in (0x99, 0x98, 0x97, 0x96, 0x95, 0x94, 0x93, 0x92):
        add('bmc_planted_%02x' % comp, b'O',
            [src_section('BD8D%02X00' % comp, words_ok, cos[:1]),
             src_section('BD8D%02X10' % comp, words2, None, sid=b'SS'),
             src_section('BD8D9600', words2, None, sid=b'SS')])
    add('hostboot', b'B', [src_section('BC8A0510', words_ok, cos[:1]),
                           ud_section(0xE500, 1, 1, sigs)])

    # truncated / corrupted variants of the two richest PELs
    for base in ('bmc_checkstop', 'drawer_v1'):
        full = pels[base]
        step = max(1, len(full) // 40)
        for cut in range(0, len(full), step):
            pels['%s_trunc%04d' % (base, cut)] = full[:cut]
        for n in range(40):
            t = bytearray(full)
            for _ in range(rng.randrange(1, 4)):
                t[rng.randrange(72, len(t))] = rng.getrandbits(8)
            pels['%s_corrupt%02d' % (base, n)] = bytes(t)
    for n in range(10):
        pels['random%02d' % n] = bytes(rng.getrandbits(8)
                                       for _ in range(rng.randrange(0, 300)))
    return pels


# --------------------------------------------------------------------------
# Running
# --------------------------------------------------------------------------


ECHO_PARSER = (
    "import json\n"
    "calls = []\n"
    "def parseSRCToJson(refcode, word2, word3, word4, word5, word6, word7,\n"
    "                   word8, word9):\n"
    "    calls.append(refcode)\n"
    "    return json.dumps({'echo': [refcode, word2, word3, word4, word5,\n"
    "                                word6, word7, word8, word9],\n"
    "                       'calls': len(calls), 'module': __name__})\n")

PLANTED_SRC_PARSERS = {
    'o9900': "raise ImportError('planted import error')\n",
    'o9800': "import a_module_that_does_not_exist_r09\n",
    'o9700': "raise ValueError('planted value error')\n",
    'o9600': ECHO_PARSER,
    'o9500': "x = 1\n",
    'o9400': "def parseSRCToJson(*args):\n"
             "    raise RuntimeError('planted runtime error %d' % len(args))\n",
    'o9300': "def parseSRCToJson(*args):\n    return None\n",
    'o9200': "from srcparsers.o9600 import no_such_name\n",
}


def make_copy(root: str, dest: str, data_files: dict,
              plant_bsrc: bool = False) -> str:
    """Copy <root>/modules to <dest>/modules and plant hwdiags data files."""
    shutil.copytree(os.path.join(root, 'modules'),
                    os.path.join(dest, 'modules'),
                    ignore=shutil.ignore_patterns('__pycache__', '*.pyc'))
    data_dir = os.path.join(dest, 'modules', 'pel', 'hwdiags', 'data')
    for name, content in data_files.items():
        with open(os.path.join(data_dir, name), 'w') as f:
            f.write(content)
    planted = dict(PLANTED_SRC_PARSERS)
    if plant_bsrc:
        planted['bsrc'] = ECHO_PARSER
    for name, content in planted.items():
        pkg = os.path.join(dest, 'modules', 'srcparsers', name)
        os.makedirs(pkg)
        with open(os.path.join(pkg, '__init__.py'), 'w') as f:
            f.write('')
        with open(os.path.join(pkg, name + '.py'), 'w') as f:
            f.write(content)
    return dest


def run_proc(args, copy_root, cwd):
    env = dict(os.environ)
    env['PYTHONPATH'] = os.path.join(copy_root, 'modules')
    env['PYTHONDONTWRITEBYTECODE'] = '1'
    env['PYTHONHASHSEED'] = '0'
    p = subprocess.run(args, env=env, cwd=cwd, stdout=subprocess.PIPE,
                       stderr=subprocess.PIPE, timeout=900)
    root_b = copy_root.encode()
    return (p.returncode, p.stdout.replace(root_b, b'<ROOT>'),
            p.stderr.replace(root_b, b'<ROOT>'))


def snapshot(directory):
    snap = {}
    for dirpath, _, files in os.walk(directory):
        for f in files:
            full = os.path.join(dirpath, f)
            with open(full, 'rb') as fd:
                snap[os.path.relpath(full, directory)] = fd.read()
    return snap


def main():
    if len(sys.argv) != 3:
        sys.exit(__doc__)
    roots = {'pristine': os.path.abspath(sys.argv[1]),
             'patched': os.path.abspath(sys.argv[2])}
    work = tempfile.mkdtemp(prefix='r09_diffcheck_')
    cases = 0
    diffs = []
    try:
        driver_path = os.path.join(work, 'driver.py')
        with open(driver_path, 'w', encoding='utf-8') as f:
            f.write(DRIVER)

        pels = build_pels()
        pel_src = os.path.join(work, 'pels_src')
        os.makedirs(pel_src)
        for name, data in pels.items():
            with open(os.path.join(pel_src, name + '.pel'), 'wb') as f:
                f.write(data)
        with open(os.path.join(work, 'exclude.txt'), 'w') as f:
            f.write('BD8D3600\n')

        copies = {}
        for scen, files in SCENARIOS.items():
            for tag, root in roots.items():
                # same path length/name for both so messages cannot differ
                dest = os.path.join(work, scen, tag)
                os.makedirs(dest)
                copies[(scen, tag)] = make_copy(
                    root, dest, files,
                    plant_bsrc=scen in ('good', 'broken_key'))

        # ---- direct driver runs
        dkeys = [(scen, opt, tag) for scen in SCENARIOS
                 for opt in ((), ('-O',)) for tag in roots]
        with ThreadPoolExecutor(max_workers=os.cpu_count() or 4) as pool:
            driver_out = dict(zip(dkeys, pool.map(
                lambda k: run_proc([PY] + list(k[1]) + [driver_path],
                                   copies[(k[0], k[2])], work), dkeys)))
        for scen in SCENARIOS:
            for opt in ([], ['-O']):
                outs = {tag: driver_out[(scen, tuple(opt), tag)]
                        for tag in roots}
                a, b = outs['pristine'], outs['patched']
                la = a[1].splitlines()
                lb = b[1].splitlines()
                cases += max(len(la), 1)
                if a != b:
                    detail = ''
                    seen = set()
                    ndiff = 0
                    for x, y in zip(la, lb):
                        if x != y:
                            ndiff += 1
                            try:
                                area = json.loads(x)[1].split(' ')[0]
                            except Exception:
                                area = '?'
                            if area not in seen and len(seen) < 12:
                                seen.add(area)
                                detail += '\n  pristine: %s\n  patched:  %s' % (
                                    x[:400], y[:400])
                    if ndiff:
                        detail = ' (%d differing lines)' % ndiff + detail
                    if not detail:
                        detail = '\n  rc %r vs %r, lines %d vs %d\n  ' \
                            'stderr pristine: %r\n  stderr patched: %r' % (
                                a[0], b[0], len(la), len(lb),
                                a[2][-800:], b[2][-800:])
                    diffs.append('driver scen=%s opt=%s%s' % (scen, opt,
                                                              detail))
                if a[0] != 0:
                    diffs.append('driver crashed scen=%s opt=%s rc=%r: %r' % (
                        scen, opt, a[0], a[2][-800:]))

        # ---- peltool CLI runs
        def cli_variants(pel_dir, out_dir, one, other):
            return [
                ['-p', pel_dir, '-a', '-E'],
                ['-p', pel_dir, '-a', '-E', '-P'],
                ['-p', pel_dir, '-a'],
                ['-p', pel_dir, '-a', '-H', '-N', '-r'],
                ['-p', pel_dir, '-l', '-E'],
                ['-p', pel_dir, '-l', '-S', 'Informational', '-O'],
                ['-p', pel_dir, '-n', '-E'],
                ['-p', pel_dir, '-a', '-E', '-x'],
                ['-p', pel_dir, '--src', 'BD8DE5'],
                ['-p', pel_dir, '--src-exclude',
                 os.path.join(work, 'exclude.txt')],
                ['-p', pel_dir, '--plid', '0x50000001'],
                ['-p', pel_dir, '-i', '50000002'],
                ['-p', pel_dir, '--bmc-id', '9'],
                ['-f', one],
                ['-f', one, '-P'],
                ['-f', one, '-x'],
                ['-f', other],
                ['-f', os.path.join(pel_dir, 'drawer_badver.pel')],
                ['-f', os.path.join(pel_dir, 'bmc_checkstop_trunc0200.pel')],
                ['-f', os.path.join(pel_dir, 'does_not_exist.pel')],
                ['-p', pel_dir, '-j', '-o', out_dir, '-e', '.pel'],
                ['-p', pel_dir, '-j', '-o', out_dir, '-P'],
                ['-f', other, '-c'],
                ['-p', pel_dir, '-d', '50000003'],
                ['-p', pel_dir, '-j', '-c'],
                ['-p', pel_dir, '-D'],
                ['-p', pel_dir, '-l', '-E'],
            ]

        def cli_sequence(key):
            scen, opt, tag = key
            # variants are run in sequence on a private copy of the PEL dir
            # per (scenario, opt, tag); paths are identical in text because
            # each tag is run inside its own cwd with relative paths.
            cwd = os.path.join(work, 'cli', scen, 'O' if opt else 'N', tag)
            os.makedirs(cwd)
            shutil.copytree(pel_src, os.path.join(cwd, 'pels'))
            os.makedirs(os.path.join(cwd, 'out'))
            peltool = os.path.join(copies[(scen, tag)], 'modules',
                                   'pel', 'peltool', 'peltool.py')
            seq = []
            variants = cli_variants(
                'pels', 'out',
                os.path.join('pels', 'bmc_checkstop.pel'),
                os.path.join('pels', 'drawer_v1.pel'))
            for v in variants:
                v = [os.path.join('..', '..', '..', '..', 'exclude.txt')
                     if x == os.path.join(work, 'exclude.txt') else x
                     for x in v]
                r = run_proc([PY] + list(opt) + [peltool] + v,
                             copies[(scen, tag)], cwd)
                seq.append((v, r, snapshot(os.path.join(cwd, 'pels')),
                            snapshot(os.path.join(cwd, 'out'))))
            return seq

        keys = [(scen, opt, tag)
                for scen in ('nodata', 'good', 'weird', 'broken_json')
                for opt in ((), ('-O',))
                for tag in roots]
        with ThreadPoolExecutor(max_workers=os.cpu_count() or 4) as pool:
            all_results = dict(zip(keys, pool.map(cli_sequence, keys)))

        for scen in ('nodata', 'good', 'weird', 'broken_json'):
            for opt in ((), ('-O',)):
                results = {tag: all_results[(scen, opt, tag)]
                           for tag in roots}
                for ra, rb in zip(results['pristine'], results['patched']):
                    cases += 1
                    if ra != rb:
                        what = []
                        if ra[1][0] != rb[1][0]:
                            what.append('rc %r/%r' % (ra[1][0], rb[1][0]))
                        if ra[1][1] != rb[1][1]:
                            what.append('stdout')
                        if ra[1][2] != rb[1][2]:
                            what.append('stderr %r / %r' % (ra[1][2][-300:],
                                                            rb[1][2][-300:]))
                        if ra[2] != rb[2]:
                            what.append('pel dir contents')
                        if ra[3] != rb[3]:
                            what.append('out dir contents')
                        diffs.append('cli scen=%s opt=%s args=%s: %s' % (
                            scen, opt, ra[0], ', '.join(what)))
                    cases += len(ra[3])
    finally:
        shutil.rmtree(work, ignore_errors=True)

    if diffs:
        print('DIFFERENT (%d differences, %d cases)' % (len(diffs), cases))
        for d in diffs[:40]:
            print(' *', d)
        sys.exit(1)
    print('IDENTICAL (%d cases)' % cases)
    sys.exit(0)


if __name__ == '__main__':
    main()
