#!/usr/bin/env python
"""
Differential check for refactorings of the fixed-layout PEL section classes
(private_header.py, user_header.py, extend_user_header.py, failing_mtms.py,
imp_partition.py) and generatePH/UH/EH/MT/IP (+ sectionFun) in peltool.py.

usage: diffcheck.py <pristine_root> <patched_root>

The script builds a corpus of binary PELs / section bodies (well formed,
truncated, corrupted, random), then
  * runs an in-process "worker" (this same file with --worker) once per root
    (PYTHONPATH=<root>/modules), with and without `python -O`, which drives the
    classes and the peltool functions directly and records for every case the
    result, exception type/text, stream index, object attributes, stdout and
    stderr;
  * runs the peltool.py CLI of each root with many option combinations on a
    directory of PEL files and records exit status, stdout, stderr and the
    resulting directory content.
Everything is compared; exit 0 and "IDENTICAL (<n> cases)" if nothing differs.
"""
import hashlib
import io
import json
import os
import random
import shutil
import struct
import subprocess
import sys

HERE = os.path.dirname(os.path.abspath(__file__))
PY = sys.executable

# --------------------------------------------------------------------------
# PEL builders
# --------------------------------------------------------------------------


def hdr(sid, length, ver=1, sub=0, comp=0x2000):
    return struct.pack(">HHBBH", sid & 0xFFFF, length & 0xFFFF, ver & 0xFF,
                       sub & 0xFF, comp & 0xFFFF)


def bcdtime(r=None):
    if r is None:
        return bytes.fromhex("2022030818402755")
    return bytes([r.choice([0x19, 0x20]), r.randrange(0, 0x9a),
                  r.randrange(0, 0x13), r.randrange(0, 0x32),
                  r.randrange(0, 0x24), r.randrange(0, 0x60),
                  r.randrange(0, 0x60), r.randrange(0, 0x9a)])


def ph_body(creator=b'O', count=2, obmc=1, cver=0x0102030405060708,
            plid=0x50000001, eid=0x50000001, t1=None, t2=None):
    return ((t1 or bcdtime()) + (t2 or bcdtime()) + creator + b'\x00\x00' +
            bytes([count & 0xFF]) + struct.pack(">IQII", obmc, cver, plid, eid))


def uh_body(subsys=0x10, scope=0x03, sev=0x40, etype=0x00, domain=0, vector=0,
            actions=0xA000, states=0x00000302):
    return struct.pack(">BBBBIBBHI", subsys, scope, sev, etype, 0, domain,
                       vector, actions, states)


def src_body(ascii_str=b"BD8D1234", flags=0, wordcount=9, words=None):
    words = words or [0x02000055, 0x2E2D0010, 0, 0x01000000, 5, 6, 7, 8]
    asc = ascii_str.ljust(32, b' ')[:32]
    return (bytes([2, flags, 0, wordcount]) + struct.pack(">HH", 0, 72) +
            b''.join(struct.pack(">I", w & 0xFFFFFFFF) for w in words) + asc)


def eh_body(mt=b"9105-22A", sn=b"13C8E40", fw=b"fw1030.00-12",
            sub=b"sub-9.1", symptom=b"BD8D1234_2E2D0010\x00\x00\x00", t=None,
            symlen=None):
    return (mt.ljust(8, b'\0')[:8] + sn.ljust(12, b'\0')[:12] +
            fw.ljust(16, b'\0')[:16] + sub.ljust(16, b'\0')[:16] +
            b'\0\0\0\0' + (t or bcdtime()) + b'\0\0\0' +
            bytes([len(symptom) if symlen is None else symlen]) + symptom)


def mt_body(mt=b"9105-22A", sn=b"13C8E40"):
    return mt.ljust(8, b'\0')[:8] + sn.ljust(12, b'\0')[:12]


def ip_body(pid=0x0001, name=b"lpar-one\0\0\0\0", lps=(1, 2, 3), logid=0x11223344,
            namelen=None, count=None, pad=True):
    body = struct.pack(">HBBI", pid,
                       len(name) if namelen is None else namelen,
                       len(lps) if count is None else count, logid)
    body += name + b''.join(struct.pack(">H", x) for x in lps)
    if pad and len(lps) % 2:
        body += b'\0\0'
    return body


def section(sid, body, ver=1, sub=0, comp=0x2000):
    return hdr(sid, len(body) + 8, ver, sub, comp) + body


SID = dict(PH=0x5048, UH=0x5548, PS=0x5053, SS=0x5353, EH=0x4548, MT=0x4D54,
           LP=0x4C50, UD=0x5544, ED=0x4544, DH=0x4448)


def build_pel(creator=b'O', sev=0x40, actions=0xA000, eid=0x50000001,
              plid=0x50000001, obmc=1, extra=(), comp=0x2000, src=b"BD8D1234",
              with_src=True, count=None, r=None, states=0x0302, subsys=0x10):
    secs = []
    if with_src:
        secs.append(section(SID['PS'], src_body(src), comp=comp))
    secs.extend(extra)
    n = 2 + len(secs) if count is None else count
    t1 = bcdtime(r) if r else None
    t2 = bcdtime(r) if r else None
    data = section(SID['PH'], ph_body(creator, n, obmc, plid=plid, eid=eid,
                                      t1=t1, t2=t2), comp=comp)
    data += section(SID['UH'], uh_body(sev=sev, actions=actions, states=states,
                                       subsys=subsys), comp=comp)
    return data + b''.join(secs)


def std_extra(r=None, creator_comp=0x2000):
    lps = (1, 2, 3) if r is None else tuple(
        r.randrange(0, 0x10000) for _ in range(r.randrange(0, 6)))
    return [
        section(SID['EH'], eh_body(t=bcdtime(r) if r else None),
                comp=creator_comp),
        section(SID['MT'], mt_body(), comp=creator_comp),
        section(SID['LP'], ip_body(lps=lps), comp=creator_comp),
        section(SID['UD'], b'{"a": 1, "b": [1, 2]}\0\0\0', ver=1, sub=1,
                comp=0x2000),
        section(SID['UD'], b'some text\nline two\n\0\0', ver=1, sub=3,
                comp=0x2000),
        section(SID['DH'], bytes(range(20)), comp=creator_comp),
    ]


# --------------------------------------------------------------------------
# case generation
# --------------------------------------------------------------------------

ASCIIISH = bytes(range(0x20, 0x7f)) + b'\0\0\0\0\0\0\0\0'


def rbytes(r, n, mode):
    if mode == 0:
        return bytes(r.randrange(256) for _ in range(n))
    if mode == 1:
        return bytes(r.choice(ASCIIISH) for _ in range(n))
    # mostly ascii with a little garbage
    return bytes(r.choice(ASCIIISH) if r.random() < 0.93 else r.randrange(256)
                 for _ in range(n))


CONFIGS = [
    {},
    {"every_pel": True},
    {"every_pel": True, "allow_plugins": False},
    {"serviceable": True},
    {"non_serviceable": True},
    {"hidden": True, "only": True},
    {"critSysTerm": True},
    {"severities": [0, 1], "only": True},
    {"severities": [4, 5]},
    {"non_serviceable": True, "only": True, "severities": [2]},
    {"only": True, "plid": "50000001"},
]


def corpus_pels(r):
    pels = []
    pels.append(build_pel(extra=std_extra()))
    pels.append(build_pel(creator=b'H', comp=0x4142, extra=std_extra(None, 0x4142)))
    pels.append(build_pel(creator=b'B', sev=0x00, actions=0x8000, src=b"BC8A1A20",
                          extra=std_extra()))
    pels.append(build_pel(creator=b'O', sev=0x00, actions=0x0000, extra=std_extra()))
    pels.append(build_pel(creator=b'O', sev=0x51, actions=0x6000, extra=std_extra()))
    pels.append(build_pel(creator=b'Z', sev=0x20, actions=0x2000, with_src=False,
                          extra=std_extra()))
    pels.append(build_pel(creator=b'O', sev=0x10, actions=0x4000, extra=[]))
    pels.append(build_pel(creator=b'\xff', extra=std_extra()))
    pels.append(build_pel(count=40, extra=std_extra()))
    pels.append(build_pel(count=0, extra=std_extra()))
    pels.append(build_pel(extra=[section(SID['EH'], eh_body(symptom=b'', symlen=0)),
                                 section(SID['LP'], ip_body(name=b'', lps=())),
                                 section(SID['LP'], ip_body(lps=(7,), pad=False)),
                                 section(SID['MT'], mt_body(b'\xfe\xff', b'x'))]))
    pels.append(build_pel(extra=[section(SID['EH'], eh_body(symptom=b'abc', symlen=200))]))
    pels.append(build_pel(extra=[section(SID['LP'], ip_body(name=b'ab', namelen=90))]))
    pels.append(build_pel(extra=[section(SID['LP'], ip_body(lps=(1, 2), count=250))]))
    pels.append(build_pel(extra=[section(SID['EH'], eh_body()),
                                 section(SID['EH'], eh_body(mt=b'\x80abc')),
                                 section(SID['MT'], mt_body()),
                                 section(SID['MT'], mt_body(sn=b'\xc3\x28'))]))
    for _ in range(25):
        pels.append(build_pel(
            creator=bytes([r.choice(b'BCHKLMOPSTZ?')]),
            sev=r.choice([0x00, 0x10, 0x20, 0x21, 0x40, 0x41, 0x50, 0x51, 0x71, 0x99]),
            actions=r.choice([0, 0x8000, 0x4000, 0x2000, 0xA000, 0x6000, 0xE000,
                              0xFFFF, 0x0800, 0x1234]),
            eid=r.randrange(1 << 32), plid=r.randrange(1 << 32),
            obmc=r.randrange(1 << 32), comp=r.choice([0x2000, 0x1000, 0xE500, 0x4142, 0x0041, 0]),
            states=r.randrange(1 << 32), subsys=r.randrange(256),
            extra=std_extra(r), r=r, with_src=r.random() < 0.8))
    return pels


def make_cases(seed=20240611):
    r = random.Random(seed)
    cases = []

    def add(**kw):
        kw["data"] = kw["data"].hex()
        cases.append(kw)

    pels = corpus_pels(r)

    # ---- getTimestamp
    for n in range(0, 12):
        add(op="ts", data=rbytes(r, n, 0))
    for _ in range(40):
        add(op="ts", data=rbytes(r, r.randrange(6, 20), 0))

    # ---- getSectionName
    for sid in list(SID.values()) + [0, 1, 0xFFFF, 0x5049, 0x10000 + 0x5048, 0x4C52]:
        cases.append(dict(op="name", data="", sid=sid))

    # ---- class level: well formed bodies, all truncations, corruptions, random
    wf = {
        "PH": [ph_body(), ph_body(b'H', 9, 77, 1, 2, 3), ph_body(b'\xe2'), ph_body(b'?', 255)],
        "UH": [uh_body(), uh_body(0x7A, 0x04, 0x00, 0x01, 1, 2, 0x8000, 0xFFFFFFFF),
               uh_body(0, 0, 0x51, 9, 0, 0, 0x4000, 0x0103),
               uh_body(0x10, 3, 0x40, 0, 0, 0, 0x6000, 0x0200)],
        "EH": [eh_body(), eh_body(symptom=b'', symlen=0), eh_body(symptom=b'x' * 80),
               eh_body(mt=b'\0\0ab\0\0', sn=b'\0', fw=b'', sub=b'\0z\0'),
               eh_body(symptom=b'\0\0abc\0def\0\0'), eh_body(symptom=b'ab', symlen=9)],
        "MT": [mt_body(), mt_body(b'', b''), mt_body(b'\0A\0', b'\0\0B'), mt_body(b'\xc3\xa9xyz', b'12345678901\xff')],
        "IP": [ip_body(), ip_body(name=b'', lps=()), ip_body(lps=(9,)), ip_body(lps=(9,), pad=False),
               ip_body(name=b'n\0\0\0', lps=(1, 2, 3, 4)), ip_body(name=b'\0\0\0\0', lps=(0xFFFF,)),
               ip_body(name=b'abcd', namelen=0, lps=(1, 2)), ip_body(name=b'abcd', lps=(1, 2), count=0),
               ip_body(name=b'ab\xffd', lps=(1,)), ip_body(name=b'abcd', lps=(1, 2), count=3)],
    }
    creators = ["O", "H", "B", "Z", ""]
    for cls, bodies in wf.items():
        for i, body in enumerate(bodies):
            for creator in creators[:3] if i else creators:
                for comp in (0x2000, 0x4142, 0x4100):
                    add(op="class", cls=cls, data=body + b'TRAILER', creator=creator,
                        h=[1 + i, i, comp], twice=(comp == 0x2000))
            for cut in range(len(body) + 1):
                add(op="class", cls=cls, data=body[:cut], creator="O", h=[1, 0, 0x2000],
                    twice=(cut % 7 == 0))
            for _ in range(30):
                b = bytearray(body + b'\0\0\0\0')
                for _ in range(r.randrange(1, 4)):
                    b[r.randrange(len(b))] = r.randrange(256)
                add(op="class", cls=cls, data=bytes(b), creator=r.choice(creators),
                    h=[r.randrange(256), r.randrange(256), r.randrange(65536)],
                    twice=r.random() < 0.3)
        for _ in range(120):
            add(op="class", cls=cls, data=rbytes(r, r.randrange(0, 120), r.randrange(3)),
                creator=r.choice(creators),
                h=[r.randrange(256), r.randrange(256), r.randrange(65536)],
                twice=r.random() < 0.3)

    # ---- generateXX / sectionFun on sections (with header)
    sec_samples = []
    for p in pels[:6]:
        sec_samples.append(p)
    for cls, bodies in wf.items():
        key = dict(PH='PH', UH='UH', EH='EH', MT='MT', IP='LP')[cls]
        for body in bodies:
            sec_samples.append(section(SID[key], body, comp=0x2000))
            sec_samples.append(section(SID[key], body, ver=3, sub=2, comp=0x4142))
    sec_samples.append(section(SID['UD'], b'{"k": "v"}', sub=1))
    sec_samples.append(section(SID['ED'], b'\0\0\0\0' + b'O\0\0\0' + b'{"k": "v"}', sub=1))
    sec_samples.append(section(SID['DH'], b'0123456789'))
    sec_samples.append(section(SID['PS'], src_body()))
    sec_samples.append(section(SID['SS'], src_body(b"11001234")))
    for s in sec_samples:
        for fn in ("generatePH", "generateUH", "sectionFun"):
            for creator in ("O", "H"):
                add(op="gen", fn=fn, data=s, creator=creator)
        for cut in sorted(set([0, 1, 3, 7, 8, 9, 12, 20, len(s) - 1, len(s) // 2])):
            if 0 <= cut < len(s):
                add(op="gen", fn="sectionFun", data=s[:cut], creator="O")
                add(op="gen", fn="generatePH", data=s[:cut], creator="O")
                add(op="gen", fn="generateUH", data=s[:cut], creator="O")
    # direct calls of generateEH/MT/IP with explicit header values
    for cls, fn in (("EH", "generateEH"), ("MT", "generateMT"), ("IP", "generateIP")):
        for body in wf[cls]:
            for sid in (SID[dict(EH='EH', MT='MT', IP='LP')[cls]], 0x1234, 0):
                add(op="gen5", fn=fn, data=body, creator="O", h=[sid, len(body) + 8, 1, 0, 0x2000])
                add(op="gen5", fn=fn, data=body[:len(body) // 2], creator="H",
                    h=[sid, 8, 2, 9, 0x4142])
        for _ in range(40):
            add(op="gen5", fn=fn, data=rbytes(r, r.randrange(0, 90), r.randrange(3)),
                creator=r.choice(creators),
                h=[r.randrange(65536), r.randrange(65536), r.randrange(256), r.randrange(256),
                   r.randrange(65536)])
    for _ in range(150):
        d = rbytes(r, r.randrange(0, 100), r.randrange(3))
        if r.random() < 0.7:
            d = struct.pack(">H", r.choice(list(SID.values()))) + d
        add(op="gen", fn=r.choice(["generatePH", "generateUH", "sectionFun"]), data=d,
            creator=r.choice(creators))

    # ---- whole PEL: parsePEL / parsePELSummary with several configs
    for i, p in enumerate(pels):
        for ci, cfg in enumerate(CONFIGS):
            if i >= 15 and ci not in (0, 1, 5):
                continue
            add(op="pel", data=p, cfg=cfg, exit_on_error=False)
            add(op="summary", data=p, cfg=cfg)
        add(op="pel", data=p, cfg={"every_pel": True}, exit_on_error=True)
    # all truncations of two PELs, strided truncation of others
    for p in pels[:2]:
        for cut in range(len(p)):
            add(op="pel", data=p[:cut], cfg={"every_pel": True}, exit_on_error=(cut % 2 == 0))
        for cut in range(0, len(p), 3):
            add(op="summary", data=p[:cut], cfg={"every_pel": True})
    for p in pels[2:]:
        for cut in range(0, len(p), 11):
            add(op="pel", data=p[:cut], cfg={"every_pel": True}, exit_on_error=False)
    # corruption
    for _ in range(700):
        p = bytearray(r.choice(pels))
        for _ in range(r.randrange(1, 5)):
            p[r.randrange(len(p))] = r.randrange(256)
        cfg = r.choice(CONFIGS[:3])
        add(op="pel", data=bytes(p), cfg=cfg, exit_on_error=r.random() < 0.2)
        if r.random() < 0.3:
            add(op="summary", data=bytes(p), cfg=cfg)
    # corruption restricted to the fixed-layout sections' length/size bytes
    for _ in range(300):
        p = bytearray(r.choice(pels[:6]))
        pos = r.randrange(0, min(len(p), 72))
        p[pos] = r.randrange(256)
        add(op="pel", data=bytes(p), cfg={"every_pel": True}, exit_on_error=False)
    # random
    for _ in range(200):
        d = rbytes(r, r.randrange(0, 200), r.randrange(3))
        if r.random() < 0.6:
            d = hdr(SID['PH'], 48) + d
        add(op="pel", data=d, cfg={"every_pel": True}, exit_on_error=r.random() < 0.3)
        add(op="summary", data=d, cfg={"every_pel": True})
    return cases, pels


# --------------------------------------------------------------------------
# worker (runs with PYTHONPATH=<root>/modules)
# --------------------------------------------------------------------------

def snapshot(obj):
    if obj is None:
        return None
    d = {}
    for k, v in vars(obj).items():
        if k == "stream":
            continue
        d[k] = repr(v)
    return {"type": type(obj).__name__, "attrs": d}


def worker(cases_path):
    import contextlib
    import importlib.util
    from collections import OrderedDict
    from pel.datastream import DataStream
    from pel.peltool.config import Config
    from pel.peltool import private_header, user_header, extend_user_header, \
        failing_mtms, imp_partition
    import pel.peltool.peltool as peltool

    classes = {"PH": private_header.PrivateHeader, "UH": user_header.UserHeader,
               "EH": extend_user_header.ExtendedUserHeader,
               "MT": failing_mtms.FailingMTMS, "IP": imp_partition.ImpactedPartition}

    with open(cases_path) as f:
        cases = json.load(f)

    def mkcfg(d):
        c = Config()
        for k, v in d.items():
            setattr(c, k, list(v) if isinstance(v, list) else v)
        return c

    results = []
    for case in cases:
        data = bytes.fromhex(case["data"])
        stream = DataStream(data, byte_order='big', is_signed=False)
        so, se = io.StringIO(), io.StringIO()
        res = {}
        obj = None
        try:
            with contextlib.redirect_stdout(so), contextlib.redirect_stderr(se):
                op = case["op"]
                if op == "ts":
                    res["ret"] = private_header.getTimestamp(stream)
                elif op == "name":
                    res["ret"] = peltool.getSectionName(case["sid"])
                elif op == "class":
                    ver, sub, comp = case["h"]
                    cls = classes[case["cls"]]
                    if case["cls"] == "PH":
                        obj = cls(stream, 0x5048, len(data) + 8, ver, sub, comp)
                    else:
                        obj = cls(stream, 0x1111, len(data) + 8, ver, sub, comp,
                                  case["creator"])
                    res["init"] = snapshot(obj)
                    res["ret"] = json.dumps(obj.toJSON())
                    if case["cls"] == "UH":
                        res["hidden"] = repr(obj.isHidden())
                        res["serviceable"] = repr(obj.isServiceable())
                    if case["twice"]:
                        res["index1"] = stream.index
                        res["ret2"] = json.dumps(obj.toJSON())
                elif op == "gen":
                    out = OrderedDict()
                    res["out"] = out
                    fn = case["fn"]
                    if fn == "generatePH":
                        ok, obj = peltool.generatePH(stream, out)
                        res["ret"] = repr(ok)
                    elif fn == "generateUH":
                        ok, obj = peltool.generateUH(stream, case["creator"], out)
                        res["ret"] = repr(ok)
                    else:
                        h = peltool.parseHeader(stream)
                        res["ret"] = repr(peltool.sectionFun(
                            stream, out, h[0], h[1], h[2], h[3], h[4], case["creator"],
                            mkcfg({})))
                elif op == "gen5":
                    out = OrderedDict()
                    res["out"] = out
                    h = case["h"]
                    ok, obj = getattr(peltool, case["fn"])(
                        stream, out, h[0], h[1], h[2], h[3], h[4], case["creator"])
                    res["ret"] = repr(ok)
                elif op == "pel":
                    eid, js = peltool.parsePEL(stream, mkcfg(case["cfg"]),
                                               case["exit_on_error"])
                    res["ret"] = [eid, js]
                elif op == "summary":
                    eid, summary = peltool.parsePELSummary(stream, mkcfg(case["cfg"]))
                    res["ret"] = [eid, json.dumps(summary)]
        except SystemExit as e:
            res["exit"] = repr(e.code)
        except BaseException as e:   # noqa
            res["exc"] = [type(e).__name__, str(e)]
        if "out" in res:
            res["out"] = json.dumps(res["out"])
        res["obj"] = snapshot(obj)
        res["index"] = stream.index
        res["stdout"] = so.getvalue()
        res["stderr"] = se.getvalue()
        results.append(res)
    json.dump(results, sys.stdout)


# --------------------------------------------------------------------------
# CLI level
# --------------------------------------------------------------------------

def tree_state(path):
    state = {}
    for root, dirs, files in os.walk(path):
        dirs.sort()
        for f in sorted(files):
            p = os.path.join(root, f)
            with open(p, 'rb') as fd:
                state[os.path.relpath(p, path)] = hashlib.sha256(fd.read()).hexdigest()
        for d in dirs:
            state[os.path.relpath(os.path.join(root, d), path) + "/"] = "dir"
    return state


def norm_err(text, root):
    text = text.replace(root, "<ROOT>")
    if "Traceback (most recent call last)" in text:
        text = "\n".join(l for l in text.split("\n") if not l.startswith("  "))
    return text


def populate(workdir, pels):
    if os.path.exists(workdir):
        shutil.rmtree(workdir)
    os.makedirs(os.path.join(workdir, "pels", "sub"))
    os.makedirs(os.path.join(workdir, "out"))
    names = []
    for i, p in enumerate(pels):
        eid = struct.unpack(">I", p[44:48])[0] if len(p) >= 48 else i
        ext = ".pel" if i % 3 else ""
        name = "2024010100%02d_%08X%s" % (i, eid, ext)
        names.append(name)
        with open(os.path.join(workdir, "pels", name), "wb") as f:
            f.write(p)
    with open(os.path.join(workdir, "pels", "sub", "nested_50000001"), "wb") as f:
        f.write(pels[0])
    with open(os.path.join(workdir, "exclude.txt"), "w") as f:
        f.write("BD8D1234\n")
    return names


def cli_cases(pels_for_cli):
    d = "{W}/pels"
    f0 = d + "/{N0}"
    cases = []
    for i in range(len(pels_for_cli)):
        cases.append(["-f", d + "/{N%d}" % i])
    cases += [
        ["-f", f0, "-x"], ["-f", f0, "-c"], ["-f", d + "/{N3}", "-c"], ["-f", d + "/{N9}", "-c"],
        ["-f", f0, "-P"], ["-f", d + "/{N1}", "-N"], ["-f", d + "/{N4}", "-H", "-O"],
        ["-f", d + "/nonexistent"],
        ["-p", d, "-l"], ["-p", d, "-l", "-E"], ["-p", d, "-l", "-H", "-O"], ["-p", d, "-l", "-N"],
        ["-p", d, "-l", "-s", "-O", "-S", "Unrecoverable"], ["-p", d, "-l", "-S", "Informational"],
        ["-p", d, "-l", "-r"], ["-p", d, "-l", "-e", ".pel"], ["-p", d, "-l", "-x"],
        ["-p", d, "-l", "-t"], ["-p", d, "-l", "-E", "-P"],
        ["-p", d, "-n"], ["-p", d, "-n", "-E"], ["-p", d, "-n", "-H", "-O"],
        ["-p", d, "-n", "-O", "-S", "Predictive"],
        ["-p", d, "-a"], ["-p", d, "-a", "-E"], ["-p", d, "-a", "-x"], ["-p", d, "-a", "-E", "-P", "-r"],
        ["-p", d, "-a", "-N", "-O"], ["-p", d, "-a", "-e", ".pel", "-E"],
        ["-p", d, "-j", "-o", "{W}/out"], ["-p", d, "-j"], ["-p", d, "-j", "-c", "-o", "{W}/out"],
        ["-p", d, "-j", "-c", "-E"], ["-p", d, "-j", "-o", "{W}/missing"],
        ["-p", d, "-j", "-E", "-e", ".pel", "-o", "{W}/out"],
        ["-p", d, "-i", "50000001"], ["-p", d, "-i", "0x50000001", "-x"], ["-p", d, "-i", "DEADBEEF"],
        ["-p", d, "-i", "123"],
        ["-p", d, "--bmc-id", "1"], ["-p", d, "--bmc-id", "999999"], ["-p", d, "--bmc-id", "1", "-x"],
        ["-p", d, "--plid", "50000001"], ["-p", d, "--plid", "50000001", "-E"],
        ["-p", d, "--plid", "50000001", "-x"],
        ["-p", d, "--src", "BD8D"], ["-p", d, "--src", "BD8D", "-E"], ["-p", d, "--src", "BC8A", "-E", "-x"],
        ["-p", d, "--src-exclude", "{W}/exclude.txt"], ["-p", d, "--src-exclude", "{W}/exclude.txt", "-E"],
        ["-p", d, "-d", "50000001"], ["-p", d, "-D"], ["-p", d + "/nope", "-l"], ["-l"],
    ]
    return cases


def run_cli(root, workdir, pels, opt_flag):
    results = []
    env = dict(os.environ)
    env["PYTHONPATH"] = os.path.join(root, "modules")
    env["PYTHONDONTWRITEBYTECODE"] = "1"
    env["PYTHONHASHSEED"] = "0"
    script = os.path.join(root, "modules", "pel", "peltool", "peltool.py")
    for args in cli_cases(pels):
        names = populate(workdir, pels)
        real = []
        for a in args:
            a = a.replace("{W}", workdir)
            for i, n in enumerate(names):
                a = a.replace("{N%d}" % i, n)
            real.append(a)
        cmd = [PY] + opt_flag + [script] + real
        p = subprocess.run(cmd, env=env, stdout=subprocess.PIPE, stderr=subprocess.PIPE,
                           cwd=workdir, timeout=120)
        results.append({"args": args, "rc": p.returncode,
                        "stdout": p.stdout.decode("utf-8", "replace"),
                        "stderr": norm_err(p.stderr.decode("utf-8", "replace"), root),
                        "tree": tree_state(workdir)})
    return results


def run_worker(root, cases_path, opt_flag):
    env = dict(os.environ)
    env["PYTHONPATH"] = os.path.join(root, "modules")
    env["PYTHONDONTWRITEBYTECODE"] = "1"
    env["PYTHONHASHSEED"] = "0"
    p = subprocess.run([PY] + opt_flag + [os.path.abspath(__file__), "--worker", cases_path],
                       env=env, stdout=subprocess.PIPE, stderr=subprocess.PIPE, timeout=3600)
    if p.returncode != 0:
        print("worker failed for %s:\n%s" % (root, p.stderr.decode()[-3000:]))
        sys.exit(2)
    res = json.loads(p.stdout.decode())
    for r_ in res:
        r_["stderr"] = norm_err(r_["stderr"], root)
        if "exc" in r_:
            r_["exc"][1] = r_["exc"][1].replace(root, "<ROOT>")
    return res


def main():
    if len(sys.argv) == 3 and sys.argv[1] == "--worker":
        worker(sys.argv[2])
        return
    if len(sys.argv) != 3:
        print(__doc__)
        sys.exit(2)
    pristine = os.path.abspath(sys.argv[1])
    patched = os.path.abspath(sys.argv[2])
    workdir = os.path.join(HERE, "_work")
    if os.path.exists(workdir):
        shutil.rmtree(workdir)
    os.makedirs(workdir)
    cases, pels = make_cases()
    cases_path = os.path.join(HERE, "_cases.json")
    with open(cases_path, "w") as f:
        json.dump(cases, f)

    total = 0
    ndiff = 0
    for opt in ([], ["-O"]):
        a = run_worker(pristine, cases_path, opt)
        b = run_worker(patched, cases_path, opt)
        if len(a) != len(cases) or len(b) != len(cases):
            print("result count mismatch")
            sys.exit(1)
        for case, ra, rb in zip(cases, a, b):
            total += 1
            if ra != rb:
                ndiff += 1
                if ndiff <= 10:
                    print("DIFF (python %s) case %s" % (" ".join(opt), json.dumps(case)[:400]))
                    for k in sorted(set(ra) | set(rb)):
                        if ra.get(k) != rb.get(k):
                            print("   %s:\n     pristine=%r\n     patched =%r" %
                                  (k, ra.get(k), rb.get(k)))

    cli_pels = pels[:16]
    cliwork = os.path.join(workdir, "cli")
    for opt in ([], ["-O"]):
        a = run_cli(pristine, cliwork, cli_pels, opt)
        b = run_cli(patched, cliwork, cli_pels, opt)
        for ra, rb in zip(a, b):
            total += 1
            if ra != rb:
                ndiff += 1
                if ndiff <= 10:
                    print("DIFF (cli %s) %s" % (" ".join(opt), ra["args"]))
                    for k in ra:
                        if ra[k] != rb[k]:
                            print("   %s:\n     pristine=%r\n     patched =%r" % (k, ra[k], rb[k]))

    shutil.rmtree(workdir, ignore_errors=True)
    try:
        os.remove(cases_path)
    except OSError:
        pass
    if ndiff:
        print("DIFFERENT (%d of %d cases differ)" % (ndiff, total))
        sys.exit(1)
    print("IDENTICAL (%d cases)" % total)
    sys.exit(0)


if __name__ == "__main__":
    main()
