#!/usr/bin/env python
"""
Differential check for refactorings of the directory / look-up modes of
modules/pel/peltool/peltool.py.

usage: diffcheck.py <pristine_root> <patched_root>

Builds a corpus of PEL directories (well-formed, truncated, corrupted, random,
empty, nested, broken symlink, duplicates ...), then

  * runs the peltool.py CLI of both trees on every directory with many option
    combinations (also under `python -O`), and
  * runs an in-process driver in both trees that calls the touched functions
    directly with many Config combinations (the same process decodes
    everything, several things twice),

and compares stdout, stderr (tracebacks reduced to their last line), exit
status, return values, raised exceptions and the content of the data
directories afterwards.

Prints "IDENTICAL (<n> cases)" and exits 0 if everything is the same, exits 1
otherwise.
"""

import concurrent.futures
import hashlib
import json
import os
import random
import shutil
import struct
import subprocess
import sys
import tempfile

SERVICE = 0x8000
HIDDEN = 0x4000
REPORT = 0x2000


# ----------------------------------------------------------------------------
# PEL construction
# ----------------------------------------------------------------------------

def hdr(sid, length, ver=1, sub=0, comp=0x2000):
    if isinstance(sid, str):
        sid = (ord(sid[0]) << 8) | ord(sid[1])
    return struct.pack(">HHBBH", sid, length & 0xFFFF, ver, sub, comp)


def bcdTime(n=0):
    return bytes([0x20, 0x23, 0x03, 0x08 + (n % 16), 0x18, 0x40, 0x27, n % 100])


def privateHeader(count, eid, plid, obmc, creator=b'O', comp=0x2000, n=0,
                  sid='PH'):
    body = bcdTime(n) + bcdTime(n + 1) + creator + b'\x00\x00' + \
        bytes([count & 0xFF]) + struct.pack(">I", obmc) + \
        struct.pack(">Q", 0x0102030405060708) + \
        struct.pack(">II", plid, eid)
    return hdr(sid, 48, comp=comp) + body


def userHeader(sev=0x40, action=SERVICE | REPORT, subsystem=0x10, scope=3,
               etype=0, states=0, sid='UH', comp=0x2000):
    body = struct.pack(">BBBBIBBHI", subsystem, scope, sev, etype, 0, 0, 0,
                       action, states)
    return hdr(sid, 24, comp=comp) + body


def callouts():
    loc = b'U78DA.ND1-P0\x00\x00\x00\x00'
    fru = struct.pack(">HBB", 0x4944, 28, 0x20 | 0x08 | 0x04 | 0x01) + \
        b'PN12345\x00' + b'CCIN' + b'SN1234567890'
    callout1 = bytes([4 + len(loc) + len(fru), 0, ord('H'), len(loc)]) + \
        loc + fru
    fru2 = struct.pack(">HBB", 0x4944, 12, 0x30 | 0x02) + b'BMC0001\x00'
    callout2 = bytes([4 + len(fru2), 0, ord('M'), 0]) + fru2
    body = callout1 + callout2
    total = 4 + len(body)
    return bytes([0xC0, 0]) + struct.pack(">H", total // 4) + body


def srcSection(ascii=b'BD8D1002', words=None, flags=0, wordCount=9,
               sid='PS', pad=b' ', comp=0x2000):
    words = words or [0x00000055, 0x11223344, 0, 0x03000000, 5, 6, 7, 8]
    text = ascii.ljust(32, pad)[:32]
    body = bytes([2, flags, 0, wordCount]) + struct.pack(">HH", 0, 72) + \
        b''.join(struct.pack(">I", w & 0xFFFFFFFF) for w in words) + text
    if flags & 1:
        body += callouts()
    return hdr(sid, 8 + len(body), comp=comp) + body


def userData(data=b'\x01\x02\x03\x04hello world', comp=0x2000, sub=1, ver=1):
    return hdr('UD', 8 + len(data), ver=ver, sub=sub, comp=comp) + data


def otherSection(sid='EI', data=b'\xde\xad\xbe\xef' * 5):
    return hdr(sid, 8 + len(data)) + data


def failingMTMS():
    return hdr('MT', 28) + b'9105-22A' + b'SN1234567\x00\x00\x00'


def makePEL(eid, plid=None, obmc=1, creator=b'O', sev=0x40,
            action=SERVICE | REPORT, sections=None, count=None, n=0, **kw):
    if plid is None:
        plid = eid
    if sections is None:
        sections = [srcSection(), userData()]
    if count is None:
        count = 2 + len(sections)
    return privateHeader(count, eid, plid, obmc, creator=creator, n=n) + \
        userHeader(sev=sev, action=action, **kw) + b''.join(sections)


def pelName(n, eid, ext=''):
    return "20230308184027%02d_%08X%s" % (n, eid, ext)


def write(dirpath, name, data):
    with open(os.path.join(dirpath, name), 'wb') as f:
        f.write(data)


def goodPELs():
    """list of (eid, bmcid, data) of assorted well-formed PELs"""
    pels = []
    variants = [
        # sev, action, creator, sections
        (0x40, SERVICE | REPORT, b'O', None),
        (0x00, 0x0000, b'O', [srcSection(b'BD8D3601'), userData()]),
        (0x00, SERVICE, b'O', [srcSection(b'BD561001', flags=1)]),
        (0x51, SERVICE | REPORT, b'B', [srcSection(b'BC8A0501'),
                                        userData(comp=0x0100)]),
        (0x20, SERVICE | REPORT | HIDDEN, b'O', [srcSection(b'110015F0')]),
        (0x10, 0x0000, b'H', [srcSection(b'B7001111'), otherSection()]),
        (0x60, REPORT, b'E', [srcSection(b'B2001020', wordCount=5),
                              failingMTMS(), userData(), userData(b'xyz')]),
        (0x71, SERVICE | REPORT, b'O', [userData(), otherSection('DH')]),
        (0x40, SERVICE | REPORT, b'O', [srcSection(b'BD8D1002', flags=1),
                                        srcSection(b'BD8D1003', sid='SS'),
                                        userData(comp=0xE500, sub=1)]),
        (0x40, SERVICE | REPORT, b'O', [otherSection('EH', b'\x00' * 12),
                                        srcSection(b'BDAA0001')]),
        (0x50, HIDDEN, b'P', [srcSection(b'B181F12A', comp=0x4142)]),
        (0x40, SERVICE | REPORT, b'O', []),
    ]
    for n, (sev, action, creator, sections) in enumerate(variants):
        eid = 0x50000001 + n
        plid = eid if n % 3 else 0x50000001
        pels.append((eid, 100 + n,
                     makePEL(eid, plid=plid, obmc=100 + n, creator=creator,
                             sev=sev, action=action, sections=sections, n=n)))
    return pels


def buildCorpus(base):
    rnd = random.Random(20240229)
    dirs = {}

    def mk(name):
        p = os.path.join(base, name)
        os.mkdir(p)
        dirs[name] = p
        return p

    good = goodPELs()

    d = mk('good')
    for n, (eid, _, data) in enumerate(good):
        ext = ['', '.pel', '.txt'][n % 3]
        write(d, pelName(n, eid, ext), data)

    d = mk('mixed')
    for n, (eid, _, data) in enumerate(good[:6]):
        write(d, pelName(n, eid, '.pel' if n % 2 else ''), data)
    ref = good[0][2]
    write(d, pelName(20, 0x60000001), ref[:10])            # inside PH
    write(d, pelName(21, 0x60000002), ref[:48])            # PH only
    write(d, pelName(22, 0x60000003), ref[:60])            # inside UH
    write(d, pelName(23, 0x60000004), ref[:72])            # PH + UH only
    write(d, pelName(24, 0x60000005), ref[:100])           # inside SRC
    write(d, pelName(25, 0x60000006), ref[:-3])            # inside UD
    write(d, pelName(26, 0x60000007), b'')                 # empty
    write(d, pelName(27, 0x60000008, '.pel'),
          bytes(rnd.randrange(256) for _ in range(300)))   # random
    write(d, pelName(28, 0x60000009),
          b'XX' + ref[2:])                                 # bad PH id
    write(d, pelName(29, 0x6000000A, '.pel'),
          ref[:48] + b'YY' + ref[50:])                     # bad UH id
    write(d, pelName(30, 0x6000000B),
          makePEL(0x6000000B, obmc=777,
                  sections=[srcSection(b'\xff\xfe\xfd\xfc')]))  # bad utf-8
    write(d, pelName(31, 0x6000000C),
          makePEL(0x6000000C, obmc=778, count=200))        # count too large
    write(d, pelName(32, 0x6000000D),
          makePEL(0x6000000D, obmc=779, creator=b'\xc3'))  # bad creator
    write(d, pelName(33, 0x6000000E, '.pel'),
          makePEL(0x6000000E, obmc=780,
                  sections=[userData(), srcSection(b'BD8D9999')]))
    write(d, pelName(34, 0x6000000F),
          makePEL(0x6000000F, obmc=104,
                  sections=[hdr('UD', 4)]))                # negative length
    write(d, "README", b"this is not a PEL at all\n")
    os.mkdir(os.path.join(d, 'archive'))
    write(os.path.join(d, 'archive'), pelName(40, 0x70000001), ref)

    d = mk('fuzz')
    for n in range(70):
        src = bytearray(good[n % len(good)][2])
        kind = n % 4
        if kind == 0 and len(src) > 1:
            src = src[:rnd.randrange(1, len(src))]
        elif kind == 1:
            for _ in range(rnd.randrange(1, 6)):
                src[rnd.randrange(len(src))] = rnd.randrange(256)
        elif kind == 2:
            # only damage the part after the two headers
            for _ in range(rnd.randrange(1, 8)):
                if len(src) > 73:
                    src[rnd.randrange(72, len(src))] = rnd.randrange(256)
        else:
            pos = rnd.randrange(len(src))
            src[pos:pos] = bytes(rnd.randrange(256)
                                 for _ in range(rnd.randrange(1, 9)))
        write(d, pelName(n, 0x51000000 + n, '.pel' if n % 5 == 0 else ''),
              bytes(src))

    mk('empty')

    d = mk('nested')
    os.mkdir(os.path.join(d, 'sub'))
    write(os.path.join(d, 'sub'), pelName(1, 0x50000001), good[0][2])
    write(os.path.join(d, 'sub'), pelName(2, 0x50000002), good[1][2])

    d = mk('dupes')
    write(d, pelName(1, 0x50000001), good[0][2])
    write(d, pelName(2, 0x50000001, '.copy'), good[0][2])
    write(d, pelName(3, 0x50000001, '.other'),
          makePEL(0x50000001, obmc=100, sections=[srcSection(b'BD112233')]))
    write(d, pelName(4, 0x50000009), good[8][2])

    d = mk('broken')
    write(d, pelName(1, 0x50000001), good[0][2])
    os.symlink(os.path.join(d, 'does-not-exist'),
               os.path.join(d, pelName(2, 0x50000777)))
    write(d, pelName(3, 0x50000004), good[3][2])

    d = mk('nosrc')
    write(d, pelName(1, 0x50000008), good[7][2])
    write(d, pelName(2, 0x5000000C), good[11][2])
    write(d, pelName(3, 0x50000001), good[0][2])

    dirs['missing'] = os.path.join(base, 'no-such-directory')

    aux = os.path.join(base, 'aux')
    os.mkdir(aux)
    write(aux, 'exclude1.txt', b"BD8D1002\nBC8A0501\n")
    write(aux, 'exclude_empty.txt', b"")
    write(aux, 'exclude_binary.bin', b"\xff\xfe\x00BD8D1002")
    return dirs, aux


def treeDigest(base):
    h = hashlib.sha256()
    for root, dnames, fnames in os.walk(base):
        dnames.sort()
        for name in sorted(fnames):
            p = os.path.join(root, name)
            h.update(os.path.relpath(p, base).encode())
            if os.path.islink(p):
                h.update(b'L' + os.readlink(p).encode())
            else:
                with open(p, 'rb') as f:
                    h.update(b'F' + f.read())
        for name in dnames:
            h.update(b'D' + os.path.relpath(os.path.join(root, name),
                                            base).encode())
    return h.hexdigest()


# ----------------------------------------------------------------------------
# CLI cases
# ----------------------------------------------------------------------------

def cliCases(dirs, aux):
    filt = [[], ['-E'], ['-H', '-O'], ['-N'], ['-s', '-N', '-H'],
            ['-S', 'Informational'], ['-O', '-S', 'Unrecoverable', 'Critical'],
            ['-t'], ['-s', '-O', '-S', 'Predictive'], ['-t', '-O']]
    cases = []
    for dname, path in dirs.items():
        base = ['-p', path]
        for mode in ['-l', '-n', '-a']:
            for f in filt:
                cases.append(base + [mode] + f)
            cases.append(base + [mode, '-x'])
            cases.append(base + [mode, '-x', '-E', '-r'])
            cases.append(base + [mode, '-r', '-E'])
            cases.append(base + [mode, '-e', '.pel', '-E'])
            cases.append(base + [mode, '-e', '.pel', '-x', '-r'])
            cases.append(base + [mode, '-e', 'pel', '-E'])
            cases.append(base + [mode, '-P', '-E'])
        for pid in ['50000001', '0x50000001', '0X5000000a', '5000000A',
                    '50000004', '60000003', '6000000B', '51000003',
                    '50000777', '5000', '0x123456789', '99999999', '70000001',
                    '20230308']:
            cases.append(base + ['-i', pid])
            cases.append(base + ['-i', pid, '-x'])
            cases.append(base + ['--plid', pid])
            cases.append(base + ['--plid', pid, '-x', '-r'])
        cases.append(base + ['-i', '50000005', '-H'])
        cases.append(base + ['--plid', '50000001', '-E', '-e', '.pel'])
        cases.append(base + ['--plid', '50000001', '-O', '-H'])
        for bid in ['100', '101', '104', '108', '777', '779', '0', 'abc',
                    '4294967295', '0100']:
            cases.append(base + ['--bmc-id', bid])
            cases.append(base + ['--bmc-id', bid, '-x'])
        cases.append(base + ['--bmc-id', '104', '-O', '-S', 'Critical'])
        for src in ['BD8D', 'BD8D1002', 'bd8d', 'B', '1', ' ', 'ZZZZ',
                    'X' * 32, 'X' * 33, 'BC8A0501']:
            cases.append(base + ['--src', src])
            cases.append(base + ['--src', src, '-x'])
            cases.append(base + ['--src', src, '-E', '-r'])
        cases.append(base + ['--src', 'BD', '-e', '.pel', '-E'])
        for name in ['exclude1.txt', 'exclude_empty.txt',
                     'exclude_binary.bin', 'nope.txt']:
            ex = os.path.join(aux, name)
            cases.append(base + ['--src-exclude', ex])
            cases.append(base + ['--src-exclude', ex, '-x', '-E'])
            cases.append(base + ['--src-exclude', ex, '-r', '-E'])
        cases.append(base + ['--src', 'BD', '--src-exclude',
                             os.path.join(aux, 'exclude1.txt')])
        # single file mode (shares the printing code of the --id mode)
        if os.path.isdir(path) and dname in ('good', 'mixed', 'broken'):
            for name in sorted(os.listdir(path)):
                fp = os.path.join(path, name)
                cases.append(['-f', fp])
                cases.append(['-f', fp, '-x', '-E'])
    return cases


def reduceTracebacks(text):
    out = []
    inTb = False
    for line in text.split('\n'):
        if line.startswith('Traceback (most recent call last)'):
            inTb = True
            out.append(line)
            continue
        if inTb:
            if line.startswith(' '):
                continue
            inTb = False
        out.append(line)
    return '\n'.join(out)


def runCLI(root, args, optimize):
    env = dict(os.environ)
    env['PYTHONPATH'] = os.path.join(root, 'modules')
    env['PYTHONDONTWRITEBYTECODE'] = '1'
    env['PYTHONHASHSEED'] = '0'
    cmd = [sys.executable]
    if optimize:
        cmd.append('-O')
    cmd.append(os.path.join(root, 'modules', 'pel', 'peltool', 'peltool.py'))
    p = subprocess.run(cmd + args, env=env, stdout=subprocess.PIPE,
                       stderr=subprocess.PIPE, stdin=subprocess.DEVNULL,
                       timeout=300)
    err = reduceTracebacks(p.stderr.decode('utf-8', 'replace'))
    err = err.replace(root, '<ROOT>')
    return (p.returncode, p.stdout, err)


# ----------------------------------------------------------------------------
# in-process driver (runs inside each tree, one process for all cases)
# ----------------------------------------------------------------------------

DRIVER = r'''
import contextlib, io, json, os, sys
import pel.peltool.peltool as pt
from pel.peltool.config import Config

spec = json.load(open(sys.argv[1]))
results = []


def mkConfig(d):
    c = Config()
    for k, v in d.items():
        setattr(c, k, v)
    return c


def conv(arg):
    if isinstance(arg, dict) and '__config__' in arg:
        return mkConfig(arg['__config__'])
    if isinstance(arg, dict) and '__bytes__' in arg:
        return bytes.fromhex(arg['__bytes__'])
    if isinstance(arg, dict) and '__bytearray__' in arg:
        return bytearray.fromhex(arg['__bytearray__'])
    if isinstance(arg, dict) and '__memoryview__' in arg:
        return memoryview(bytes.fromhex(arg['__memoryview__']))
    if isinstance(arg, dict) and '__file__' in arg:
        with open(arg['__file__'], 'rb') as f:
            return f.read()
    return arg


for case in spec:
    fn = getattr(pt, case['fn'])
    args = [conv(a) for a in case['args']]
    out, err = io.StringIO(), io.StringIO()
    ret, exc = None, None
    with contextlib.redirect_stdout(out), contextlib.redirect_stderr(err):
        try:
            ret = repr(fn(*args))
        except BaseException as e:
            exc = [type(e).__name__, str(e),
                   repr(getattr(e, 'code', None))]
    cfgs = [repr(sorted(vars(a).items())) for a in args
            if isinstance(a, Config)]
    results.append([out.getvalue(), err.getvalue(), ret, exc, cfgs])

# interface must be unchanged as well
import inspect
sigs = {}
for name in ['getFileList', 'listOption', 'extractAndSummarizePEL',
             'extractAllPELsData', 'printPELCount', 'parsePelFromID',
             'parsePelFromBmcID', 'parsePelFromPLID', 'parsePelFromSRCID',
             'processId', 'printPELInHexFormat', 'parseAndPrintPELFile',
             'parsePELSummary', 'parsePEL', 'deletePELFromPELId',
             'deleteAllPELs', 'parseAndWriteOutput', 'prettyPrint', 'main']:
    sigs[name] = str(inspect.signature(getattr(pt, name)))
results.append(sigs)
json.dump(results, open(sys.argv[2], 'w'))
'''


def driverCases(dirs, aux):
    rnd = random.Random(4711)
    cases = []

    def cfg(**kw):
        return {'__config__': kw}

    def add(fn, *args):
        cases.append({'fn': fn, 'args': list(args)})

    paths = list(dirs.values())

    # getFileList
    for p in paths + [os.path.join(dirs['good'], pelName(0, 0x50000001))]:
        for ext in [None, '', '.pel', '.txt', 'pel', '.', '.PEL']:
            for rev in [False, True]:
                add('getFileList', p, ext, rev)
        add('getFileList', p, None)
        add('getFileList', p, '.pel')
    add('getFileList', '', None)
    add('getFileList', None, None)
    add('getFileList', 5, None)

    # processId
    for pid in ['50000001', '0x50000001', '0X50000001', '0xabcdef12',
                'abcdef12', '0x', '', '0x1234567', '123456789', '0x0x123456',
                'ſ2345678', '        ', '0X0X50000001', None, 5, {'__bytes__': '3530303030303031'},
                '0x5000000１']:
        add('processId', pid)

    # printPELInHexFormat
    for v in [{'__bytes__': ''}, {'__bytes__': '00'},
              {'__bytes__': '41' * 16}, {'__bytes__': '7f80ff20' * 9},
              {'__bytearray__': '0102030405'},
              {'__memoryview__': '50480030'}, 'a string', 5, None,
              [1, 2, 3]]:
        add('printPELInHexFormat', v)

    flagNames = ['serviceable', 'non_serviceable', 'every_pel', 'critSysTerm',
                 'hidden', 'only', 'hex', 'rev', 'allow_plugins']

    def randomCfg(**kw):
        c = {}
        for name in flagNames:
            if rnd.random() < 0.3:
                c[name] = rnd.random() < 0.7
        if rnd.random() < 0.3:
            c['severities'] = rnd.sample([0, 1, 2, 4, 5, 6, 7],
                                         rnd.randrange(1, 4))
        if rnd.random() < 0.25:
            c['extension'] = rnd.choice(['.pel', '.txt', '', '.none'])
        c.update(kw)
        return cfg(**c)

    fixed = [dict(), dict(hex=True), dict(every_pel=True),
             dict(every_pel=True, hex=True, rev=True),
             dict(hidden=True, only=True), dict(extension='.pel', rev=True)]

    # extractAndSummarizePEL on every single file
    for p in paths:
        if not os.path.isdir(p):
            add('extractAndSummarizePEL', os.path.join(p, 'x'), cfg())
            continue
        for name in sorted(os.listdir(p)):
            fp = os.path.join(p, name)
            for c in [dict(), dict(hex=True), dict(every_pel=True),
                      dict(every_pel=True, hex=True)]:
                add('extractAndSummarizePEL', fp, cfg(**c))
            add('extractAndSummarizePEL', fp, randomCfg())

    # bad path arguments
    for fn, extra in [('listOption', {}), ('extractAllPELsData', {}),
                      ('printPELCount', {}),
                      ('parsePelFromID', {'pelID': '50000001'}),
                      ('parsePelFromPLID', {'plid': '50000001'}),
                      ('parsePelFromBmcID', {'bmcID': '100'}),
                      ('parsePelFromSRCID', {'src': 'BD'})]:
        for bad in [None, 5, '', [], os.path.join(dirs['good'],
                                                  pelName(0, 0x50000001))]:
            add(fn, bad, cfg(**extra))
            add(fn, bad, cfg(hex=True, **extra))

    # parseAndPrintPELFile on every single file
    for p in paths:
        if not os.path.isdir(p):
            add('parseAndPrintPELFile', os.path.join(p, 'x'), cfg(), False)
            continue
        for name in sorted(os.listdir(p)):
            fp = os.path.join(p, name)
            for c in [dict(), dict(hex=True), dict(every_pel=True),
                      dict(every_pel=True, hex=True)]:
                add('parseAndPrintPELFile', fp, cfg(**c), False)
            add('parseAndPrintPELFile', fp, randomCfg(), True)

    # the directory modes
    for p in paths:
        for fn in ['listOption', 'extractAllPELsData', 'printPELCount']:
            for c in fixed:
                add(fn, p, cfg(**c))
            for _ in range(6):
                add(fn, p, randomCfg())
        for pid in ['50000001', '0x5000000a', '51000002', '6000000C', 'zz',
                    None, '2023030818402700']:
            for c in fixed[:4]:
                add('parsePelFromID', p, cfg(pelID=pid, **c))
                add('parsePelFromPLID', p, cfg(plid=pid, **c))
            add('parsePelFromID', p, randomCfg(pelID=pid))
            add('parsePelFromPLID', p, randomCfg(plid=pid))
        for bid in ['100', '103', '104', '777', '778', '780', '5', '', None,
                    100]:
            for c in fixed[:4]:
                add('parsePelFromBmcID', p, cfg(bmcID=bid, **c))
            add('parsePelFromBmcID', p, randomCfg(bmcID=bid))
        ex1 = os.path.join(aux, 'exclude1.txt')
        exE = os.path.join(aux, 'exclude_empty.txt')
        exB = os.path.join(aux, 'exclude_binary.bin')
        exN = os.path.join(aux, 'missing.txt')
        for src, ex in [('BD8D', None), ('BD', None), ('', None),
                        (None, None), ('Y' * 33, None), ('Y' * 32, None),
                        (None, ex1), (None, exE), (None, exB), (None, exN),
                        ('BD8D', ex1), ('BD', exE), ('BC', ex1), ('', ex1),
                        ('Y' * 40, ex1), (5, None), (None, aux)]:
            for c in fixed[:4]:
                add('parsePelFromSRCID', p,
                    cfg(src=src, srcExcludeFile=ex, **c))
            add('parsePelFromSRCID', p,
                randomCfg(src=src, srcExcludeFile=ex))

    # decode a part of it all a second time in the same process
    cases.extend(cases[::7])
    return cases


def runDriver(root, workdir, tag, cases, optimize):
    env = dict(os.environ)
    env['PYTHONPATH'] = os.path.join(root, 'modules')
    env['PYTHONDONTWRITEBYTECODE'] = '1'
    env['PYTHONHASHSEED'] = '0'
    drv = os.path.join(workdir, 'driver.py')
    specFile = os.path.join(workdir, 'spec.json')
    outFile = os.path.join(workdir, 'out_%s.json' % tag)
    if not os.path.exists(drv):
        with open(drv, 'w') as f:
            f.write(DRIVER)
    with open(specFile, 'w') as f:
        json.dump(cases, f)
    cmd = [sys.executable] + (['-O'] if optimize else []) + \
        [drv, specFile, outFile]
    p = subprocess.run(cmd, env=env, stdout=subprocess.PIPE,
                       stderr=subprocess.PIPE, stdin=subprocess.DEVNULL,
                       timeout=3000)
    if p.returncode != 0:
        print("driver failed in %s:\n%s" % (root, p.stderr.decode()))
        sys.exit(1)
    with open(outFile) as f:
        res = json.load(f)
    text = json.dumps(res).replace(root, '<ROOT>')
    return json.loads(text)


# ----------------------------------------------------------------------------

def main():
    if len(sys.argv) != 3:
        sys.exit(__doc__)
    pristine = os.path.abspath(sys.argv[1])
    patched = os.path.abspath(sys.argv[2])
    work = tempfile.mkdtemp(prefix='diffcheck_')
    failures = 0
    total = 0
    try:
        data = os.path.join(work, 'data')
        os.mkdir(data)
        dirs, aux = buildCorpus(data)
        digest0 = treeDigest(data)

        # ---- CLI -----------------------------------------------------------
        cases = cliCases(dirs, aux)
        jobs = []
        for i, args in enumerate(cases):
            jobs.append((args, False))
            if i % 6 == 0:
                jobs.append((args, True))       # python -O

        def both(job):
            args, opt = job
            return (job, runCLI(pristine, args, opt),
                    runCLI(patched, args, opt))

        with concurrent.futures.ThreadPoolExecutor(
                max_workers=min(16, (os.cpu_count() or 2))) as ex:
            for job, a, b in ex.map(both, jobs):
                total += 1
                if a != b:
                    failures += 1
                    if failures <= 10:
                        print("CLI DIFFERENCE for %r (-O=%s)" % job)
                        print("  pristine:", repr(a)[:1500])
                        print("  patched :", repr(b)[:1500])
        if treeDigest(data) != digest0:
            failures += 1
            print("DIFFERENCE: data directory was modified by CLI runs")

        # ---- in-process driver -----------------------------------------------
        dcases = driverCases(dirs, aux)
        for opt in (False, True):
            tag = 'O' if opt else 'n'
            ra = runDriver(pristine, work, 'a' + tag, dcases, opt)
            da = treeDigest(data)
            rb = runDriver(patched, work, 'b' + tag, dcases, opt)
            db = treeDigest(data)
            if da != digest0 or db != digest0:
                failures += 1
                print("DIFFERENCE: data directory was modified by driver")
            if len(ra) != len(rb) or len(ra) != len(dcases) + 1:
                failures += 1
                print("DIFFERENCE: result count", len(ra), len(rb))
            for i, (x, y) in enumerate(zip(ra, rb)):
                total += 1
                if x != y:
                    failures += 1
                    if failures <= 10:
                        what = dcases[i] if i < len(dcases) else 'signatures'
                        print("DRIVER DIFFERENCE (-O=%s) for %r" % (opt, what))
                        print("  pristine:", repr(x)[:1500])
                        print("  patched :", repr(y)[:1500])
    finally:
        shutil.rmtree(work, ignore_errors=True)

    if failures:
        print("DIFFERENT (%d of %d cases differ)" % (failures, total))
        sys.exit(1)
    print("IDENTICAL (%d cases)" % total)
    sys.exit(0)


if __name__ == '__main__':
    main()
