#!/usr/bin/env python
"""
Differential check for refactorings of the peltool header/section decoders:
private_header.py, user_header.py, extend_user_header.py, failing_mtms.py,
imp_partition.py, comp_id.py, pel_values.py, pel_types.py.

usage: diffcheck.py <pristine_root> <patched_root>

Two layers are compared between the two source trees:

  A) unit layer:  a driver is run in a subprocess (PYTHONPATH=<root>/modules)
     that decodes thousands of byte strings (well-formed, every truncation,
     byte corruptions, random) with every touched class / function in ONE
     process (so state kept between decodes is covered), with and without
     `python -O`, and for several component-id configuration environments.
     For every case the JSON result (key order included), the exception type
     and text, the stream position and the instance attributes are recorded.

  B) CLI layer:  peltool.py is run on directories of generated PEL files with
     many option combinations; stdout, stderr, exit status and the directory
     contents afterwards are recorded.

Exit 0 and print "IDENTICAL (<n> cases)" when everything matches, else exit 1.
"""
import json
import os
import random
import re
import shutil
import struct
import subprocess
import sys
import tempfile

PY = sys.executable

# --------------------------------------------------------------------------
# builders for binary data
# --------------------------------------------------------------------------


def hdr(sid, length, ver=1, sub=0, comp=0x1000):
    if isinstance(sid, str):
        sid = (ord(sid[0]) << 8) | ord(sid[1])
    return struct.pack(">HHBBH", sid, length & 0xFFFF, ver, sub, comp)


def ts(y=0x2022, mo=0x03, d=0x08, h=0x18, mi=0x40, s=0x27, hs=0x55):
    return struct.pack(">HBBBBBB", y, mo, d, h, mi, s, hs)


def ph_body(creator=b"O", count=2, obmc=7, cver=0x0102030405060708,
            plid=0x50000001, eid=0x50000001, t1=None, t2=None, r0=0, r1=0):
    return (t1 or ts()) + (t2 or ts(s=0x28)) + creator + bytes([r0, r1, count]) + \
        struct.pack(">IQII", obmc, cver, plid, eid)


def uh_body(subsys=0x8D, scope=0x03, sev=0x40, etype=0x00, res=0, dom=0,
            vec=0, flags=0xA000, states=0x00000200):
    return struct.pack(">BBBBIBBHI", subsys, scope, sev, etype, res, dom, vec,
                       flags, states)


def padn(b, n):
    return b + b"\x00" * (n - len(b))


def eh_body(mt=b"9105-22A", sn=b"13F8A10", fw=b"fw1030.00-1", sub=b"bmc-10.3",
            symptom=b"BD8D1002_00000000", res=0, t=None, r=(0, 0, 0),
            size=None):
    sym = symptom
    if sym:
        sym = sym + b"\x00" * (-len(sym) % 4 or 4)
    if size is None:
        size = len(sym)
    return padn(mt, 8) + padn(sn, 12) + padn(fw, 16) + padn(sub, 16) + \
        struct.pack(">I", res) + (t or ts()) + bytes(r) + bytes([size & 0xFF]) + sym


def mt_body(mt=b"9105-22A", sn=b"13F8A10"):
    return padn(mt, 8) + padn(sn, 12)


def lp_body(part=0x0102, name=b"lpar-one\x00\x00\x00\x00", lps=(1, 2, 3),
            logid=0x11223344, namelen=None, count=None, pad=True):
    out = struct.pack(">HBBI", part, len(name) if namelen is None else namelen,
                      len(lps) if count is None else count, logid)
    out += name
    for lp in lps:
        out += struct.pack(">H", lp)
    if pad and len(lps) % 2:
        out += b"\x00\x00"
    return out


def src_body(ascii_=b"BD8D1002", flags=0, words=None, wordcount=9):
    words = words or [0x00000055, 0x2A000010, 0x11, 0x22, 0x33, 0x44, 0x55, 0x66]
    out = bytes([2, flags, 0, wordcount]) + struct.pack(">HH", 0, 72)
    for w in words:
        out += struct.pack(">I", w)
    out += padn(ascii_, 32).replace(b"\x00", b" ")
    return out


def section(sid, body, ver=1, sub=0, comp=0x1000, length=None):
    return hdr(sid, len(body) + 8 if length is None else length, ver, sub, comp) + body


def build_pel(creator=b"O", sev=0x40, flags=0xA000, comp=0x1000, eid=0x50000001,
              plid=0x50000001, obmc=7, extra=None, states=0x0200, src=True,
              count=None, src_ascii=b"BD8D1002", subsys=0x8D):
    secs = []
    if src:
        secs.append(section("PS", src_body(ascii_=src_ascii), comp=comp))
    secs.append(section("EH", eh_body(), comp=comp))
    secs.append(section("MT", mt_body(), comp=comp))
    secs.extend(extra or [])
    n = 2 + len(secs) if count is None else count
    out = section("PH", ph_body(creator=creator, count=n, obmc=obmc, plid=plid,
                                eid=eid), comp=comp)
    out += section("UH", uh_body(sev=sev, flags=flags, states=states,
                                 subsys=subsys), comp=comp)
    return out + b"".join(secs)


# --------------------------------------------------------------------------
# unit layer cases
# --------------------------------------------------------------------------

CREATORS = ["O", "B", "H", "C", "K", "L", "M", "P", "S", "T", "X", "", "\x00",
            "o", "é", "OO"]
COMPS = [0x0000, 0x1000, 0x2000, 0x2C00, 0xE500, 0x4142, 0x4100, 0x0041,
         0x00FF, 0xFF00, 0xFFFF, 0x3132, 0xABCD, 0x0A0B, 0xE5, 0x10000, 0x7F7F]


def mutations(rnd, good, kind_tag):
    """Yield interesting byte strings derived from a well formed body."""
    yield good
    yield good + b"\xAA\xBB\xCC\xDD" * 8
    for n in range(len(good)):
        yield good[:n]
    for pos in range(len(good)):
        for val in (0x00, 0x80, 0xFF, 0x41, 0x7F, 0xC3):
            if good[pos] != val:
                yield good[:pos] + bytes([val]) + good[pos + 1:]
    for pos in range(len(good)):
        # corrupt one byte and truncate somewhere behind it
        b = good[:pos] + b"\x9F" + good[pos + 1:]
        yield b[:rnd.randint(pos + 1, len(good))]
    for _ in range(120):
        n = rnd.randint(0, len(good) + 24)
        yield bytes(rnd.getrandbits(8) for _ in range(n))
    for _ in range(60):
        n = rnd.randint(0, len(good) + 24)
        yield bytes(rnd.choice(b"\x00\x01 AZaz09\x7f\x80\xc3\xa9\xff") for _ in range(n))


def unit_cases():
    rnd = random.Random(20240417)
    cases = []

    def add(kind, data, **kw):
        c = {"kind": kind, "data": data.hex()}
        c.update(kw)
        cases.append(c)

    # --- getTimestamp
    for data in mutations(rnd, ts(), "ts"):
        add("ts", data)
    for _ in range(100):
        add("ts", bytes(rnd.getrandbits(8) for _ in range(8)))

    goods = {
        "ph": [ph_body(), ph_body(creator=b"H", count=255, obmc=0xFFFFFFFF,
                                  cver=0, plid=0, eid=0xFFFFFFFF),
               ph_body(creator=b"B", cver=0xFFFFFFFFFFFFFFFF, r0=9, r1=8)],
        "uh": [uh_body(), uh_body(sev=0, flags=0xFFFF, states=0xFFFFFFFF),
               uh_body(subsys=0, scope=0, sev=0x51, etype=0x30, flags=0x4D21,
                       states=0x00000103)],
        "eh": [eh_body(), eh_body(symptom=b""), eh_body(symptom=b"\x00\x00\x00\x00"),
               eh_body(mt=b"", sn=b"\x00A\x00", fw=b" x ", sub=b"\x00\x00y",
                       symptom=b"S" * 80)],
        "mt": [mt_body(), mt_body(mt=b"", sn=b""), mt_body(mt=b"\x00AB\x00CD",
                                                       sn=b"  12\x00 ")],
        "lp": [lp_body(), lp_body(name=b"", lps=()), lp_body(name=b"", lps=(5,)),
               lp_body(name=b"abc\x00", lps=(0xFFFF, 0, 7, 9)),
               lp_body(name=b"\x00\x00nm\x00\x00", lps=(1, 2))],
    }
    for kind, glist in goods.items():
        for gi, good in enumerate(glist):
            for mi, data in enumerate(mutations(rnd, good, kind)):
                add(kind, data,
                    ver=rnd.choice([0, 1, 2, 255]),
                    sub=rnd.choice([0, 1, 0x55, 255]),
                    comp=COMPS[(mi + gi) % len(COMPS)],
                    creator=CREATORS[(mi // 3 + gi) % len(CREATORS)])
            # every creator / component combination on the good data
            for cr in CREATORS:
                for comp in COMPS:
                    add(kind, good, ver=1, sub=0, comp=comp, creator=cr)

    # --- symptom id sizes
    for size in list(range(0, 40)) + [127, 128, 200, 255]:
        for avail in (0, 1, size - 1, size, size + 5):
            if avail < 0:
                continue
            body = eh_body(symptom=b"", size=size) + b"Q" * avail
            add("eh", body, ver=1, sub=0, comp=0x1000, creator="O")
    # --- impacted partition name lengths / counts
    for namelen in (0, 1, 2, 3, 4, 7, 8, 255):
        for count in (0, 1, 2, 3, 4, 5, 255):
            for avail in (0, 1, 2, namelen, namelen + 2 * count,
                          namelen + 2 * count + 1, namelen + 2 * count + 2, 800):
                body = struct.pack(">HBBI", 0x22, namelen, count, 0xAABBCCDD) + \
                    bytes((0x41 + (i % 26)) for i in range(avail))
                add("lp", body, ver=1, sub=0, comp=0x2C00, creator="M")
                body = struct.pack(">HBBI", 0x22, namelen, count, 0xAABBCCDD) + \
                    bytes(rnd.choice(b"\x00\x00A\xc3\xa9\x80") for i in range(avail))
                add("lp", body, ver=1, sub=0, comp=0x2C00, creator="M")

    # --- decoding twice with the same object (state carried in the instance)
    for kind, glist in goods.items():
        for good in glist:
            add("twice", good + good + b"\x00" * 4, cls=kind, ver=1, sub=2,
                comp=0x1000, creator="O")
            add("twice", good + good[:len(good) // 2], cls=kind, ver=1, sub=2,
                comp=0x1000, creator="O")

    # --- UserHeader predicates for all severities and flag combinations
    flagsets = []
    for top in range(8):
        for low in (0x0000, 0x1000, 0x0921, 0x1FFF):
            flagsets.append((top << 13) | low)
    for sev in list(range(0, 256)):
        add("uhflags", b"", sev=sev, flags=flagsets)

    # --- getDisplayCompID
    for cr in CREATORS + ["HH", "PHYP", None, 7]:
        for comp in COMPS + list(range(0x4100, 0x4110)) + [-1, 1 << 20]:
            add("compid", b"", comp=comp, creator=cr)
    for _ in range(300):
        add("compid", b"", comp=rnd.getrandbits(16), creator=rnd.choice(CREATORS))
    add("allcreators", b"")
    add("compid", b"", comp=0x1000, creator="O")
    add("allcreators", b"")

    # --- tables
    add("tables", b"")
    return cases


DRIVER = r'''
import sys, json, io, os
from collections import OrderedDict
from pel.datastream import DataStream
import pel.peltool.comp_id as comp_id
import pel.peltool.pel_values as pel_values
import pel.peltool.pel_types as pel_types
import pel.peltool.private_header as private_header
import pel.peltool.user_header as user_header
import pel.peltool.extend_user_header as extend_user_header
import pel.peltool.failing_mtms as failing_mtms
import pel.peltool.imp_partition as imp_partition

cases = json.load(open(sys.argv[1]))
mode = sys.argv[2]
if mode.startswith("bmc:"):
    comp_id.pelConfigRootPath = mode[4:]


def mk(kind, stream, c):
    a = (stream, 0x1234, 0x30, c["ver"], c["sub"], c["comp"])
    if kind == "ph":
        return private_header.PrivateHeader(*a)
    if kind == "uh":
        return user_header.UserHeader(*a, c["creator"])
    if kind == "eh":
        return extend_user_header.ExtendedUserHeader(*a, c["creator"])
    if kind == "mt":
        return failing_mtms.FailingMTMS(*a, c["creator"])
    if kind == "lp":
        return imp_partition.ImpactedPartition(*a, c["creator"])
    raise KeyError(kind)


def state(obj):
    d = dict(vars(obj))
    d.pop("stream", None)
    return repr(sorted(d.items(), key=lambda kv: kv[0]))


def call(fn, *a):
    try:
        r = fn(*a)
        if isinstance(r, OrderedDict):
            return ["ok", "OrderedDict", json.dumps(r)]
        return ["ok", type(r).__name__, repr(r)]
    except BaseException as e:
        return ["exc", type(e).__name__, str(e)]


def globalsnap():
    return [repr(comp_id.attemptedToParseCompIDs),
            json.dumps(comp_id.componentIDs, sort_keys=True, default=repr)]


results = []
for c in cases:
    kind = c["kind"]
    data = bytes.fromhex(c["data"])
    if kind == "ts":
        s = DataStream(data, byte_order="big", is_signed=False)
        results.append([call(private_header.getTimestamp, s), s.index])
        s = DataStream(memoryview(data), byte_order="little", is_signed=True)
        results.append([call(private_header.getTimestamp, s), s.index])
    elif kind in ("ph", "uh", "eh", "mt", "lp"):
        for wrap in (bytes, memoryview, bytearray):
            s = DataStream(wrap(data), byte_order="big", is_signed=False)
            o = mk(kind, s, c)
            before = state(o)
            r = call(o.toJSON)
            res = [before, r, s.index, state(o)]
            if kind == "uh":
                res.append(call(o.isHidden))
                res.append(call(o.isServiceable))
            results.append(res)
            if wrap is bytes and c["comp"] != 0x1000:
                break
        if kind in ("uh", "lp") and len(data) % 5 == 0:
            # other stream settings
            s = DataStream(data, byte_order="little", is_signed=True)
            o = mk(kind, s, c)
            results.append([call(o.toJSON), s.index, state(o)])
            s = DataStream(data)
            o = mk(kind, s, c)
            results.append([call(o.toJSON), s.index, state(o)])
    elif kind == "twice":
        s = DataStream(data, byte_order="big", is_signed=False)
        o = mk(c["cls"], s, c)
        r1 = call(o.toJSON)
        st1 = state(o)
        r2 = call(o.toJSON)
        results.append([r1, st1, r2, state(o), s.index])
    elif kind == "uhflags":
        s = DataStream(b"", byte_order="big", is_signed=False)
        o = user_header.UserHeader(s, 0x5548, 24, 1, 0, 0x1000, "O")
        row = []
        for f in c["flags"]:
            o.eventSeverity = c["sev"]
            o.actionFlags = f
            row.append([call(o.isHidden), call(o.isServiceable)])
        results.append(row)
    elif kind == "compid":
        results.append([call(comp_id.getDisplayCompID, c["comp"], c["creator"]),
                        globalsnap()])
    elif kind == "allcreators":
        results.append([call(comp_id.getAllCreatorsCompIDs), globalsnap()])
    elif kind == "tables":
        t = {}
        for mod in (pel_values, pel_types, comp_id, private_header, user_header,
                    extend_user_header, failing_mtms, imp_partition):
            t[mod.__name__ + ":public"] = sorted(
                n for n in vars(mod) if not n.startswith("_"))
        for n, v in sorted(vars(pel_values).items()):
            if isinstance(v, dict):
                t["values:" + n] = [[repr(k), repr(x)] for k, x in v.items()]
        import enum
        for n, v in sorted(vars(pel_types).items()):
            if isinstance(v, type) and issubclass(v, enum.Enum) and v is not enum.Enum:
                t["types:" + n] = [[m.name, repr(m.value), repr(m)] for m in v]
                t["types:" + n + ":members"] = sorted(v.__members__)
        results.append(t)
    else:
        raise SystemExit("bad kind " + kind)

json.dump(results, sys.stdout)
'''


FAKE_REGISTRY_INIT = '''
import os
def get_registry_path():
    return os.path.join(os.path.dirname(__file__), "message_registry.json")
'''

MESSAGE_REGISTRY = {"PELs": [
    {"Name": "x.Error.One",
     "SRC": {"ReasonCode": "0x1002",
             "Words6To9": {"6": {"Description": "a word",
                                 "AdditionalDataPropSource": "WORD6"}}},
     "Documentation": {"Message": "Error one happened %1",
                       "MessageArgSources": ["SRCWord6"]}},
    {"Name": "x.Error.Two",
     "SRC": {"ReasonCode": "0x2222", "Type": "11"},
     "Documentation": {"Message": "Power thing"}}]}


def make_registry(base, variant):
    """Create a fake pel_registry package; returns the sys.path entry."""
    root = os.path.join(base, "reg_" + variant)
    pkg = os.path.join(root, "pel_registry")
    os.makedirs(pkg)
    with open(os.path.join(pkg, "__init__.py"), "w") as f:
        f.write(FAKE_REGISTRY_INIT)
    with open(os.path.join(pkg, "message_registry.json"), "w") as f:
        json.dump(MESSAGE_REGISTRY, f)

    def put(name, content):
        with open(os.path.join(pkg, name), "w") as f:
            f.write(content if isinstance(content, str) else json.dumps(content))

    o_ids = {"1000": "bmc common", "2000": "bmc error logging", "2C00": "io drawer",
             "E500": "prd", "ABCD": "abcd comp", "0A0B": "lower", "0000": "zero",
             "FFFF": "all ones", "4142": "AB comp"}
    b_ids = {"E500": "hb prd", "1000": "hb common", "abcd": "lowercase key",
             "0041": 65, "4100": None, "00FF": ["l", 1]}
    if variant == "good":
        put("O_component_ids.json", o_ids)
        put("B_component_ids.json", b_ids)
        put("H_component_ids.json", {"4142": "never used for phyp"})
        put("X_component_ids.json.bak", {"1000": "suffix in the middle"})
        put("_component_ids.json", {"1000": "empty creator"})
        put("OO_component_ids.json_component_ids.json", {"1000": "double suffix"})
        put("unrelated.json", {"1000": "nope"})
        put("readme.txt", "hello")
    elif variant == "badjson":
        put("B_component_ids.json", "{ this is not json")
        put("O_component_ids.json", o_ids)
        put("M_component_ids.json", "[1, 2")
    elif variant == "listjson":
        put("O_component_ids.json", ["1000", "2000", "E500"])
        put("B_component_ids.json", "\"10002000E500\"")
        put("M_component_ids.json", "12")
        put("T_component_ids.json", "null")
    elif variant == "empty":
        pass
    elif variant == "emptydict":
        put("O_component_ids.json", {})
    elif variant == "subdir":
        put("O_component_ids.json", o_ids)
        os.makedirs(os.path.join(pkg, "K_component_ids.json"))
    else:
        raise KeyError(variant)
    return root


def run_unit(root, work, cases_file, mode, regpath, optimize):
    env = dict(os.environ)
    pp = [os.path.join(root, "modules")]
    if regpath:
        pp.append(regpath)
    env["PYTHONPATH"] = os.pathsep.join(pp)
    env["PYTHONDONTWRITEBYTECODE"] = "1"
    env["PYTHONHASHSEED"] = "0"
    driver = os.path.join(work, "driver.py")
    cmd = [PY] + (["-O"] if optimize else []) + [driver, cases_file, mode]
    p = subprocess.run(cmd, env=env, capture_output=True, cwd=work)
    return p.returncode, p.stdout, p.stderr


# --------------------------------------------------------------------------
# CLI layer
# --------------------------------------------------------------------------

def pel_corpus():
    rnd = random.Random(777)
    files = {}
    n = [0]

    def add(data, ext=".pel"):
        n[0] += 1
        files["%08X_%03d%s" % (0x50000000 + n[0], n[0], ext)] = data

    idc = [0]

    def ids():
        idc[0] += 1
        return dict(eid=0x50000000 + idc[0], plid=0x50000000 + (idc[0] // 2),
                    obmc=idc[0])

    lp = section("LP", lp_body(), comp=0x2C00)
    lp2 = section("LP", lp_body(name=b"", lps=(9,)), comp=0x4142)
    unk = section("ZZ", b"\x01\x02\x03\x04hello world!", comp=0x1000)
    ud = section("UD", b"some user data..", comp=0x9999, sub=3)
    mt2 = section("MT", mt_body(mt=b"7777-ABC", sn=b"SN2"), comp=0xE500)
    for creator in (b"O", b"B", b"H", b"M", b"X", b"\x00"):
        for sev, flags in ((0x40, 0xA000), (0x00, 0x8000), (0x00, 0x0000),
                           (0x20, 0x6000), (0x51, 0x2000), (0x10, 0x0000),
                           (0x71, 0xE921)):
            add(build_pel(creator=creator, sev=sev, flags=flags,
                          comp=rnd.choice([0x1000, 0x2000, 0xE500, 0x4142, 0x4100]),
                          extra=[lp, unk] if sev & 0x10 else [mt2, lp2, ud, lp],
                          states=rnd.choice([0, 0x0100, 0x0201, 0x0303, 0xFF04]),
                          src_ascii=rnd.choice([b"BD8D1002", b"11002222", b"BC8A1234",
                                                b"B7001111"]),
                          **ids()))
    add(build_pel(src=False, **ids()))
    add(build_pel(count=2, **ids()))
    add(build_pel(count=0, **ids()))
    add(build_pel(count=40, **ids()))
    good = build_pel(extra=[lp, mt2, unk], **ids())
    add(good)
    add(good, ext=".txt")
    # truncations
    for cut in list(range(0, 80)) + list(range(80, len(good), 9)):
        add(good[:cut])
    # corruptions
    for pos in list(range(0, 72)) + [rnd.randrange(72, len(good)) for _ in range(40)]:
        val = (0x00, 0x80, 0xFF)[pos % 3]
        if good[pos] == val:
            val ^= 0x41
        add(good[:pos] + bytes([val]) + good[pos + 1:])
    # corrupt + truncate
    for _ in range(30):
        pos = rnd.randrange(0, 72)
        b = good[:pos] + bytes([rnd.getrandbits(8)]) + good[pos + 1:]
        add(b[:rnd.randrange(pos, len(b))])
    # random
    for _ in range(15):
        add(bytes(rnd.getrandbits(8) for _ in range(rnd.randrange(0, 300))))
    for _ in range(15):
        add(b"PH\x00\x30" + bytes(rnd.getrandbits(8) for _ in range(rnd.randrange(0, 120))))
    return files


CLI_DIR_OPTS = [
    ["-l"], ["-l", "-E"], ["-l", "-N"], ["-l", "-H"], ["-l", "-t"],
    ["-l", "-s", "-N", "-H"], ["-l", "-r"], ["-l", "-x"], ["-l", "-H", "-O"],
    ["-l", "-O", "-S", "Critical"], ["-l", "-S", "Informational", "Symptom"],
    ["-l", "-E", "-e", ".txt"], ["-l", "-E", "-P"],
    ["-n"], ["-n", "-E"], ["-n", "-N"], ["-n", "-H", "-O"],
    ["-n", "-O", "-S", "Predictive"], ["-n", "-t"],
    ["-a"], ["-a", "-E"], ["-a", "-E", "-r", "-P"], ["-a", "-H", "-O"],
    ["-a", "-x"], ["-a", "-S", "Recovered", "-N"],
    ["-j"], ["-j", "-E"], ["-j", "-E", "-c"], ["-j", "-c", "-e", ".txt", "-E"],
    ["-j", "-E", "-o", "@OUT@"], ["-j", "-E", "-o", "@MISSING@"],
    ["-i", "50000003"], ["-i", "0x5000002c"], ["-i", "5000FFFF"], ["-i", "123"],
    ["--bmc-id", "5"], ["--bmc-id", "44"], ["--bmc-id", "99999"],
    ["--bmc-id", "5", "-x"],
    ["--plid", "50000002"], ["--plid", "0x50000016", "-E"], ["--plid", "50000002", "-x"],
    ["--src", "BD8D"], ["--src", "1100", "-E"], ["--src", "X" * 33],
    ["--src-exclude", "@EXCL@"], ["--src-exclude", "@EXCL@", "-E"],
    ["-d", "50000004"], ["-d", "5000EEEE"], ["-D"],
]


def snapshot_dir(path, content=True):
    out = []
    for root, dirs, files in os.walk(path):
        dirs.sort()
        for f in sorted(files):
            p = os.path.join(root, f)
            if content:
                with open(p, "rb") as fd:
                    out.append((os.path.relpath(p, path), fd.read().hex()))
            else:
                out.append((os.path.relpath(p, path), os.path.getsize(p)))
    return out


TB_RE = re.compile(r'^(Traceback \(most recent call last\):)\n(?:[ \t].*\n)+', re.M)


def norm_err(b):
    return TB_RE.sub(r'\1\n', b.decode("utf-8", "replace"))


def run_cli(root, work, corpus, regpath, optimize):
    """Run all CLI cases for one source tree; returns list of results."""
    env = dict(os.environ)
    pp = [os.path.join(root, "modules")]
    if regpath:
        pp.append(regpath)
    env["PYTHONPATH"] = os.pathsep.join(pp)
    env["PYTHONDONTWRITEBYTECODE"] = "1"
    env["PYTHONHASHSEED"] = "0"
    tool = os.path.join(root, "modules", "pel", "peltool", "peltool.py")
    base = [PY] + (["-O"] if optimize else []) + [tool]
    pels = os.path.join(work, "pels")
    outd = os.path.join(work, "out")
    excl = os.path.join(work, "exclude.txt")
    with open(excl, "w") as f:
        f.write("BD8D1002\n11002222\n")
    results = []

    def fresh():
        for d in (pels, outd):
            if os.path.exists(d):
                shutil.rmtree(d)
            os.makedirs(d)
        for name in sorted(corpus):
            with open(os.path.join(pels, name), "wb") as f:
                f.write(corpus[name])
        os.makedirs(os.path.join(pels, "subdir"))
        with open(os.path.join(pels, "subdir", "nested.pel"), "wb") as f:
            f.write(corpus[sorted(corpus)[0]])

    def one(args, label, content=True):
        p = subprocess.run(base + args, env=env, capture_output=True, cwd=work)
        # every tree works in a directory of its own (same path length);
        # make the outputs comparable
        results.append((label, p.returncode,
                        p.stdout.decode("utf-8", "replace").replace(work, "@WORK@"),
                        norm_err(p.stderr).replace(work, "@WORK@"),
                        snapshot_dir(pels, content),
                        snapshot_dir(outd, content)))

    for opts in CLI_DIR_OPTS:
        fresh()
        args = [a.replace("@OUT@", outd).replace("@MISSING@", outd + "_nope")
                .replace("@EXCL@", excl) for a in opts]
        one(["-p", pels] + args, "dir " + " ".join(opts))

    fresh()
    names = sorted(corpus)
    # single file mode: every file, a few option sets on a subset
    # (only sizes of the input files are snapshotted here: nothing rewrites them)
    for i, name in enumerate(names):
        if i % 2 == 0:
            one(["-f", os.path.join(pels, name)], "file " + name, False)
        if i % 13 == 0:
            one(["-f", os.path.join(pels, name), "-x"], "file -x " + name, False)
            one(["-f", os.path.join(pels, name), "-H", "-N", "-P"], "file -HNP " + name, False)
        if i % 17 == 0:
            one(["-f", os.path.join(pels, name), "-E", "-c"], "file -E -c " + name, False)
    one(["-f", os.path.join(pels, "does-not-exist")], "file missing")
    one(["--help"], "help")
    one([], "noargs")
    one(["-l"], "no path")
    return results


def first_diff(a, b):
    if type(a) != type(b):
        return "type %r vs %r" % (type(a), type(b))
    if isinstance(a, (list, tuple)):
        if len(a) != len(b):
            return "len %d vs %d" % (len(a), len(b))
        for i, (x, y) in enumerate(zip(a, b)):
            if x != y:
                return "[%d] %s" % (i, first_diff(x, y))
    if isinstance(a, dict):
        for k in sorted(set(a) | set(b)):
            if a.get(k) != b.get(k):
                return "[%r] %s" % (k, first_diff(a.get(k), b.get(k)))
    return "%.400r\n   vs\n%.400r" % (a, b)


def main():
    if len(sys.argv) != 3:
        sys.exit(__doc__)
    roots = [os.path.abspath(sys.argv[1]), os.path.abspath(sys.argv[2])]
    for r in roots:
        if not os.path.isfile(os.path.join(r, "modules", "pel", "peltool", "peltool.py")):
            sys.exit("not a source tree: " + r)
    here = os.path.dirname(os.path.abspath(__file__))
    try:
        work = tempfile.mkdtemp(prefix="diffcheck_work_", dir=here)
    except OSError:
        work = tempfile.mkdtemp(prefix="diffcheck_R04_")
    ncases = 0
    ok = True
    try:
        with open(os.path.join(work, "driver.py"), "w") as f:
            f.write(DRIVER)
        cases = unit_cases()
        cases_file = os.path.join(work, "cases.json")
        with open(cases_file, "w") as f:
            json.dump(cases, f)
        regs = {v: make_registry(work, v) for v in
                ("good", "badjson", "listjson", "empty", "emptydict", "subdir")}
        bmcdir = os.path.join(regs["good"], "pel_registry")

        unit_modes = [
            ("noreg", "plain", None, False),
            ("noreg-O", "plain", None, True),
            ("good", "plain", regs["good"], False),
            ("good-O", "plain", regs["good"], True),
            ("badjson", "plain", regs["badjson"], False),
            ("listjson", "plain", regs["listjson"], False),
            ("empty", "plain", regs["empty"], False),
            ("emptydict", "plain", regs["emptydict"], False),
            ("subdir", "plain", regs["subdir"], False),
            ("bmc-env", "bmc:" + bmcdir, None, False),
            ("bmc-env-badjson", "bmc:" + os.path.join(regs["badjson"], "pel_registry"),
             regs["good"], False),
            ("bmc-env-file", "bmc:" + os.path.join(bmcdir, "readme.txt"), None, False),
        ]
        from concurrent.futures import ThreadPoolExecutor
        pool = ThreadPoolExecutor(max_workers=max(2, min(8, os.cpu_count() or 2)))
        corpus = pel_corpus()
        cli_modes = [("cli-good", regs["good"], False),
                     ("cli-noreg", None, False),
                     ("cli-badjson-O", regs["badjson"], True)]
        cli_jobs = []
        for mi, (label, reg, opt) in enumerate(cli_modes):
            sub = corpus
            if label != "cli-good":
                # smaller corpus for the secondary environments
                keys = sorted(corpus)
                sub = {k: corpus[k] for i, k in enumerate(keys) if i < 44 or i % 9 == 0}
            futs = []
            for ri, r in enumerate(roots):
                wd = os.path.join(work, "c%d%s" % (mi, "AB"[ri]))
                os.makedirs(wd)
                futs.append(pool.submit(run_cli, r, wd, sub, reg, opt))
            cli_jobs.append((label, futs))
        unit_jobs = [(label, [pool.submit(run_unit, r, work, cases_file, mode, reg, opt)
                              for r in roots])
                     for label, mode, reg, opt in unit_modes]

        for label, futs in unit_jobs:
            (rc0, so0, se0), (rc1, so1, se1) = [f.result() for f in futs]
            if rc0 != 0 or not so0:
                print("unit[%s]: pristine driver failed rc=%d\n%s" %
                      (label, rc0, se0.decode()[-2000:]))
                ok = False
                continue
            res0 = json.loads(so0)
            ncases += len(res0)
            if (rc0, so0, norm_err(se0)) != (rc1, so1, norm_err(se1)):
                ok = False
                print("DIFFERENCE in unit mode %s" % label)
                if rc0 != rc1:
                    print("  rc %d vs %d\n%s" % (rc0, rc1, se1.decode()[-2000:]))
                elif so0 != so1:
                    try:
                        print("  " + first_diff(res0, json.loads(so1)))
                    except ValueError:
                        print("  unparsable output from patched driver")
                else:
                    print("  stderr:\n%r\n vs\n%r" % (se0[-1500:], se1[-1500:]))

        for label, futs in cli_jobs:
            r0, r1 = [f.result() for f in futs]
            ncases += len(r0)
            if r0 != r1:
                ok = False
                print("DIFFERENCE in CLI mode %s" % label)
                if len(r0) != len(r1):
                    print("  number of results differ")
                for a, b in zip(r0, r1):
                    if a != b:
                        print("  case %s: %s" % (a[0], first_diff(list(a), list(b))))
                        break
        pool.shutdown()
    finally:
        shutil.rmtree(work, ignore_errors=True)

    if ok:
        print("IDENTICAL (%d cases)" % ncases)
        sys.exit(0)
    print("DIFFERENT (%d cases)" % ncases)
    sys.exit(1)


if __name__ == "__main__":
    main()
