#!/usr/bin/env python3
"""
Differential check for refactorings of modules/io_drawer/*.py and
modules/udparsers/m2c00/m2c00.py.

Usage:  /venv/bin/python diffcheck.py <pristine_root> <patched_root>

The script builds a deterministic set of inputs (C++ header files, trace
string files, binary ilog / history log / trace buffers, IO drawer hex dumps
and binary PEL files), then runs the very same list of cases against both
source trees.  In-process cases are executed by a worker subprocess (this
file with --worker) that has PYTHONPATH pointing at <root>/modules, once with
plain `python` and once with `python -O`.  CLI cases (io_drawer/dump.py run as
a script and peltool.py -f) are run as separate subprocesses.  All results
are compared; exit 0 and print "IDENTICAL (<n> cases)" if everything is
identical, exit 1 otherwise.

Binary data arguments are always bytes-like objects (memoryview, bytes or
bytearray) as required by the type annotations, or None; other argument types
(e.g. str) are outside the input domain of the decoders and are not exercised.
"""

import json
import os
import random
import shutil
import struct
import subprocess
import sys
import tempfile

PY = sys.executable

# --------------------------------------------------------------------------
# Input builders (shared by parent and worker; deterministic)
# --------------------------------------------------------------------------

TRACE_HDR_START = b'\x02\x20\x01\x42'
BUFFER_NAMES = ['IICS', 'IICM', 'POWR', 'FANS', 'INFO', 'ERRL']


def trace_header(comp=b'FANS', size=0x100, ver=2, hdr_len=0x20, time_flg=1,
                 endian=0x42, wrap=0xFE, next_free=0x32, rsvd=b'\0\0\0\0'):
    comp = comp[:12].ljust(12, b' ') if len(comp) <= 12 else comp[:12]
    return (bytes([ver, hdr_len, time_flg, endian]) + comp + rsvd +
            struct.pack('>III', size & 0xFFFFFFFF, wrap, next_free))


def trace_entry(tbh, tbl, tag, hash_value, line, data=b'', length=None,
                entry_size=None, pad=None):
    if length is None:
        length = len(data)
    body = struct.pack('>HHHHII', tbh & 0xFFFF, tbl & 0xFFFF,
                       length & 0xFFFF, tag & 0xFFFF,
                       hash_value & 0xFFFFFFFF, line & 0xFFFFFFFF)
    body += data
    if pad is None:
        pad = (4 - (len(data) % 4)) % 4
    body += b'\0' * pad
    if entry_size is None:
        entry_size = len(body) + 4
    body += struct.pack('>I', entry_size & 0xFFFFFFFF)
    return body


def ilog_entry(ts, seq, pte):
    return struct.pack('>HHI', ts & 0xFFFF, seq & 0xFFFF, pte & 0xFFFFFFFF)


def hexdump_bmc(data, upper=True):
    lines = []
    for off in range(0, len(data), 16):
        chunk = data[off:off + 16]
        hexs = chunk.hex().upper() if upper else chunk.hex()
        groups = [hexs[i:i + 8] for i in range(0, 32, 8)]
        groups = [g.ljust(8) for g in groups]
        text = ''.join(chr(b) if 0x20 <= b < 0x7f else '.' for b in chunk)
        lines.append('%04X:  %s  <%s>' % (off & 0xFFFF, ' '.join(groups),
                                          text.ljust(16)))
    return lines


def hexdump_prebmc(data):
    lines = []
    for off in range(0, len(data), 16):
        chunk = data[off:off + 16]
        hexs = ' '.join('%02X' % b for b in chunk).ljust(47)
        text = ''.join(chr(b) if 0x20 <= b < 0x7f else '.' for b in chunk)
        lines.append('%s %s' % (hexs, text.ljust(16)))
    return lines


def read_real_hashes(root, name):
    hashes = []
    with open(os.path.join(root, 'modules', 'io_drawer', name)) as f:
        for line in f:
            parts = line.split('||')
            if len(parts) == 3 and parts[0].strip().isdigit():
                hashes.append(int(parts[0].strip()))
    return hashes


def read_real_patterns(root, name):
    import re
    pats = []
    rx = re.compile(r'\s*\{\s*"([0-9A-Fa-f*]{8})"')
    with open(os.path.join(root, 'modules', 'io_drawer', name)) as f:
        for line in f:
            m = rx.match(line)
            if m:
                pats.append(m.group(1))
    return pats


HEADER_FILES = {
    'hdr_small.h': [
        '#define X 1',
        'struct pte_entry_struct static_pte_entry_table[PTE_TABLE_SIZE] = ',
        '{',
        '  { "010000**", "Begin power on, node type = 0x%02X", {4}, "states.cpp", 485 },',
        '  { "0101****", "Fan presence 0x%02X, flash = %c", {4, 3}, "fan.cpp", 530 },',
        '  { "01040000", "Power on complete", {}, "states.cpp", 601 },',
        '  { "E2082690", "P1 IO Bay VRM in \\"N-Mode\\"  ", {}, "vrm_monitor.cpp", 145 },',
        '  { "E30877**", "Fault %d on %d and %d", {4, 9, 0, 1}, "x.cpp", 1 },',
        '  { "e3a8****", "lower case %x %x %x", {1,2,3,4}, "x.cpp", 12 },',
        '  { "15D1****", "too few args %d %d %d", {3}, "y.cpp", 2 },',
        '  { "15D2****", "too many args", {3, 4}, "y.cpp", 3 },',
        '  { "15D3****", "string arg %s 100%", {3}, "y.cpp", 4 },',
        '  { "2*******", "wild one", {}, "", 0 },',
        '  { "15D4****", "no trailing comma", {3}, "y.cpp", 5 }',
        '  { "15D5", "short pattern", {}, "y.cpp", 6 },',
        '  { ""        , "The End" }',
        '};',
        '  { "FFFF****", "After the end", {}, "z.cpp", 7 },',
        '#define MEX_HLOG_FIELD_COUNT 6',
        'static struct mex_hlog_field mex_hlog_fields[MEX_HLOG_FIELD_COUNT] =',
        '{',
        '  { 1, "hl_one" }, ',
        '  { 2, "hl_two" },',
        '  { 3, "hl_bad_size" },',
        '  { 1, "" },',
        '  {2,"hl_tight"},',
        '  garbage',
        '  { 1, "hl_last" }',
        '};',
        '  { 1, "hl_after_end" },',
    ],
    'hdr_brace_same_line.h': [
        'static   struct pte_entry_struct   static_pte_entry_table[] = {',
        '  { "0101****", "A %d", {4}, "a.cpp", 1 },',
        '{"0102****","B %c%c",{3,4},"b.cpp",22},',
        '  { "" , "The End" } // comment',
        '  struct mex_hlog_field mex_hlog_fields[3] = {  ',
        ' { 2, "f_a" },',
        ' { 2, "f_b" },',
        ' { 1, "f_c" },',
        ' } ; ',
    ],
    'hdr_two_tables.h': [
        'struct pte_entry_struct static_pte_entry_table[2] =',
        '{',
        '  { "AAAA****", "First table", {}, "a.cpp", 1 },',
        '  { "", "The End" }',
        'struct pte_entry_struct static_pte_entry_table[2] =',
        '  { "BBBB****", "Second table %d", {3}, "b.cpp", 2 },',
        '  { "AAAA****", "Shadowed", {}, "b.cpp", 3 },',
        'struct mex_hlog_field mex_hlog_fields[1] =',
        '  { 1, "t1" },',
        '};',
        'struct mex_hlog_field mex_hlog_fields[1] =',
        '  { 2, "t2" },',
    ],
    'hdr_no_tables.h': [
        '// nothing to see here',
        '  { "0101****", "A %d", {4}, "a.cpp", 1 },',
        '  { 1, "hl_one" },',
    ],
    'hdr_empty.h': [],
    'hdr_bad_regex.h': [
        'struct pte_entry_struct static_pte_entry_table[2] =',
        '  { "(((*****", "Bad regex", {}, "a.cpp", 1 },',
    ],
    'hdr_big_line.h': [
        'struct pte_entry_struct static_pte_entry_table[2] =',
        '  { "0101****", "A %d", {4}, "a.cpp", 99999999999999999999999 },',
        '  { "0102****", "B %d", {44, 4, -1, 2}, "a.cpp", 007 },',
    ],
}

STRING_FILES = {
    'str_small': [
        '#FSP_TRACE_v2|||Thu Sep 24 12:55:43 2020|||BUILD:Release',
        '32403714||E> ADT7470: Controller 0x%X: Failure count = %d||adt7470_fan_ctl.cpp(324)',
        '  48602109  ||  I> BMP180: Sensor 0x%X: UP = %d  ||  bmp180_sensor.cpp(486)  ',
        '92602121||I> ADT7470: trace_level = %u||adt7470_fan_ctl.cpp(926)',
        '92702121||I> duplicate low digits %u||other.cpp(927)',
        '100||no args||short.cpp(1)',
        '200||five %d %d %d %d %d||five.cpp(2)',
        '300||six %d %d %d %d %d %d||six.cpp(3)',
        '400||str %s||s.cpp(4)',
        '500||percent 100%||p.cpp(5)',
        '600||a||b||c||multi.cpp(6)',
        '700||||empty.cpp(7)',
        'abc||not a number||x.cpp(8)',
        '800|single bar|x.cpp(9)',
        '',
        '4294967295||max hash %08X||max.cpp(10)',
        '100100||partial of 100 %d||part.cpp(11)',
        '200100||second partial of 100||part.cpp(12)',
    ],
    'str_empty': [],
    'str_nonewline': None,      # written specially
}


def write_inputs(workdir):
    os.makedirs(workdir, exist_ok=True)
    for name, lines in HEADER_FILES.items():
        with open(os.path.join(workdir, name), 'w') as f:
            for line in lines:
                f.write(line + '\n')
    for name, lines in STRING_FILES.items():
        with open(os.path.join(workdir, name), 'w') as f:
            if lines is None:
                f.write('111||first %d||a.cpp(1)\n222||last no newline||b.cpp(2)')
            else:
                for line in lines:
                    f.write(line + '\n')


def build_trace_buffers(rng, hashes):
    """Returns list of (name, bytes) trace buffers of varied shape."""
    bufs = []
    TYPE_T, TYPE_B = 0x4654, 0x4644

    def some_entries(n):
        ents = []
        for i in range(n):
            kind = rng.randrange(8)
            if kind == 0:
                h = rng.choice(hashes)
            elif kind == 1:
                h = rng.choice(hashes) + 100000 * rng.randrange(1, 5)
            elif kind == 2:
                h = rng.choice([100, 200, 300, 400, 500, 600, 700,
                                100100, 200100, 300100, 4294967295])
            elif kind == 3:
                h = rng.randrange(0, 2**32)
            else:
                h = rng.choice(hashes)
            tag = rng.choice([TYPE_T, TYPE_T, TYPE_T, TYPE_B,
                              rng.randrange(0, 65536)])
            dlen = rng.choice([0, 0, 4, 8, 12, 16, 20, 24, 1, 2, 3, 5, 7, 17,
                               rng.randrange(0, 64)])
            data = bytes(rng.randrange(256) for _ in range(dlen))
            ents.append(trace_entry(rng.choice([0, 1, 0x8ADF, 0xFFFE, 0xFFFF,
                                                rng.randrange(65536)]),
                                    rng.randrange(65536), tag, h,
                                    rng.randrange(0, 200000), data))
        return ents

    for n in (0, 1, 2, 5, 12):
        for rep in range(3):
            ents = b''.join(some_entries(n))
            name = rng.choice(BUFFER_NAMES).encode()
            size = 32 + len(ents)
            bufs.append(('wf_n%d_r%d' % (n, rep),
                         trace_header(comp=name, size=size) + ents))
    # size field smaller / larger than content
    ents = b''.join(some_entries(4))
    bufs.append(('size_small', trace_header(size=40) + ents))
    bufs.append(('size_zero', trace_header(size=0) + ents))
    bufs.append(('size_huge', trace_header(size=0xFFFFFFFF) + ents))
    bufs.append(('size_exact_hdr', trace_header(size=32) + ents))
    # comp variants
    bufs.append(('comp_nul', trace_header(comp=b'FANS\0\0\0\0    ', size=32 + len(ents)) + ents))
    bufs.append(('comp_nul_sp', trace_header(comp=b'AB  \0\0  \0\0\0\0', size=32 + len(ents)) + ents))
    bufs.append(('comp_nonascii', trace_header(comp=b'F\xc3\xa9\xffNS \0\0\0\0\0', size=32) + ents))
    bufs.append(('comp_full', trace_header(comp=b'ABCDEFGHIJKL', size=32)))
    bufs.append(('comp_spaces', trace_header(comp=b'            ', size=32)))
    # bad entries
    good = trace_entry(0x8ADF, 1, TYPE_T, hashes[0], 324, b'\0\0\0\x05\0\0\0\x07')
    bufs.append(('bad_len_too_big', trace_header(size=0x400) + good +
                 trace_entry(1, 2, TYPE_T, hashes[1], 1, b'', length=1025) + good))
    bufs.append(('len_1024', trace_header(size=0x1000) + good +
                 trace_entry(1, 2, TYPE_B, hashes[1], 1, bytes(1024)) + good))
    bufs.append(('bad_entry_size', trace_header(size=0x400) + good +
                 trace_entry(1, 2, TYPE_T, hashes[1], 1, b'abcd', entry_size=99) + good))
    bufs.append(('bad_no_pad', trace_header(size=0x400) + good +
                 trace_entry(1, 2, TYPE_B, hashes[1], 1, b'abcde', pad=0)))
    bufs.append(('data_short', trace_header(size=0x400) + good +
                 trace_entry(1, 2, TYPE_B, hashes[1], 1, b'abc', length=200)))
    bufs.append(('pad_short', trace_header(size=0x400) +
                 trace_entry(1, 2, TYPE_B, hashes[1], 1, b'abcde')[:-6]))
    bufs.append(('size_short', trace_header(size=0x400) +
                 trace_entry(1, 2, TYPE_B, hashes[1], 1, b'abcd')[:-2]))
    return bufs


def build_ilog_blobs(rng, patterns):
    blobs = []

    def pte_from(p):
        s = ''.join(rng.choice('0123456789ABCDEF') if c == '*' else c
                    for c in p)
        return int(s, 16)

    for n in (0, 1, 3, 10, 40):
        b = b''
        for i in range(n):
            k = rng.randrange(6)
            if k == 0:
                pte = rng.randrange(2**32)
            elif k == 1:
                pte = pte_from(rng.choice(patterns)) | 0x00040000
            elif k == 2:
                pte = 0xE0000000 | rng.randrange(2**28)
            else:
                pte = pte_from(rng.choice(patterns))
            ts = rng.choice([0, 1, 59, 60, 3599, 3600, 35551, 0xFFFE, 0xFFFF,
                             rng.randrange(65536)])
            b += ilog_entry(ts, rng.randrange(65536), pte)
        blobs.append(('n%d' % n, b))
    blobs.append(('zeros', bytes(24)))
    blobs.append(('zero_mid', ilog_entry(1, 2, 0x01040000) + bytes(8) +
                  ilog_entry(0, 0, 0x01040000) + ilog_entry(0, 1, 0) +
                  ilog_entry(1, 0, 0)))
    blobs.append(('trailing', ilog_entry(1, 2, 0x010000DE) + b'\x01\x02\x03'))
    blobs.append(('short7', b'\x01\x02\x03\x04\x05\x06\x07'))
    blobs.append(('small_hdr', b''.join(ilog_entry(100 * i, i, p) for i, p in
                  enumerate([0x010000DE, 0x010144EF, 0x01040000, 0xE2082690,
                             0xE20C2690, 0xE30877AB, 0xE30C77AB, 0xE3A81234,
                             0xE3AC1234, 0x15D10041, 0x15D20041, 0x15D30041,
                             0x2ABCDEF0, 0x15D40000, 0x15D50000, 0xFFFF0000,
                             0xAAAA0001, 0xBBBB0102]))))
    return blobs


def build_pel(creator, comp_id, sub_type, version, ud_data, extra_sections=()):
    def bcd_time():
        return bytes([0x20, 0x24, 0x03, 0x08, 0x18, 0x40, 0x27, 0x00])
    sections = 3 + len(extra_sections)
    ph = struct.pack('>HHBBH', 0x5048, 48, 1, 0, 0x2C00)
    ph += bcd_time() + bcd_time() + creator.encode('latin-1') + b'\0\0'
    ph += bytes([sections]) + struct.pack('>IQII', 7, 0x0102030405060708,
                                         0x50001234, 0x50001234)
    uh = struct.pack('>HHBBH', 0x5548, 24, 1, 0, 0x2C00)
    uh += struct.pack('>BBBBIBBHI', 0x70, 0x03, 0x40, 0x00, 0, 0x10, 0,
                      0x8000, 0)
    out = ph + uh
    out += struct.pack('>HHBBH', 0x5544, 8 + len(ud_data), version, sub_type,
                       comp_id) + ud_data
    for (st, ver, d) in extra_sections:
        out += struct.pack('>HHBBH', 0x5544, 8 + len(d), ver, st, comp_id) + d
    return out


# --------------------------------------------------------------------------
# Worker: runs in-process cases against the tree on PYTHONPATH
# --------------------------------------------------------------------------

def worker(root, workdir):
    import contextlib
    import io
    import re

    from io_drawer import drawer_type as dt_mod
    from io_drawer import dump as dump_mod
    from io_drawer import hlog as hlog_mod
    from io_drawer import ilog as ilog_mod
    from io_drawer import trace as trace_mod
    from io_drawer import utils as utils_mod
    from udparsers.m2c00 import m2c00 as ud_mod
    from pel.datastream import DataStream

    results = []

    def enc(x):
        if isinstance(x, memoryview):
            return ['mv', x.tobytes().hex()]
        if isinstance(x, (bytes, bytearray)):
            return [type(x).__name__, bytes(x).hex()]
        if isinstance(x, tuple):
            # namedtuples too
            return ['tuple:' + type(x).__name__, [enc(i) for i in x]]
        if isinstance(x, list):
            return [enc(i) for i in x]
        if isinstance(x, dict):
            return ['dict:' + type(x).__name__,
                    [[enc(k), enc(v)] for k, v in x.items()]]
        if isinstance(x, re.Pattern):
            return ['re', x.pattern, x.flags]
        if x is None or isinstance(x, (bool, int, float, str)):
            return [type(x).__name__, x] if isinstance(x, bool) else x
        if isinstance(x, dt_mod.DrawerType):
            return ['DrawerType', x.name]
        if isinstance(x, ilog_mod.PTETableEntry):
            return ['PTETableEntry', enc(x.pte_pattern), enc(x.message_format),
                    enc(x.params), enc(x.file), enc(x.line), enc(x.pte_re)]
        if isinstance(x, trace_mod.TraceString):
            return ['TraceString', enc(x.hash_value), enc(x.message_format),
                    enc(x.location)]
        if isinstance(x, trace_mod.TraceBufferHeader):
            return ['TBH'] + [enc(getattr(x, a)) for a in
                              ('ver', 'hdr_len', 'time_flg', 'endian_flg',
                               'comp', 'size', 'times_wrap', 'next_free')]
        if isinstance(x, trace_mod.TraceEntry):
            return ['TE'] + [enc(getattr(x, a)) for a in
                             ('tbh', 'tbl', 'length', 'tag', 'hash_value',
                              'line', 'data')]
        if isinstance(x, trace_mod.TraceBuffer):
            return ['TB', enc(x.header), enc(x.entries)]
        return ['obj', type(x).__name__, repr(x)]

    def case(name, fn, *args, **kwargs):
        out = io.StringIO()
        err = io.StringIO()
        try:
            with contextlib.redirect_stdout(out), \
                    contextlib.redirect_stderr(err):
                res = ['OK', enc(fn(*args, **kwargs))]
        except SystemExit as e:
            res = ['EXIT', enc(e.code)]
        except BaseException as e:
            res = ['EXC', type(e).__name__, str(e)]
        results.append([name, res, out.getvalue(),
                        err.getvalue().replace(root, '<ROOT>')])

    P = lambda n: os.path.join(workdir, n)
    MEX = dt_mod.MEX_DRAWER_TYPE
    NIM = dt_mod.NIMITZ_DRAWER_TYPE
    real_headers = [('mex', MEX.get_header_file_path()),
                    ('nim', NIM.get_header_file_path())]
    real_strings = [('mex', MEX.get_trace_string_file_path()),
                    ('nim', NIM.get_trace_string_file_path())]
    custom_headers = [(n, P(n)) for n in HEADER_FILES] + \
                     [('missing', P('does_not_exist.h'))]
    custom_strings = [(n, P(n)) for n in STRING_FILES] + \
                     [('missing', P('does_not_exist_str'))]

    rng = random.Random(20240924)
    hashes = read_real_hashes(root, 'mexStringFile')
    patterns = read_real_patterns(root, 'mex_pte.h')
    hashes_s = hashes[::7][:60]
    patterns_s = patterns[::5]

    # ---- utils ------------------------------------------------------------
    ts_vals = list(range(-3, 130)) + [3599, 3600, 3601, 35999, 36000, 36001,
                                      0xFFFD, 0xFFFE, 0xFFFF, 0x10000, 10**9]
    ts_vals += [rng.randrange(0, 0x10000) for _ in range(200)]
    for v in ts_vals:
        case('utils.ts.%r' % v, utils_mod.format_timestamp, v)
    for v in (None, 'abc', 10.5, 3600.0, True, b'1'):
        case('utils.ts.odd.%r' % (v,), utils_mod.format_timestamp, v)

    # ---- ilog: PTETableEntry ------------------------------------------------
    entry_specs = [
        ('15A00000', 'Power supply fault', (), 'ps.cpp', 10),
        ('010000**', 'Begin power on, node type = 0x%02X', (4,), 's.cpp', 485),
        ('0210****', 'PEROM level = %c%c', (3, 4), 's.cpp', 254),
        ('E30877**', 'Err %d', (4,), 'e.cpp', 1),
        ('e30877**', 'lower %d %d', (0, 1, 2, 3, 4, 5, -1), 'e.cpp', 1),
        ('E3**77**', 'four %d %d %d %d', (1, 2, 3, 4), 'e.cpp', 2),
        ('********', 'any %d', (4, 4, 4), 'e.cpp', 3),
        ('E308', 'short', (), 'e.cpp', 4),
        ('E30877041', 'long', (), 'e.cpp', 5),
        ('E30.77..', 'dots %s', (1,), 'e.cpp', 6),
        ('E30[0-9]77**', 'class %%', (), 'e.cpp', 7),
        ('0101****', 'mismatch %d %d %d', (3,), 'e.cpp', 8),
        ('0101****', 'pct 100% %d', (3,), 'e.cpp', 8),
        ('', 'empty pattern', (), '', 0),
        ('E30C77**', 'reported pattern %d', (4,), 'e.cpp', 9),
    ]
    ptes = [0x15A00000, 0x15A40000, 0x010000DE, 0x02104142, 0xE3087704,
            0xE30C7704, 0xE30877AE, 0xE30823AE, 0xE3087705, 0xE40877AE,
            0xE30A23AE, 0xE30E77AB, 0x01010000, 0x01014142, 0, 0xFFFFFFFF,
            0xE0040000, 0xD0040000, 0xE0000000, 0x1E30877AE, -1, 0xE3057704]
    ptes += [rng.randrange(2**32) for _ in range(12)]
    for si, spec in enumerate(entry_specs):
        def mk(spec=spec):
            return ilog_mod.PTETableEntry(*spec)
        case('ilog.entry.new.%d' % si, mk)
        try:
            ent = mk()
        except Exception:
            continue
        for pte in ptes:
            case('ilog.entry.%d.msg.%X' % (si, pte), ent.get_message, pte)
            case('ilog.entry.%d.match.%X' % (si, pte), ent.matches, pte)
            case('ilog.entry.%d.exact.%X' % (si, pte), ent._is_exact_match, pte)
            case('ilog.entry.%d.rep.%X' % (si, pte),
                 ent._is_reported_error_pte, pte)
    case('ilog.entry.badregex', ilog_mod.PTETableEntry, '((', 'x', (), 'f', 1)
    case('ilog.entry.badparams', ilog_mod.PTETableEntry, '0101****', 'x',
         ('a',), 'f', 1)
    case('ilog.entry.noneparams', ilog_mod.PTETableEntry, '0101****', 'x',
         None, 'f', 1)

    # ---- ilog: PTETable -----------------------------------------------------
    for hn, hp in real_headers + custom_headers:
        def tbl(hp=hp):
            t = ilog_mod.PTETable(hp)
            return [t.header_file_path.replace(root, '<ROOT>'), t.entries]
        case('ilog.table.%s' % hn, tbl)
        try:
            t = ilog_mod.PTETable(hp)
        except Exception:
            continue
        for pte in ptes:
            case('ilog.table.%s.get.%X' % (hn, pte), t.get_entry, pte)
        # Re-parse appends again
        def reparse(t=t):
            n0 = len(t.entries)
            t._parse_header_file()
            return [n0, len(t.entries), t.entries[-2:]]
        case('ilog.table.%s.reparse' % hn, reparse)
    t = ilog_mod.PTETable(P('hdr_empty.h'))
    add_specs = [
        ('01040000', 'Power on complete', '', 'states.cpp', '601'),
        ('100100**', 'PS%d - Faults Cleared    ', '4', 'mps.cpp', '759'),
        ('2065****', 'IO Bay %d type = %d', '3, 4', 'x.cpp', '12'),
        ('E2082690', r'P1 IO Bay VRM in \"N-Mode\" ', '', 'vrm.cpp', '145'),
        ('15D10000', 'too few fields', '', 'x.cpp'),
        ('15D10000', 'too many fields', '', 'x.cpp', '1', 'extra'),
        (),
        ('15D10000', '  padded  ', ' 12, 0 ,5,4 ', 'x.cpp', ' 42 '),
        ('15D10000', 'bad line', '', 'x.cpp', 'abc'),
        ('15D10000', 'bad line', '', 'x.cpp', ''),
        ('((((', 'bad pattern', '', 'x.cpp', '1'),
        ['0102****', 'list fields %d', '3', 'l.cpp', '5'],
    ]
    for ai, spec in enumerate(add_specs):
        def add(spec=spec):
            r = t._add_entry(spec)
            return [r, len(t.entries), t.entries[-1:] ]
        case('ilog.table.add.%d' % ai, add)

    # ---- ilog: parse_ilog_data ---------------------------------------------
    blobs = build_ilog_blobs(rng, patterns_s)
    for bn, blob in blobs:
        for hn, hp in real_headers + custom_headers:
            case('ilog.parse.%s.%s' % (bn, hn), ilog_mod.parse_ilog_data,
                 memoryview(blob), hp)
    for n in range(0, 41):
        blob = bytes(rng.randrange(256) for _ in range(n))
        case('ilog.parse.rand.%d' % n, ilog_mod.parse_ilog_data,
             memoryview(blob), P('hdr_small.h'))
    big = blobs[4][1]
    for cut in range(0, len(big), 13):
        case('ilog.parse.cut.%d' % cut, ilog_mod.parse_ilog_data,
             memoryview(big)[:cut], real_headers[0][1])
    case('ilog.parse.bytes', ilog_mod.parse_ilog_data, blobs[3][1],
         P('hdr_small.h'))
    case('ilog.parse.bytearray', ilog_mod.parse_ilog_data,
         bytearray(blobs[3][1]), P('hdr_small.h'))
    case('ilog.parse.slice', ilog_mod.parse_ilog_data,
         memoryview(b'xx' + blobs[3][1] + b'yy')[2:-2], P('hdr_small.h'))
    case('ilog.parse.none', ilog_mod.parse_ilog_data, None, P('hdr_small.h'))
    case('ilog.parse.none.missing', ilog_mod.parse_ilog_data, None,
         P('does_not_exist.h'))

    # ---- trace: TraceString ------------------------------------------------
    ts_specs = [(32403714, 'E> Controller 0x%X: Failure count = %d', 'a.cpp(324)'),
                (100, 'no args', 'b.cpp(1)'),
                (200, 'pct 100% %d', 'c.cpp(2)'),
                (300, 'str %s and %c', 'd.cpp(3)'),
                (0, '', ''),
                (4294967295, '%u.%02u%%', 'e.cpp(4)')]
    arg_sets = [(), (1,), (1, 2), (0xFA04, 0xBEEF), (1, 2, 3), (65, 66, 67, 68, 69),
                (0xFFFFFFFF, 0), (0x110000,), (65,)]
    hvals = [32403714, 32503714, 32403715, 100, 100100, 200100, 0, 100000,
             4294967295, 4294867295, 3714, -1]
    for si, spec in enumerate(ts_specs):
        s = trace_mod.TraceString(*spec)
        case('trace.str.%d.new' % si, trace_mod.TraceString, *spec)
        for ai, a in enumerate(arg_sets):
            case('trace.str.%d.msg.%d' % (si, ai), s.get_message, a)
        for h in hvals:
            case('trace.str.%d.match.%d' % (si, h), s.is_match, h)
            case('trace.str.%d.pmatch.%d' % (si, h), s.is_partial_match, h)
    case('trace.str.msg.nontuple', trace_mod.TraceString(1, 'x %d', 'l').get_message, 5)
    case('trace.str.msg.none', trace_mod.TraceString(1, 'x %d', 'l').get_message, None)
    case('trace.str.msg.nonefmt', trace_mod.TraceString(1, None, 'l').get_message, (1,))

    # ---- trace: TraceStringFile --------------------------------------------
    for sn, sp in real_strings + custom_strings:
        def sf(sp=sp):
            f = trace_mod.TraceStringFile(sp)
            return [f.string_file_path.replace(root, '<ROOT>'),
                    len(f.trace_strings), f.trace_strings[:40],
                    f.trace_strings[-5:]]
        case('trace.file.%s' % sn, sf)
        try:
            f = trace_mod.TraceStringFile(sp)
        except Exception:
            continue
        probe = hvals + [92602121, 92702121, 92802121, 48602109, 48702109,
                         600, 700, 800, 111, 222, 100222]
        probe += hashes_s[:15] + [h + 100000 for h in hashes_s[:15]]
        for h in probe:
            case('trace.file.%s.get.%d' % (sn, h), f.get_trace_string, h)
    f = trace_mod.TraceStringFile(P('str_empty'))
    for ai, spec in enumerate([
            ('103402736', 'I> msg %d', 'a.cpp(1)'),
            ('  48602109  ', '  I> padded  ', '  b.cpp(2)  '),
            ('103402736', 'too few'),
            ('1', 'too', 'many', 'fields'),
            (),
            ('abc', 'bad hash', 'c.cpp(3)'),
            ('', 'empty hash', 'c.cpp(3)'),
            ('12 34', 'bad hash 2', 'c.cpp(3)'),
            ['77', 'list fields', 'l.cpp(7)'],
            ('+5', 'signed', 's.cpp'),
            ('1_000', 'underscore', 'u.cpp')]):
        def add(spec=spec):
            r = f._add_trace_string(spec)
            return [r, len(f.trace_strings), f.trace_strings[-1:]]
        case('trace.file.add.%d' % ai, add)

    # ---- trace: header / entry / buffer reads -----------------------------
    bufs = build_trace_buffers(rng, hashes_s)

    def mkstream(data, start=0, order='big', signed=False):
        s = DataStream(memoryview(data), byte_order=order, is_signed=signed)
        s.index = start
        return s

    def read_header(data, start=0, order='big', signed=False):
        s = mkstream(data, start, order, signed)
        h = trace_mod.TraceBufferHeader()
        ok = h.read(s)
        return [ok, s.index, h]

    def read_entry(data, start=0, order='big', signed=False):
        s = mkstream(data, start, order, signed)
        e = trace_mod.TraceEntry()
        try:
            ok = e.read(s)
        except BaseException as ex:
            ok = ['EXC', type(ex).__name__, str(ex)]
        args = None
        try:
            args = e.get_args()
        except BaseException as ex:
            args = ['EXC', type(ex).__name__, str(ex)]
        isbin = e.is_binary_trace()
        return [ok, s.index, e, args, isbin]

    def read_buffer(data, start=0, order='big', signed=False):
        s = mkstream(data, start, order, signed)
        b = trace_mod.TraceBuffer()
        ok = b.read(s)
        return [ok, s.index, b]

    case('trace.hdr.init', trace_mod.TraceBufferHeader)
    case('trace.entry.init', trace_mod.TraceEntry)
    case('trace.buf.init', trace_mod.TraceBuffer)
    case('trace.consts', lambda: [trace_mod.TraceBufferHeader.SIZE,
                                  trace_mod.TraceBufferHeader.BUFFER_NAMES,
                                  trace_mod.TraceEntry.FIXED_SIZE,
                                  trace_mod.TraceEntry.MAX_DATA_LEN,
                                  trace_mod.TraceEntry.TYPE_FIELDTRACE,
                                  trace_mod.TraceEntry.TYPE_FIELDBIN,
                                  trace_mod.TraceEntry.MAX_ARGS,
                                  trace_mod.TraceStringFile.LINE_RE])
    for bn, buf in bufs:
        case('trace.hdr.%s' % bn, read_header, buf)
        case('trace.buf.%s' % bn, read_buffer, buf)
        case('trace.buf.off.%s' % bn, read_buffer, b'\xAA' * 5 + buf, 5)
        case('trace.entry.%s' % bn, read_entry, buf, 32)
    hb = bufs[4][1]
    for n in range(0, 40):
        case('trace.hdr.cut.%d' % n, read_header, hb[:n])
        case('trace.hdr.cut.off.%d' % n, read_header, b'zz' + hb[:n], 2)
    case('trace.hdr.little', read_header, hb, 0, 'little')
    case('trace.hdr.signed', read_header, trace_header(size=0xFFFFFFF0, wrap=0x80000000), 0, 'big', True)
    case('trace.hdr.noorder', read_header, hb, 0, None, None)
    case('trace.entry.little', read_entry, hb, 32, 'little')
    case('trace.entry.signed', read_entry, trace_entry(0xFFFF, 0x8000, 0x4654, 0xFFFFFFFF, 0xFFFFFFFF, b'\xff' * 8), 0, 'big', True)
    case('trace.buf.little', read_buffer, hb, 0, 'little')
    e1 = trace_entry(0x8AAB, 0x0123, 0x4644, 0x46414EFF, 562,
                     b'\x01\x02\x03\x04\xDE\xAD\xBE')
    for n in range(0, len(e1) + 1):
        case('trace.entry.cut.%d' % n, read_entry, e1[:n])
    e2 = trace_entry(0x8ADF, 0x0124, 0x4654, hashes[0], 324,
                     bytes(range(24)))
    for n in range(0, len(e2) + 1, 3):
        case('trace.entry2.cut.%d' % n, read_entry, e2[:n])
    for i in range(len(e1)):
        for val in (0x00, 0xFF):
            m = bytearray(e1)
            m[i] = val
            case('trace.entry.mut.%d.%02X' % (i, val), read_entry, bytes(m))
    # get_args on hand built entries
    for di, d in enumerate([None, b'', b'\x01', b'\0\0\0\x01', b'\0\0\0\x01\xff',
                            bytes(range(19)), bytes(range(20)), bytes(range(21)),
                            bytes(range(40))]):
        for tag in (0x4654, 0x4644, None, 0):
            def ga(d=d, tag=tag):
                e = trace_mod.TraceEntry()
                e.tag = tag
                e.data = None if d is None else memoryview(d)
                return e.get_args()
            case('trace.args.%d.%r' % (di, tag), ga)
            def ga2(d=d, tag=tag):
                e = trace_mod.TraceEntry()
                e.tag = tag
                e.data = d
                return e.get_args()
            case('trace.args.raw.%d.%r' % (di, tag), ga2)

    # ---- trace: _format_trace_entry ---------------------------------------
    sfile = trace_mod.TraceStringFile(P('str_small'))
    fe_specs = []
    for h in (32403714, 32503714, 999, 100, 100100, 300100, 200, 300, 400, 500,
              600, 700, 92602121, 92702121, 92802121, 4294967295):
        for tag in (0x4654, 0x4644):
            for d in (b'', b'\0\0\xfa\x04\0\0\xbe\xef', bytes(range(1, 23)),
                      None):
                fe_specs.append((0x8ADF, 0x186, len(d or b''), tag, h, 324, d))
    fe_specs.append((None, 1, 0, 0x4654, 100, 1, b''))
    fe_specs.append((1, None, 0, 0x4654, 100, 1, b''))
    fe_specs.append((1, 1, 0, 0x4654, 100, None, b''))
    fe_specs.append((1, 1, 0, 0x4654, None, 1, b''))
    fe_specs.append((1, None, 0, 0x4654, 999, 1, b''))
    fe_specs.append((0xFFFF, 0xFFFFF, 0, None, 100, 123456, b'ab'))
    for fi, (tbh, tbl, ln, tag, h, line, d) in enumerate(fe_specs):
        def fe(tbh=tbh, tbl=tbl, ln=ln, tag=tag, h=h, line=line, d=d):
            e = trace_mod.TraceEntry()
            e.tbh, e.tbl, e.length, e.tag = tbh, tbl, ln, tag
            e.hash_value, e.line = h, line
            e.data = None if d is None else memoryview(d)
            lines = ['pre-existing']
            try:
                r = trace_mod._format_trace_entry(e, sfile, lines)
            except BaseException as ex:
                r = ['EXC', type(ex).__name__, str(ex)]
            return [r, lines]
        case('trace.fmt.%d' % fi, fe)

    # ---- trace: parse_trace_data ------------------------------------------
    for bn, buf in bufs:
        for sn, sp in real_strings[:1] + custom_strings[:1]:
            case('trace.parse.%s.%s' % (bn, sn), trace_mod.parse_trace_data,
                 memoryview(buf), sp)
    for sn, sp in real_strings[1:] + custom_strings[1:]:
        case('trace.parse.%s' % sn, trace_mod.parse_trace_data,
             memoryview(bufs[7][1]), sp)
    wf = bufs[10][1]
    for cut in list(range(0, 60)) + list(range(60, len(wf), 7)):
        case('trace.parse.cut.%d' % cut, trace_mod.parse_trace_data,
             memoryview(wf)[:cut], real_strings[0][1])
    for k in range(150):
        m = bytearray(wf)
        for _ in range(rng.choice([1, 1, 2, 4])):
            m[rng.randrange(len(m))] = rng.randrange(256)
        case('trace.parse.mut.%d' % k, trace_mod.parse_trace_data,
             memoryview(bytes(m)), real_strings[0][1])
    for k in range(40):
        blob = bytes(rng.randrange(256) for _ in range(rng.randrange(0, 120)))
        case('trace.parse.rand.%d' % k, trace_mod.parse_trace_data,
             memoryview(blob), P('str_small'))
    case('trace.parse.bytes', trace_mod.parse_trace_data, wf, P('str_small'))
    case('trace.parse.none', trace_mod.parse_trace_data, None, P('str_small'))
    case('trace.parse.none.missing', trace_mod.parse_trace_data, None,
         P('does_not_exist_str'))

    # ---- hlog -------------------------------------------------------------
    case('hlog.consts', lambda: [hlog_mod.HLOG_START_RE, hlog_mod.HLOG_FIELD_RE,
                                 hlog_mod.HLOG_END_RE,
                                 hlog_mod.HistoryLogField._fields])
    for hn, hp in real_headers + custom_headers:
        case('hlog.fields.%s' % hn, hlog_mod.get_hlog_fields, hp)
        for n in list(range(0, 12)) + [20, 39, 40, 41, 42, 43, 44, 50, 80]:
            blob = bytes(rng.choice([0, 0, 0, 1, 0xFF, rng.randrange(256)])
                         for _ in range(n))
            case('hlog.parse.%s.%d' % (hn, n), hlog_mod.parse_hlog_data,
                 memoryview(blob), hp)
        case('hlog.parse.%s.allzero' % hn, hlog_mod.parse_hlog_data,
             memoryview(bytes(60)), hp)
        case('hlog.parse.%s.allff' % hn, hlog_mod.parse_hlog_data,
             memoryview(b'\xff' * 60), hp)
    case('hlog.parse.bytes', hlog_mod.parse_hlog_data, b'\x01\x02\x03\x04',
         P('hdr_small.h'))
    case('hlog.parse.none', hlog_mod.parse_hlog_data, None, P('hdr_small.h'))

    # ---- dump -------------------------------------------------------------
    case('dump.consts', lambda: [dump_mod.TRACE_BUFFER_HEADER_START,
                                 dump_mod.HEX_DUMP_LINE_FORMATS,
                                 dump_mod.DIVIDER_LINE])
    case('dump.names', dump_mod._get_drawer_type_names)
    for n in ('mex', 'nimitz', 'foo', '', None, 'MEX'):
        case('dump.type.%r' % n, dump_mod._get_drawer_type, n)

    def fmt_ilog(data, pre, hp):
        lines = list(pre)
        try:
            r = dump_mod._format_ilog_data(data, lines, hp)
        except BaseException as ex:
            r = ['EXC', type(ex).__name__, str(ex)]
        return [r, lines]

    def fmt_trace(data, pre, sp):
        lines = list(pre)
        try:
            r = dump_mod._format_trace_data(data, lines, sp)
        except BaseException as ex:
            r = ['EXC', type(ex).__name__, str(ex)]
        return [r, lines]

    for bn, blob in blobs[:4] + blobs[5:8]:
        for hn, hp in [real_headers[0], custom_headers[0], custom_headers[-1]]:
            case('dump.fmt_ilog.%s.%s' % (bn, hn), fmt_ilog, memoryview(blob),
                 ['x', 'y'], hp)
    for bn, buf in bufs[:8] + bufs[15:20]:
        for sn, sp in [real_strings[0], custom_strings[0], custom_strings[-1]]:
            case('dump.fmt_trace.%s.%s' % (bn, sn), fmt_trace,
                 memoryview(buf), [], sp)

    # Dump data built from an ilog blob and renamed trace buffers
    def named(buf, name):
        return buf[:4] + name.encode().ljust(12, b' ') + buf[16:]

    dumps = []
    ilog_b = blobs[3][1]
    dumps.append(('ilog_only', ilog_b))
    dumps.append(('empty', b''))
    dumps.append(('one', b'\x00'))
    dumps.append(('ilog_1buf', ilog_b + named(bufs[4][1], 'FANS')))
    dumps.append(('ilog_3buf', ilog_b + named(bufs[4][1], 'FANS') +
                  named(bufs[7][1], 'IICS') + named(bufs[10][1], 'ERRL')))
    dumps.append(('ilog_6buf', ilog_b + b''.join(
        named(bufs[i + 3][1], n) for i, n in enumerate(
            ['ERRL', 'INFO', 'FANS', 'POWR', 'IICM', 'IICS']))))
    dumps.append(('dup_names', ilog_b + named(bufs[4][1], 'FANS') +
                  named(bufs[7][1], 'FANS') + named(bufs[6][1], 'POWR')))
    dumps.append(('no_ilog', named(bufs[4][1], 'INFO') +
                  named(bufs[7][1], 'IICM')))
    dumps.append(('unknown_name', ilog_b + named(bufs[4][1], 'ABCD')))
    dumps.append(('hdr_in_ilog', ilog_b + TRACE_HDR_START + b'FAN' + ilog_b +
                  named(bufs[5][1], 'FANS')))
    dumps.append(('prefix_name', ilog_b + named(bufs[4][1], 'FANSX') +
                  named(bufs[5][1], 'IICSIICM')))
    dumps.append(('trunc_hdr', ilog_b + named(bufs[4][1], 'FANS')[:20]))
    dumps.append(('hdr_start_only', ilog_b + TRACE_HDR_START + b'POWR'))
    dumps.append(('odd_ilog', ilog_b[:-3] + named(bufs[8][1], 'POWR')))
    for dn, d in dumps:
        for hn, hp, sn, sp in [
                ('mex', real_headers[0][1], 'mex', real_strings[0][1]),
                ('nim', real_headers[1][1], 'nim', real_strings[1][1]),
                ('small', P('hdr_small.h'), 'small', P('str_small')),
                ('missing', P('does_not_exist.h'), 'small', P('str_small')),
                ('small', P('hdr_small.h'), 'missing', P('does_not_exist_str'))]:
            case('dump.parse.%s.%s.%s' % (dn, hn, sn), dump_mod.parse_dump_data,
                 memoryview(d), hp, sp)
    d3 = dumps[4][1]
    for cut in range(0, len(d3), 11):
        case('dump.parse.cut.%d' % cut, dump_mod.parse_dump_data,
             memoryview(d3)[:cut], real_headers[0][1], real_strings[0][1])
    for k in range(60):
        m = bytearray(d3)
        for _ in range(rng.choice([1, 2, 5])):
            m[rng.randrange(len(m))] = rng.randrange(256)
        case('dump.parse.mut.%d' % k, dump_mod.parse_dump_data,
             memoryview(bytes(m)), real_headers[0][1], real_strings[0][1])
    for k in range(30):
        blob = bytes(rng.randrange(256) for _ in range(rng.randrange(0, 200)))
        if k % 3 == 0 and len(blob) > 20:
            pos = rng.randrange(len(blob) - 8)
            blob = blob[:pos] + TRACE_HDR_START + \
                rng.choice(BUFFER_NAMES).encode() + blob[pos + 8:]
        case('dump.parse.rand.%d' % k, dump_mod.parse_dump_data,
             memoryview(blob), P('hdr_small.h'), P('str_small'))
    case('dump.parse.none', dump_mod.parse_dump_data, None, P('hdr_small.h'),
         P('str_small'))

    # Dump files (written by parent into workdir/dumps)
    ddir = P('dumps')
    for fn in sorted(os.listdir(ddir)):
        for hn, hp, sp in [('mex', real_headers[0][1], real_strings[0][1]),
                           ('small', P('hdr_small.h'), P('str_small'))]:
            case('dump.file.%s.%s' % (fn, hn), dump_mod.parse_dump_file,
                 os.path.join(ddir, fn), hp, sp)
    case('dump.file.missing', dump_mod.parse_dump_file, P('nope.dump'),
         P('hdr_small.h'), P('str_small'))
    case('dump.file.dir', dump_mod.parse_dump_file, ddir,
         P('hdr_small.h'), P('str_small'))

    # parse_args / main via sys.argv
    def with_argv(fn, argv):
        old = sys.argv
        sys.argv = ['dump.py'] + argv
        try:
            r = fn()
        finally:
            sys.argv = old
        if isinstance(r, tuple):
            r = tuple(x.replace(root, '<ROOT>') if isinstance(x, str) else x
                      for x in r)
        return r

    a_dump = os.path.join(ddir, sorted(os.listdir(ddir))[0])
    argvs = [
        [a_dump, '-t', 'mex'],
        [a_dump, '-t', 'nimitz'],
        [a_dump, '--drawer-type', 'mex', '-d', P('hdr_small.h')],
        [a_dump, '-t', 'mex', '-s', P('str_small')],
        [a_dump, '-t', 'nimitz', '-d', P('hdr_small.h'), '-s', P('str_small')],
        [a_dump, '-t', 'mex', '--header-file', '', '--string-file', ''],
        [a_dump, '-t', 'foo'],
        [a_dump],
        [],
        ['-t', 'mex'],
        [a_dump, '-t', 'mex', 'extra'],
        ['-h'],
        [P('nope.dump'), '-t', 'mex'],
        [a_dump, '-t', 'mex', '-d', P('does_not_exist.h')],
        [a_dump, '-t', 'mex', '-s', P('does_not_exist_str')],
    ]
    for ai, av in enumerate(argvs):
        case('dump.args.%d' % ai, with_argv, dump_mod.parse_args, av)
        case('dump.main.%d' % ai, with_argv, dump_mod.main, av)
    for fn in sorted(os.listdir(ddir)):
        case('dump.main.file.%s' % fn, with_argv, dump_mod.main,
             [os.path.join(ddir, fn), '-t', 'mex'])

    # ---- m2c00 ------------------------------------------------------------
    case('ud.consts', lambda: [ud_mod.SUB_TYPE_HLOG, ud_mod.SUB_TYPE_ILOG,
                               ud_mod.SUB_TYPE_TRACE])
    for v in (0, 1, 2, 3, -1, 255, None, '1', 1.0, True):
        case('ud.type.%r' % (v,), ud_mod._get_drawer_type, v)
    ud_datas = [('empty', b''), ('one', b'\x00'), ('dead', b'\x00\xDE\xAD'),
                ('ilog', blobs[3][1]), ('ilog_small', blobs[-1][1]),
                ('hlog', bytes(rng.choice([0, 0, 7, 255]) for _ in range(44))),
                ('trace', bufs[10][1]), ('trace_bad', bufs[10][1][:30]),
                ('trace_part', bufs[13][1]),
                ('rand', bytes(rng.randrange(256) for _ in range(77)))]
    for dn, d in ud_datas:
        for ver in (0, 1, 2, 3, 255):
            for fname in ('_parse_hlog', '_parse_ilog', '_parse_trace',
                          '_parse_unsupported'):
                case('ud.%s.%s.%d' % (fname, dn, ver), getattr(ud_mod, fname),
                     ver, memoryview(d))
            for st in (72, 73, 84, 0, 1, 71, 74, 83, 85, 255, -1, None, '72',
                       72.0):
                case('ud.json.%s.%d.%r' % (dn, ver, st), ud_mod.parseUDToJson,
                     st, ver, memoryview(d))
    for st in (72, 73, 84, 5):
        case('ud.json.bytes.%d' % st, ud_mod.parseUDToJson, st, 1,
             b'\x01\x02\x03\x04\x05\x06\x07\x08\x09')
        case('ud.json.none.%d' % st, ud_mod.parseUDToJson, st, 1, None)
        case('ud.json.nonever.%d' % st, ud_mod.parseUDToJson, st, None,
             memoryview(b'\x01\x02\x03\x04\x05\x06\x07\x08\x09'))
    # repeated decodes in one process
    for rep in range(3):
        for dn, d in ud_datas[3:7]:
            for st in (72, 73, 84):
                case('ud.json.rep%d.%s.%d' % (rep, dn, st),
                     ud_mod.parseUDToJson, st, 1 + rep % 2, memoryview(d))

    # module namespace checks for names used by tests / other modules
    def names():
        out = {}
        for mod, wanted in [
                (dump_mod, ['_get_drawer_type_names', '_get_drawer_type',
                            '_format_ilog_data', '_format_trace_data',
                            'parse_dump_data', 'parse_dump_file', 'parse_args',
                            'main']),
                (hlog_mod, ['get_hlog_fields', 'parse_hlog_data',
                            'HistoryLogField']),
                (ilog_mod, ['PTETableEntry', 'PTETable', 'parse_ilog_data',
                            'ILOG_ENTRY_SIZE', 'ERROR_MASK', 'ERROR_VALUE',
                            'REPORTED_MASK', 'REPORTED_VALUE', 'TBL_START_RE',
                            'TBL_ENTRY_RE', 'TBL_END_RE']),
                (trace_mod, ['TraceString', 'TraceStringFile',
                             'TraceBufferHeader', 'TraceEntry', 'TraceBuffer',
                             '_format_trace_entry', 'parse_trace_data']),
                (utils_mod, ['format_timestamp']),
                (ud_mod, ['_get_drawer_type', '_parse_hlog', '_parse_ilog',
                          '_parse_trace', '_parse_unsupported',
                          'parseUDToJson'])]:
            for w in wanted:
                v = getattr(mod, w, 'MISSING')
                if isinstance(v, (int, str)):
                    out[mod.__name__ + '.' + w] = v
                elif isinstance(v, re.Pattern):
                    out[mod.__name__ + '.' + w] = [v.pattern, v.flags]
                else:
                    out[mod.__name__ + '.' + w] = callable(v)
        return out
    case('names', names)

    json.dump(results, sys.stdout)


# --------------------------------------------------------------------------
# Parent
# --------------------------------------------------------------------------

def write_dump_files(workdir, root):
    rng = random.Random(777)
    hashes = read_real_hashes(root, 'mexStringFile')[::7][:60]
    patterns = read_real_patterns(root, 'mex_pte.h')[::5]
    bufs = build_trace_buffers(rng, hashes)
    blobs = build_ilog_blobs(rng, patterns)
    ddir = os.path.join(workdir, 'dumps')
    os.makedirs(ddir, exist_ok=True)

    def named(buf, name):
        return buf[:4] + name.encode().ljust(12, b' ') + buf[16:]

    full = blobs[3][1] + named(bufs[4][1], 'FANS') + \
        named(bufs[7][1], 'IICS') + named(bufs[10][1], 'ERRL')
    files = {
        'a_bmc.dump': hexdump_bmc(full),
        'b_bmc_lower.dump': hexdump_bmc(full, upper=False),
        'c_prebmc.dump': hexdump_prebmc(full),
        'd_bmc_odd.dump': hexdump_bmc(full[:-5]),
        'e_prebmc_odd.dump': hexdump_prebmc(full[:-9]),
        'f_empty.dump': [],
        'g_unknown_format.dump': [
            '00000000:  DEADBEEF BADC0FFE 42414443 30464645  |........BADC0FFE|'],
        'h_mixed.dump': hexdump_bmc(full[:64]) + hexdump_prebmc(full[64:128]),
        'i_mixed2.dump': hexdump_prebmc(full[:64]) + hexdump_bmc(full[64:128]),
        'j_garbage_lines.dump': ['IO drawer dump', ''] + hexdump_bmc(full[:160]) +
                                ['-- end --', 'zz'],
        'k_ilog_only.dump': hexdump_bmc(blobs[2][1]),
        'l_trace_only.dump': hexdump_prebmc(named(bufs[5][1], 'POWR')),
        'm_corrupt_hex.dump': [l.replace('0', 'G', 1) if i % 3 == 0 else l
                               for i, l in enumerate(hexdump_bmc(full[:200]))],
        'n_blank.dump': ['', '   ', ''],
        'o_small.dump': hexdump_bmc(blobs[-1][1] + named(bufs[2][1], 'INFO')),
    }
    for name, lines in files.items():
        with open(os.path.join(ddir, name), 'w') as f:
            for line in lines:
                f.write(line + '\n')
    with open(os.path.join(ddir, 'p_binary.dump'), 'wb') as f:
        f.write(bytes(range(256)) * 2)
    with open(os.path.join(ddir, 'q_nonewline.dump'), 'w') as f:
        f.write('\n'.join(hexdump_bmc(full[:100])))

    # PEL files
    pdir = os.path.join(workdir, 'pels')
    os.makedirs(pdir, exist_ok=True)
    pels = {}
    datas = [('ilog', blobs[3][1]), ('hlog', bytes([0, 1, 0, 2, 0, 0, 3] * 6)),
             ('trace', named(bufs[4][1], 'FANS')), ('empty', b''),
             ('trace_bad', bufs[4][1][:33]), ('rand', bytes(rng.randrange(256) for _ in range(50)))]
    for dn, d in datas:
        for st in (72, 73, 84, 1):
            for ver in (1, 2, 3):
                pels['m_%s_%d_%d.pel' % (dn, st, ver)] = build_pel(
                    'M', 0x2C00, st, ver, d)
    pels['multi.pel'] = build_pel('M', 0x2C00, 73, 1, blobs[2][1], [
        (72, 2, bytes([0, 1, 0, 2, 0, 0, 3] * 6)),
        (84, 1, named(bufs[5][1], 'POWR')), (84, 9, named(bufs[5][1], 'POWR')),
        (73, 2, blobs[2][1])])
    pels['other_creator.pel'] = build_pel('O', 0x2C00, 73, 1, blobs[2][1])
    pels['other_comp.pel'] = build_pel('M', 0x2C01, 73, 1, blobs[2][1])
    pels['truncated.pel'] = build_pel('M', 0x2C00, 73, 1, blobs[2][1])[:-5]
    for name, data in pels.items():
        with open(os.path.join(pdir, name), 'wb') as f:
            f.write(data)


def norm_stderr(text, root):
    text = text.replace(root, '<ROOT>')
    if 'Traceback (most recent call last)' in text:
        lines = [l for l in text.splitlines() if l.strip()]
        text = 'TRACEBACK: ' + (lines[-1] if lines else '')
    return text


def run_cli(root, workdir):
    env = dict(os.environ)
    env['PYTHONPATH'] = os.path.join(root, 'modules')
    env['PYTHONDONTWRITEBYTECODE'] = '1'
    env['PYTHONHASHSEED'] = '0'
    results = []
    dump_py = os.path.join(root, 'modules', 'io_drawer', 'dump.py')
    peltool = os.path.join(root, 'modules', 'pel', 'peltool', 'peltool.py')
    ddir = os.path.join(workdir, 'dumps')
    pdir = os.path.join(workdir, 'pels')
    P = lambda n: os.path.join(workdir, n)
    cmds = []
    dfiles = sorted(os.listdir(ddir))
    for i, fn in enumerate(dfiles):
        fp = os.path.join(ddir, fn)
        flags = [''] if i % 4 else ['', '-O']
        for fl in flags:
            pre = [PY] + ([fl] if fl else [])
            cmds.append(('dumpcli.%s.mex%s' % (fn, fl), pre + [dump_py, fp, '-t', 'mex']))
        if i % 3 == 0:
            cmds.append(('dumpcli.%s.nim' % fn, [PY, dump_py, fp, '-t', 'nimitz']))
            cmds.append(('dumpcli.%s.custom' % fn,
                         [PY, dump_py, fp, '-t', 'mex', '-d', P('hdr_small.h'),
                          '-s', P('str_small')]))
    a = os.path.join(ddir, dfiles[0])
    cmds.append(('dumpcli.badtype', [PY, dump_py, a, '-t', 'foo']))
    cmds.append(('dumpcli.notype', [PY, dump_py, a]))
    cmds.append(('dumpcli.help', [PY, dump_py, '-h']))
    cmds.append(('dumpcli.missing', [PY, dump_py, P('nope'), '-t', 'mex']))
    cmds.append(('dumpcli.missinghdr', [PY, dump_py, a, '-t', 'mex', '-d', P('nope.h')]))
    cmds.append(('dumpcli.missingstr', [PY, dump_py, a, '-t', 'mex', '-s', P('nope.s')]))
    cmds.append(('dumpcli.badhdr', [PY, dump_py, a, '-t', 'mex', '-d', P('hdr_bad_regex.h')]))
    cmds.append(('dumpcli.module', [PY, '-m', 'io_drawer.dump', a, '-t', 'nimitz']))
    for i, fn in enumerate(sorted(os.listdir(pdir))):
        fp = os.path.join(pdir, fn)
        cmds.append(('pelcli.%s' % fn, [PY, peltool, '-f', fp, '-E']))
        if i % 9 == 0:
            cmds.append(('pelcli.%s.O' % fn, [PY, '-O', peltool, '-f', fp, '-E']))
            cmds.append(('pelcli.%s.P' % fn, [PY, peltool, '-f', fp, '-E', '-P']))
            cmds.append(('pelcli.%s.x' % fn, [PY, peltool, '-f', fp, '-E', '-x']))
    for name, cmd in cmds:
        p = subprocess.run(cmd, env=env, cwd=workdir, capture_output=True,
                           timeout=300)
        results.append([name, p.returncode, p.stdout.decode('utf-8', 'replace'),
                        norm_stderr(p.stderr.decode('utf-8', 'replace'), root)])
    return results


def run_worker(root, workdir, opt):
    env = dict(os.environ)
    env['PYTHONPATH'] = os.path.join(root, 'modules')
    env['PYTHONDONTWRITEBYTECODE'] = '1'
    env['PYTHONHASHSEED'] = '0'
    cmd = [PY] + (['-O'] if opt else []) + \
        [os.path.abspath(__file__), '--worker', root, workdir]
    p = subprocess.run(cmd, env=env, cwd=workdir, capture_output=True,
                       timeout=1800)
    if p.returncode != 0:
        print('worker failed for %s (opt=%s):\n%s' % (
            root, opt, p.stderr.decode('utf-8', 'replace')[-4000:]))
        sys.exit(2)
    return json.loads(p.stdout.decode('utf-8'))


def listing(workdir):
    out = []
    for d, _, files in os.walk(workdir):
        for f in files:
            fp = os.path.join(d, f)
            out.append((os.path.relpath(fp, workdir), os.path.getsize(fp)))
    return sorted(out)


def main():
    if len(sys.argv) >= 2 and sys.argv[1] == '--worker':
        worker(sys.argv[2], sys.argv[3])
        return
    if len(sys.argv) != 3:
        print(__doc__)
        sys.exit(2)
    roots = [os.path.abspath(sys.argv[1]), os.path.abspath(sys.argv[2])]
    workdir = tempfile.mkdtemp(prefix='diffcheck_R24_')
    try:
        write_inputs(workdir)
        write_dump_files(workdir, roots[0])
        before = listing(workdir)
        all_results = []
        for root in roots:
            res = []
            for opt in (False, True):
                for r in run_worker(root, workdir, opt):
                    r[0] = ('O.' if opt else 'N.') + r[0]
                    res.append(r)
            res.extend(run_cli(root, workdir))
            res.append(['files', listing(workdir) == before])
            all_results.append(res)
        a, b = all_results
        ndiff = 0
        if len(a) != len(b):
            print('case count differs: %d vs %d' % (len(a), len(b)))
            ndiff += 1
        for ra, rb in zip(a, b):
            if ra != rb:
                ndiff += 1
                if ndiff <= 15:
                    print('DIFF in case %s:\n  pristine: %s\n  patched:  %s' % (
                        ra[0], json.dumps(ra[1:])[:1500],
                        json.dumps(rb[1:])[:1500]))
        if ndiff:
            print('DIFFERENT (%d of %d cases differ)' % (ndiff, len(a)))
            sys.exit(1)
        print('IDENTICAL (%d cases)' % len(a))
        sys.exit(0)
    finally:
        shutil.rmtree(workdir, ignore_errors=True)


if __name__ == '__main__':
    main()
