#!/usr/bin/env python3
"""
Differential check for refactorings of modules/io_drawer/{ilog,utils,hlog,
drawer_type}.py.

Usage: diffcheck.py <pristine_root> <patched_root>

Runs the same deterministic driver in a subprocess against both trees (with and
without `python -O`), plus the dump.py and peltool.py command line tools, and
compares everything that is observable: return values, exception types and
messages, object attributes, stdout, stderr, exit status and the files that
exist in the working directory afterwards.

Prints "IDENTICAL (<n> cases)" and exits 0 when all outputs are identical,
otherwise prints the differing cases and exits 1.
"""

import json
import os
import random
import shutil
import struct
import subprocess
import sys
import tempfile

PY = sys.executable

###############################################################################
# Driver: executed in a subprocess with PYTHONPATH=<root>/modules
###############################################################################

DRIVER = r'''
import json
import os
import random
import re
import struct
import sys
import tempfile
from decimal import Decimal
from fractions import Fraction

ROOT = os.path.realpath(sys.argv[1])
WORK = sys.argv[2]

import io_drawer.utils as utils
import io_drawer.drawer_type as drawer_type
import io_drawer.ilog as ilog
import io_drawer.hlog as hlog
import io_drawer.dump as dump
import io_drawer.trace as trace
import udparsers.m2c00.m2c00 as m2c00

assert os.path.realpath(ilog.__file__).startswith(ROOT), ilog.__file__
assert os.path.realpath(hlog.__file__).startswith(ROOT), hlog.__file__
assert os.path.realpath(utils.__file__).startswith(ROOT), utils.__file__
assert os.path.realpath(drawer_type.__file__).startswith(ROOT)

RESULTS = []
rnd = random.Random(20240607)


def norm(text):
    if isinstance(text, str):
        return text.replace(ROOT, '<ROOT>').replace(WORK, '<WORK>')
    return text


def show(value):
    """Stable, comparable description of a value."""
    if isinstance(value, ilog.PTETableEntry):
        return ['PTETableEntry', show_entry(value)]
    if isinstance(value, (list, tuple)):
        return [type(value).__name__, [show(v) for v in value]]
    if isinstance(value, dict):
        return ['dict', [[show(k), show(v)] for k, v in value.items()]]
    if isinstance(value, str):
        return ['str', norm(value)]
    return [type(value).__name__, norm(repr(value))]


def show_entry(entry):
    return [show(entry.pte_pattern), show(entry.message_format),
            show(entry.params), show(entry.file), show(entry.line),
            show(entry.pte_re.pattern), entry.pte_re.flags,
            sorted(vars(entry).keys())]


def case(name, fn, *args, **kwargs):
    try:
        out = ['ok', show(fn(*args, **kwargs))]
    except BaseException as e:
        out = ['exc', type(e).__name__, norm(str(e))]
    RESULTS.append([name, out])
    return out


def write(name, content, mode='w'):
    path = os.path.join(WORK, name)
    if mode == 'w':
        with open(path, 'w', newline='') as f:
            f.write(content)
    else:
        with open(path, 'wb') as f:
            f.write(content)
    return path


###########################################################################
# utils.format_timestamp
###########################################################################

for start in range(-8, 0x10010, 512):
    stop = min(start + 512, 0x10010)
    case(f'ts[{start}:{stop}]',
         lambda a=start, b=stop: [utils.format_timestamp(t)
                                  for t in range(a, b)])
odd_ts = [True, False, 1.5, 0.0, -0.5, 65534.5, float('nan'), float('inf'),
          None, 'x', '12', b'1', 10**30, -10**30, Fraction(5), Fraction(7, 2),
          Fraction(65534), Decimal(5), Decimal('3661.5'), [1], (1,), 1 + 2j,
          0xFFFE, 0xFFFF, 3599, 3600, 3601, 59, 60, 61]
for i, t in enumerate(odd_ts):
    case(f'ts_odd[{i}]', utils.format_timestamp, t)
case('utils_public', lambda: sorted(
    n for n in dir(utils) if n == 'format_timestamp'))

###########################################################################
# drawer_type
###########################################################################

def drawer_info(dt):
    return [dt.name, dt.header_file_name, dt.string_file_name,
            dt.user_data_version, dt.get_header_file_path(),
            dt.get_trace_string_file_path(), sorted(vars(dt).keys()),
            os.path.exists(dt.get_header_file_path()),
            os.path.exists(dt.get_trace_string_file_path())]

case('drawer_mex', drawer_info, drawer_type.MEX_DRAWER_TYPE)
case('drawer_nimitz', drawer_info, drawer_type.NIMITZ_DRAWER_TYPE)
case('drawer_list', lambda: [type(drawer_type.DRAWER_TYPES).__name__,
                             [drawer_info(d) for d in drawer_type.DRAWER_TYPES],
                             drawer_type.DRAWER_TYPES[0] is drawer_type.MEX_DRAWER_TYPE,
                             drawer_type.DRAWER_TYPES[1] is drawer_type.NIMITZ_DRAWER_TYPE])
for i, args in enumerate([('foo', 'foo.h', 'fooSF', 5),
                          ('', '', '', 0),
                          ('a', '/abs/x.h', '/abs/sf', -1),
                          ('a', '../x.h', 'sub/sf', 2**40),
                          ('a', None, 'sf', 1),
                          ('a', 'x.h', None, 1),
                          ('a', 5, b'sf', 1),
                          ('a', b'x.h', 'y', 1)]):
    case(f'drawer_custom[{i}]', lambda a=args: drawer_info(drawer_type.DrawerType(*a)))
case('drawer_kw', lambda: drawer_info(drawer_type.DrawerType(
    name='k', header_file_name='k.h', string_file_name='kSF',
    user_data_version=9)))
case('drawer_badargs', lambda: drawer_type.DrawerType('a', 'b'))
os.chdir(WORK)
case('drawer_after_chdir', drawer_info, drawer_type.MEX_DRAWER_TYPE)

MEX_H = drawer_type.MEX_DRAWER_TYPE.get_header_file_path()
NIM_H = drawer_type.NIMITZ_DRAWER_TYPE.get_header_file_path()

###########################################################################
# ilog: PTETableEntry
###########################################################################

entry_specs = [
    ('15A00000', 'Bad non-volatile storage count offset', (), 'nvs.cpp', 1001),
    ('010000**', 'Begin power on, node type = 0x%02X', (4,), 'states.cpp', 485),
    ('0210****', 'Code level date stamp:  month %x, day %x', (3, 4), 'elog.cpp', 863),
    ('0210****', 'month %x, day %x', (0, 4), 'elog.cpp', 863),
    ('0210****', 'month %x, day %x', (1, 5), 'elog.cpp', 863),
    ('0210****', 'month %x, day %x', (-1, 99), 'elog.cpp', 863),
    ('0200****', 'This PEROM level = %c%c', (3, 4), 'states.cpp', 254),
    ('0200****', 'This PEROM level = 0x%02X%02X', (4, 3), 'states.cpp', 254),
    ('0200****', 'This PEROM level = 0x%02X%02X', (4,), 'states.cpp', 254),
    ('0143**00', 'New IO bay %d detected on power on.', (3, 4), 'states.cpp', 445),
    ('E3087704', 'Fan Missing - System Fan 1', (), 'sys_fan.cpp', 191),
    ('E30C7704', 'Fan Missing reported', (), 'sys_fan.cpp', 192),
    ('e3087704', 'lower case pattern', (), 'x.cpp', 1),
    ('E3**77**', '%d %d %d %d', (1, 2, 3, 4), 'x.cpp', 2),
    ('********', 'all %s wild', (1,), 'x.cpp', 3),
    ('E*******', '100%% sure %d', (2,), 'x.cpp', 4),
    ('E*******', '100% sure', (), 'x.cpp', 4),
    ('F*******', 'dict %(a)s', (1,), 'x.cpp', 5),
    ('', 'empty pattern', (), 'x.cpp', 6),
    ('E308', 'short pattern', (), 'x.cpp', 7),
    ('E30877041', 'long pattern', (), 'x.cpp', 8),
    ('E308770[45]', 'regex class', (), 'x.cpp', 9),
    ('E3087704|FFFFFFFF', 'regex alt', (), 'x.cpp', 10),
    ('(E3087704', 'bad regex', (), 'x.cpp', 11),
    ('E308+704', 'regex plus', (), 'x.cpp', 12),
    ('-0000001', 'negative', (), 'x.cpp', 13),
    ('0000000*', 'floats %d', (1.0, 4.0, 2.5), 'x.cpp', 14),
    ('0000000*', 'list params %d', [4, 9, 1], 'x.cpp', 15),
    ('0000000*', 'gen params %d', range(0, 7), 'x.cpp', 16),
    ('0000000*', 'none params', None, 'x.cpp', 17),
    ('0000000*', 'str params', ('1',), 'x.cpp', 18),
    (None, 'none pattern', (), 'x.cpp', 19),
    (12345678, 'int pattern', (), 'x.cpp', 20),
    ('1*******', None, (1,), 'x.cpp', 21),
    ('2*******', 5, (), None, None),
    ('3*******', '%c', (1, 1, 1, 1, 1, 1), 'y', '7'),
    ('E*0C****', 'rep %d %d', (True, 2), 'y', 8),
]

fixed_ptes = [0, 1, 0xFFFFFFFF, 0xE3087704, 0xE30C7704, 0xE3087705, 0xE30877AE,
              0xE30823AE, 0xE40877AE, 0xE30A23AE, 0x15A40000, 0x15A00000,
              0x01000005, 0x02100C1F, 0x02004445, 0x0200DEAD, 0x01430100,
              0xE0040000, 0xE0000000, 0xF0040000, 0xD0040000, 0xEFFFFFFF,
              0xEFFBFFFF, 0x00040000, 0x12345678, 0x10000000, 0x30000041,
              0x30000000, 0xE10C0203, 0xE1080203, -1, -0xE3087704,
              0x1E3087704, 0x100000000, 2**64 + 5, True, False]
odd_ptes = [1.0, None, 'E3087704', b'\x00', [1], 2.5, Fraction(3), 1j]
rand_ptes = [rnd.getrandbits(32) for _ in range(40)]
rand_ptes += [0xE0000000 | rnd.getrandbits(28) for _ in range(30)]
rand_ptes += [0xE0040000 | rnd.getrandbits(28) for _ in range(30)]

for i, spec in enumerate(entry_specs):
    holder = {}

    def make(s=spec):
        holder['e'] = ilog.PTETableEntry(*s)
        return holder['e']
    res = case(f'entry[{i}].init', make)
    if res[0] != 'ok':
        continue
    entry = holder['e']
    for pte in fixed_ptes + rand_ptes[:20]:
        case(f'entry[{i}].all({pte!r})', lambda e=entry, p=pte: [
            e.get_message(p), e.matches(p), e._is_exact_match(p),
            e._is_reported_error_pte(p)])
    for pte in odd_ptes:
        case(f'entry[{i}].get_message({pte!r})', entry.get_message, pte)
        case(f'entry[{i}].matches({pte!r})', entry.matches, pte)
        case(f'entry[{i}]._is_exact_match({pte!r})', entry._is_exact_match, pte)
        case(f'entry[{i}]._is_reported({pte!r})', entry._is_reported_error_pte, pte)
    case(f'entry[{i}].after', show_entry, entry)

case('entry_kw', lambda: ilog.PTETableEntry(
    pte_pattern='01******', message_format='kw %d', params=(2,), file='f',
    line=3))
case('entry_badargs', lambda: ilog.PTETableEntry('01******', 'x'))
case('ilog_consts', lambda: [ilog.ILOG_ENTRY_SIZE, ilog.ERROR_MASK,
                             ilog.ERROR_VALUE, ilog.REPORTED_MASK,
                             ilog.REPORTED_VALUE, ilog.TBL_START_RE.pattern,
                             ilog.TBL_ENTRY_RE.pattern, ilog.TBL_END_RE.pattern,
                             ilog.TBL_START_RE.flags, ilog.TBL_ENTRY_RE.flags,
                             ilog.TBL_END_RE.flags])

###########################################################################
# ilog: PTETable with real and synthetic header files
###########################################################################

def table_info(table):
    return [table.header_file_path, len(table.entries),
            [show_entry(e) for e in table.entries],
            sorted(vars(table).keys())]

STD_HDR = [
    'struct pte_entry_struct static_pte_entry_table[PTE_TABLE_SIZE] = ',
    '{',
    '  { "010000**", "Begin power on, node type = 0x%02X", {4}, "states.cpp", 485 },',
    '  { "0101****", "Fan presence 0x%02X, flash = %c", {4, 3}, "fan.cpp", 530 },',
    '  { "01040000", "Power on complete", {}, "states2.cpp", 601 },',
    '  { "E3087704", "Fan Missing - System Fan 1", {}, "sys_fan.cpp", 191 },',
    '  { "E2082690", "P1 IO Bay VRM in \\"N-Mode\\" ", {}, "vrm_monitor.cpp", 145 },',
    '  { "E1******", "Err %d/%d/%d", {2, 3, 4}, "e.cpp", 7 },',
    '  // The following must be the last entry',
    '  { ""        , "The End" }',
    '};',
    '',
    'struct mex_hlog_field',
    '{',
    '    unsigned char size;',
    '    const char * name;',
    '};',
    '',
    'struct mex_hlog_field mex_hlog_fields[MEX_HLOG_FIELD_COUNT] =',
    '{',
    '  { 1, "hl_isolated_standby" },',
    '  { 2, "hl_power_ups" },',
    '  { 1, "hl_net_block_crc_failures" }, ',
    '  { 2, "hl_last" }',
    '};',
]

headers = {}
headers['std'] = '\n'.join(STD_HDR) + '\n'
headers['std_nonl'] = '\n'.join(STD_HDR)
headers['std_crlf'] = '\r\n'.join(STD_HDR) + '\r\n'
headers['std_cr'] = '\r'.join(STD_HDR)
headers['empty'] = ''
headers['blank'] = '\n\n  \n'
headers['ws'] = '\n'.join([
    ' struct  pte_entry_struct  static_pte_entry_table [ PTE_TABLE_SIZE ] =   ',
    ' { ',
    '  {  "010000**" , "Begin power on, node type = 0x%02X  " , { 4 } , "states.cpp" , 485 } , ',
    '  {  "0101****" , "Fan presence 0x%02X, flash = %c  " , { 4 , 3 } , "fan.cpp" , 530 } , ',
    '  {  "01040000" , "  Power on complete  " , {  } , "states2.cpp" , 601 } , ',
    '  {  ""        ,  "The End"  }  ',
    '  }  ;',
    ' static struct   mex_hlog_field   mex_hlog_fields [ MEX_HLOG_FIELD_COUNT ]  = ',
    '  ',
    '  { ',
    '  { 1 , "hl_isolated_standby" }  , ',
    '  ',
    '  { 2 , "hl_power_ups" }  ',
    '  ',
    '  } ;  ']) + '\n'
headers['min'] = '\n'.join([
    'struct pte_entry_struct static_pte_entry_table[]={',
    '{"010000**","Begin power on, node type = 0x%02X",{4},"states.cpp",485},',
    '{"0101****","Fan presence 0x%02X, flash = %c",{4,3},"fan.cpp",530},',
    '{"01040000","Power on complete",{},"states2.cpp",601},',
    '{"","The End"}',
    '};',
    'struct mex_hlog_field mex_hlog_fields[]={',
    '{1,"a"},',
    '{2,"b"}',
    '};']) + '\n'
headers['no_start'] = '\n'.join(STD_HDR[1:]) + '\n'
headers['no_end'] = '\n'.join(l for l in STD_HDR if 'The End' not in l and l != '};') + '\n'
headers['two_tables'] = '\n'.join(STD_HDR + STD_HDR) + '\n'
headers['restart_in_table'] = '\n'.join(STD_HDR[:4] + STD_HDR[:1] + STD_HDR[4:]) + '\n'
headers['end_then_entries'] = '\n'.join(STD_HDR[:3] + [STD_HDR[9]] + STD_HDR[3:]) + '\n'
headers['hlog_first'] = '\n'.join(STD_HDR[12:] + STD_HDR[:12]) + '\n'
headers['hlog_end_in_pte'] = '\n'.join(STD_HDR[:4] + ['};'] + STD_HDR[4:]) + '\n'
headers['pte_end_in_hlog'] = '\n'.join(STD_HDR[:21] + [STD_HDR[9]] + STD_HDR[21:]) + '\n'
headers['bad_entries'] = '\n'.join([
    STD_HDR[0], '{',
    '  { "010000**", "no params", "states.cpp", 485 },',
    '  { "010000**", "alpha line", {4}, "states.cpp", abc },',
    '  { "01000001", "params alpha", {a, b, 4x, 44, 9, 0}, "states.cpp", 1 },',
    '  { "01000002", "neg params %d", {-1, -4}, "states.cpp", 2 },',
    '  { "01000003", "no comma", {} "states.cpp", 3 }',
    '  { "01000004", "missing trailing comma", {}, "states.cpp", 4 }',
    '  { "01000005", "two on line", {}, "a.cpp", 5 }, { "01000006", "x", {}, "b", 6 },',
    '  { "(0100000", "bad regex pattern", {}, "a.cpp", 7 },',
    '  { "01000008", "after bad regex", {}, "a.cpp", 8 },',
    STD_HDR[9], '};']) + '\n'
headers['good_then_odd'] = '\n'.join([
    STD_HDR[0], '{',
    '  { "01000001", "params alpha %d", {a, b, 4x, 44, 9, 0}, "states.cpp", 1 },',
    '  { "01000002", "neg params %d", {-1, -4}, "states.cpp", 2 },',
    '  { "0100****", "unicode éß %d", {٣}, "s.cpp", 3 },',
    '  { "02******", "superscript", {², 3}, "s.cpp", 4 },',
    '  { "03******", "%c%c%c", {1,2,3,4,1,2,3,4}, "s.cpp", 000005 },',
    '  { "04\\"*****", "q", {}, "s.cpp", 6 },',
    '  { "05******", "", {}, "s.cpp", 7 },',
    '  { "06******", "   ", {}, "", 8 },',
    '  { "07******", "tab\there", {\t1\t}, "s.cpp", 9 },\t',
    '  { "E*******", "wild error %02X", {2}, "s.cpp", 10 },',
    STD_HDR[9], '};',
    'struct mex_hlog_field mex_hlog_fields[N] = {',
    '  { 3, "size3" },',
    '  { 1, "" },',
    '  { 1, "ok1" },',
    '  { 2, "ok2" }, { 1, "same_line" },',
    '  { 12, "size12" },',
    '  { 2, "unié" },',
    '  { 1 "nocomma" },',
    '  { 2, "last" }',
    '};']) + '\n'
headers['huge_line_no'] = '\n'.join([
    STD_HDR[0], '{',
    '  { "01000001", "first", {}, "a.cpp", 1 },',
    '  { "01000002", "huge", {}, "a.cpp", ' + '9' * 5000 + ' },',
    '  { "01000003", "after", {}, "a.cpp", 3 },',
    STD_HDR[9], '};']) + '\n'
headers['big_line_no'] = '\n'.join([
    STD_HDR[0], '{',
    '  { "01000002", "big", {}, "a.cpp", ' + '9' * 400 + ' },',
    STD_HDR[9], '};']) + '\n'
for k in (5, 37, 120, 300, 444, 600):
    headers[f'trunc{k}'] = headers['std'][:k]
glines = [rnd.choice(STD_HDR) for _ in range(60)]
headers['shuffled'] = '\n'.join(glines) + '\n'
mut = list(headers['std'])
for _ in range(40):
    mut[rnd.randrange(len(mut))] = rnd.choice('{}",; \n*%ab1')
headers['mutated'] = ''.join(mut)
for s in range(6):
    r2 = random.Random(1000 + s)
    mut = list(headers['std'])
    for _ in range(25):
        mut[r2.randrange(len(mut))] = r2.choice('{}",; \n*%ab1\\')
    headers[f'mutated{s}'] = ''.join(mut)
headers['garbage'] = ''.join(chr(rnd.randrange(32, 127)) if rnd.random() < 0.95
                             else '\n' for _ in range(3000))

header_paths = {}
for name, content in headers.items():
    header_paths[name] = write(f'hdr_{name}.h', content)
header_paths['binary'] = write('hdr_binary.h', bytes(rnd.getrandbits(8) for _ in range(2000)), 'wb')
header_paths['latin1'] = write('hdr_latin1.h', (
    headers['std'][:200] + '\n').encode() + b'  { "01000009", "caf\xe9", {}, "a.cpp", 9 },\n' +
    headers['std'][200:].encode(), 'wb')
header_paths['bad_tail'] = write('hdr_bad_tail.h', headers['std'].encode() + b'\xff\xfe\n' * 3000, 'wb')
header_paths['nul'] = write('hdr_nul.h', headers['std'].replace('Power', 'Po\0wer'))
header_paths['missing'] = os.path.join(WORK, 'does_not_exist', 'x.h')
header_paths['dir'] = WORK
header_paths['mex'] = MEX_H
header_paths['nimitz'] = NIM_H
os.mkdir(os.path.join(WORK, 'sub'))
shutil = __import__('shutil')
shutil.copy(header_paths['std'], os.path.join(WORK, 'sub', 'rel.h'))
header_paths['relative'] = os.path.join('sub', 'rel.h')

tables = {}
for name, path in header_paths.items():
    def mk(p=path, n=name):
        tables[n] = ilog.PTETable(p)
        return table_info(tables[n])
    case(f'table[{name}]', mk)
    case(f'hlog_fields[{name}]', lambda p=path: [
        [type(f).__name__, f.name, f.size, tuple(f), f._fields]
        for f in hlog.get_hlog_fields(p)])
for i, bad in enumerate([None, 5, b'x', '', ['a']]):
    case(f'table_badpath[{i}]', lambda b=bad: table_info(ilog.PTETable(b)))
    case(f'hlog_badpath[{i}]', hlog.get_hlog_fields, bad)

# Partial state after a failing parse (entries added before the failure)
for name in ('huge_line_no', 'bad_tail', 'bad_entries', 'latin1', 'binary'):
    def partial(n=name):
        t = ilog.PTETable(header_paths['std'])
        t.header_file_path = header_paths[n]
        t.entries = []
        try:
            t._parse_header_file()
            status = 'ok'
        except Exception as e:
            status = type(e).__name__ + ': ' + str(e)
        return [status, table_info(t)]
    case(f'table_partial[{name}]', partial)

# Re-parse appends to existing entries
def reparse():
    t = ilog.PTETable(header_paths['std'])
    r = t._parse_header_file()
    t.header_file_path = header_paths['min']
    r2 = t._parse_header_file()
    return [r, r2, table_info(t)]
case('table_reparse', reparse)

# get_entry on the tables
probe_ptes = list(fixed_ptes) + rand_ptes
for tname in ('mex', 'nimitz'):
    t = tables.get(tname)
    if t is not None:
        for e in t.entries[::7]:
            txt = ''.join(rnd.choice('0123456789ABCDEF') if c == '*' else c
                          for c in e.pte_pattern)
            try:
                v = int(txt, 16)
            except ValueError:
                continue
            probe_ptes.append(v)
            if (v & 0xF0000000) == 0xE0000000:
                probe_ptes.append(v | 0x00040000)
                probe_ptes.append(v & ~0x00040000)

def entry_lookup(t, p):
    e = t.get_entry(p)
    if e is None:
        return None
    return [t.entries.index(e), e.pte_pattern, e.get_message(p)]

for tname, t in tables.items():
    ptes = probe_ptes if tname in ('mex', 'nimitz', 'std', 'good_then_odd') \
        else probe_ptes[:60]
    for k in range(0, len(ptes), 20):
        case(f'get_entry[{tname}][{k}]', lambda t=t, ps=ptes[k:k + 20]:
             [entry_lookup(t, p) for p in ps])
    for p in odd_ptes[:4]:
        case(f'get_entry[{tname}]({p!r})', entry_lookup, t, p)

# _add_entry directly
add_fields = [
    ('01040000', 'Power on complete', '', 'states.cpp', '601'),
    ('100100**', 'PS%d - Faults Cleared    ', ' 4 ', 'mps.cpp', '759'),
    ('2065****', 'IO Bay %d type = %d', ' 3 , 4 ', 'vpd_col.cpp', '2635'),
    ('E2082690', r'P1 IO Bay VRM in \"N-Mode\" ', '', 'vrm_monitor.cpp', '145'),
    ('15D10000', 'POP non-volatile storage update', '', 'nvs.cpp'),
    ('15D10000', 'six', '', 'nvs.cpp', '1', 'extra'),
    (),
    ('15D10000', 'bad line', '', 'nvs.cpp', 'abc'),
    ('15D10000', 'neg line', '', 'nvs.cpp', '-12'),
    ('15D10000', 'space line', '', 'nvs.cpp', ' 12 '),
    ('15D10000', 'int line', '', 'nvs.cpp', 12),
    ('15D10000', 'float line', '', 'nvs.cpp', 12.7),
    ('15D10000', 'none line', '', 'nvs.cpp', None),
    ('15D10000', 'multi digit params', '12, 34', 'nvs.cpp', '5'),
    ('15D10000', 'odd params', '1,x,²,٣,4', 'nvs.cpp', '5'),
    ('15D10000', None, '1', 'nvs.cpp', '5'),
    ('15D10000', None, '1', 'nvs.cpp', 'zz'),
    ('15D10000', 'none params', None, 'nvs.cpp', '5'),
    ('15D10000', 'list params', ['1', '22', 'x', '4'], 'nvs.cpp', '5'),
    ('15D10000', 'int params', 14, 'nvs.cpp', '5'),
    ('(bad', 'bad regex', '', 'nvs.cpp', '5'),
    (None, 'none pattern', '', 'nvs.cpp', '5'),
    (None, None, None, None, None),
    ['01040001', 'list fields', '2', 'l.cpp', '77'],
    ('01040002', b'bytes msg', '2', 'l.cpp', '78'),
    ('01040003', '  \\"quoted\\"  ', '2', None, '79'),
    'abcde',
    'abcd5',
    None,
    5,
]
def add_seq():
    out = []
    t = ilog.PTETable(header_paths['empty'])
    for f in add_fields:
        try:
            r = t._add_entry(f)
            status = ['ok', repr(r)]
        except Exception as e:
            status = ['exc', type(e).__name__, str(e)]
        out.append([status, len(t.entries),
                    show_entry(t.entries[-1]) if t.entries else None])
    return out
case('add_entry_seq', add_seq)
for i, f in enumerate(add_fields):
    def add_one(f=f):
        t = ilog.PTETable(header_paths['empty'])
        r = t._add_entry(f)
        return [repr(r), table_info(t)]
    case(f'add_entry[{i}]', add_one)

###########################################################################
# Binary ilog / hlog data
###########################################################################

def ilog_rec(ts, seq, pte):
    return struct.pack('>HHI', ts & 0xFFFF, seq & 0xFFFF, pte & 0xFFFFFFFF)

datas = {}
datas['empty'] = b''
for n in (1, 2, 3, 4, 7):
    datas[f'short{n}'] = bytes(range(1, n + 1))
datas['one'] = ilog_rec(0x1960, 0x0012, 0x01040000)
datas['one_plus3'] = datas['one'] + b'\x01\x02\x03'
datas['one_plus7'] = datas['one'] + b'\x01\x02\x03\x04\x05\x06\x07'
datas['zeros8'] = bytes(8)
datas['zeros64'] = bytes(64)
datas['zeros9'] = bytes(9)
datas['ff64'] = b'\xff' * 64
datas['partial_zero'] = (ilog_rec(0, 0, 1) + ilog_rec(0, 1, 0) + ilog_rec(1, 0, 0) +
                         ilog_rec(0, 0, 0) + ilog_rec(0xFFFF, 0, 0) + ilog_rec(0xFFFE, 0xFFFF, 0xFFFFFFFF))
seq = 0
blob = b''
for p in probe_ptes:
    if isinstance(p, int) and not isinstance(p, bool):
        blob += ilog_rec(rnd.choice([0, 5, 0x3C, 0x1960, 0xFFFE, 0xFFFF, rnd.getrandbits(16)]), seq, p)
        seq += 1
datas['known'] = blob
datas['known_trunc'] = blob[:len(blob) // 2 + 3]
datas['known_shift1'] = blob[1:]
datas['known_gaps'] = b''.join(blob[i:i + 8] + (bytes(8) if (i // 8) % 3 == 0 else b'')
                               for i in range(0, len(blob), 8))
for s in range(8):
    r2 = random.Random(500 + s)
    datas[f'rand{s}'] = bytes(r2.getrandbits(8) for _ in range(r2.randrange(0, 400)))
corrupt = bytearray(blob[:800])
for _ in range(60):
    corrupt[rnd.randrange(len(corrupt))] = rnd.getrandbits(8)
datas['corrupt'] = bytes(corrupt)
datas['hlog_like'] = bytes([0, 0, 1, 0, 5, 0, 0, 0xAB, 0xCD] + [0] * 30 + [7] * 40)

ilog_headers = ['mex', 'nimitz', 'std', 'good_then_odd', 'empty', 'missing',
                'bad_entries', 'huge_line_no', 'binary', 'ws', 'relative']
for dname, d in datas.items():
    for hname in ilog_headers:
        if hname not in ('mex', 'nimitz', 'std') and dname.startswith('rand') and dname != 'rand0':
            continue
        case(f'parse_ilog[{dname}][{hname}]',
             ilog.parse_ilog_data, memoryview(d), header_paths[hname])
        case(f'parse_hlog[{dname}][{hname}]',
             hlog.parse_hlog_data, memoryview(d), header_paths[hname])

# Other data container types
alt = datas['known'][:160] + b'\x01\x02\x03'
containers = {
    'bytes': alt,
    'bytearray': bytearray(alt),
    'list': list(alt),
    'tuple': tuple(alt),
    'list_bad': list(alt[:16]) + [300] + list(alt[:16]),
    'list_neg': list(alt[:10]) + [-1] + list(alt[:16]),
    'mv_H': memoryview(alt[:160]).cast('H'),
    'mv_I': memoryview(alt[:160]).cast('I'),
    'mv_b': memoryview(alt[:160]).cast('b'),
    'mv_2d': memoryview(alt[:160]).cast('B', (20, 8)),
    'mv_slice': memoryview(alt)[3:150],
    'mv_step': memoryview(alt)[::2],
    'mv_bytearray': memoryview(bytearray(alt)),
    'str': 'abcdefgh' * 3,
    'none': None,
    'int': 5,
    'range': range(0, 40),
}
# Note: mappings (e.g. a dict) are deliberately not used as 'data'.  They are
# outside the domain of the API (memoryview/bytes-like/sequence); the only
# observable effect there is the slice repr inside the KeyError message, which
# depends on how many bytes are requested per read.
for cname, c in containers.items():
    for hname in ('std', 'mex', 'missing'):
        case(f'parse_ilog_container[{cname}][{hname}]',
             ilog.parse_ilog_data, c, header_paths[hname])
        case(f'parse_hlog_container[{cname}][{hname}]',
             hlog.parse_hlog_data, c, header_paths[hname])
case('parse_ilog_kw', lambda: ilog.parse_ilog_data(
    data=memoryview(datas['one']), header_file_path=header_paths['std']))
case('parse_hlog_kw', lambda: hlog.parse_hlog_data(
    data=memoryview(datas['one']), header_file_path=header_paths['std']))
case('hlog_consts', lambda: [hlog.HLOG_START_RE.pattern, hlog.HLOG_FIELD_RE.pattern,
                             hlog.HLOG_END_RE.pattern, hlog.HLOG_START_RE.flags,
                             hlog.HistoryLogField._fields,
                             hlog.HistoryLogField('n', 2),
                             hlog.HistoryLogField(name='n', size=2).size])

# Returned list must be a fresh, independent list on each call
def fresh():
    a = ilog.parse_ilog_data(memoryview(datas['one']), header_paths['std'])
    a.append('junk')
    a[0] = 'changed'
    b = ilog.parse_ilog_data(memoryview(datas['one']), header_paths['std'])
    h1 = hlog.parse_hlog_data(memoryview(datas['one']), header_paths['std'])
    h1.clear()
    h2 = hlog.parse_hlog_data(memoryview(datas['one']), header_paths['std'])
    f1 = hlog.get_hlog_fields(header_paths['std'])
    f1.append(1)
    f2 = hlog.get_hlog_fields(header_paths['std'])
    return [a, b, h1, h2, len(f1), len(f2), type(a).__name__, type(f2).__name__]
case('fresh_lists', fresh)

###########################################################################
# m2c00 user data parser (as used by peltool), incl. repeated decodes
###########################################################################

ud_datas = ['empty', 'short3', 'one', 'one_plus3', 'zeros64', 'known',
            'known_trunc', 'rand1', 'rand2', 'corrupt', 'hlog_like', 'ff64']
for sub_type in (72, 73, 84, 0, 1, 255):
    for version in (0, 1, 2, 3):
        for dname in ud_datas:
            case(f'm2c00[{sub_type}][{version}][{dname}]',
                 m2c00.parseUDToJson, sub_type, version, memoryview(datas[dname]))
for rep in range(3):
    case(f'm2c00_repeat[{rep}]', lambda: [
        m2c00.parseUDToJson(73, 1, memoryview(datas['known'])),
        m2c00.parseUDToJson(72, 2, memoryview(datas['hlog_like'])),
        m2c00.parseUDToJson(73, 2, memoryview(datas['corrupt'])),
        m2c00.parseUDToJson(73, 9, memoryview(datas['one'])),
        m2c00.parseUDToJson(72, 1, memoryview(datas['rand3']))])

###########################################################################
# dump module (ILOG data followed by trace buffers)
###########################################################################

def trace_buf(name, payload):
    hdr = b'\x02\x20\x01\x42' + name.encode().ljust(12, b'\0') + bytes(4)
    hdr += struct.pack('>III', 32 + len(payload), 0, 32 + len(payload))
    return hdr + payload

dumps = {
    'ilog_only': datas['known'][:400],
    'ilog_trace': datas['known'][:240] + trace_buf('POWR', datas['rand4'][:96]) +
                  trace_buf('INFO', datas['rand5'][:64]),
    'trace_only': trace_buf('FANS', datas['rand6'][:50]),
    'ilog_odd_trace': datas['known'][:243] + trace_buf('ERRL', b''),
    'rand': datas['rand7'],
    'zeros': bytes(100),
}
string_file = drawer_type.MEX_DRAWER_TYPE.get_trace_string_file_path()
for dname, d in dumps.items():
    for hname in ('mex', 'nimitz', 'std', 'missing', 'binary'):
        case(f'dump_data[{dname}][{hname}]', dump.parse_dump_data,
             memoryview(d), header_paths[hname], string_file)

case('workdir_files', lambda: sorted(os.listdir(WORK)))
case('optimize_flag', lambda: sys.flags.optimize)

json.dump(RESULTS, sys.stdout)
'''

###############################################################################
# Builders for CLI inputs
###############################################################################


def ilog_rec(ts, seq, pte):
    return struct.pack('>HHI', ts & 0xFFFF, seq & 0xFFFF, pte & 0xFFFFFFFF)


def trace_buf(name, payload):
    hdr = b'\x02\x20\x01\x42' + name.encode().ljust(12, b'\0') + bytes(4)
    hdr += struct.pack('>III', 32 + len(payload), 0, 32 + len(payload))
    return hdr + payload


def bcd(n):
    return ((n // 10) << 4) | (n % 10)


def section_header(sid, length, version, sub_type, comp_id):
    return sid.encode() + struct.pack('>HBBH', length, version, sub_type,
                                      comp_id)


def build_pel(creator, sections, section_count=None, eid=0x50000001):
    """
    Builds a binary PEL with a private header, a user header and the given
    list of (section_id, version, sub_type, comp_id, data) sections.
    """
    ts = bytes([bcd(20), bcd(24), bcd(6), bcd(7), bcd(12), bcd(34), bcd(56),
                bcd(78)])
    count = len(sections) + 2 if section_count is None else section_count
    ph = section_header('PH', 48, 1, 0, 0x2C00)
    ph += ts + ts + creator.encode() + bytes([0, 0, count])
    ph += struct.pack('>I', 0x1234) + struct.pack('>Q', 0x3130303000000000)
    ph += struct.pack('>II', 0x50000001, eid)
    assert len(ph) == 48
    uh = section_header('UH', 24, 1, 0, 0x2C00)
    uh += bytes([0x7C, 0x03, 0x40, 0x00]) + bytes(4)
    uh += bytes([0, 0]) + struct.pack('>H', 0x8000) + struct.pack('>I', 0)
    assert len(uh) == 24
    out = ph + uh
    for (sid, version, sub_type, comp_id, data) in sections:
        out += section_header(sid, 8 + len(data), version, sub_type, comp_id)
        out += data
    return out


def hexdump_bmc(data):
    lines = []
    for i in range(0, len(data), 16):
        chunk = data[i:i + 16].ljust(16, b'\0')
        words = ' '.join(chunk[j:j + 4].hex().upper() for j in range(0, 16, 4))
        text = ''.join(chr(b) if 0x20 <= b < 0x7f else '.' for b in chunk)
        lines.append(f'{i:04X}:  {words}  <{text}>')
    return '\n'.join(lines) + '\n'


def hexdump_old(data):
    lines = []
    for i in range(0, len(data), 16):
        chunk = data[i:i + 16].ljust(16, b'\0')
        hx = ' '.join(f'{b:02X}' for b in chunk)
        text = ''.join(chr(b) if 0x20 <= b < 0x7f else '.' for b in chunk)
        lines.append(f'{hx} {text}')
    return '\n'.join(lines) + '\n'


STD_HEADER = '''struct pte_entry_struct static_pte_entry_table[PTE_TABLE_SIZE] =
{
  { "010000**", "Begin power on, node type = 0x%02X", {4}, "states.cpp", 485 },
  { "0101****", "Fan presence 0x%02X, flash = %c", {4, 3}, "fan.cpp", 530 },
  { "01040000", "Power on complete", {}, "states2.cpp", 601 },
  { "E3087704", "Fan Missing - System Fan 1", {}, "sys_fan.cpp", 191 },
  { "E1******", "Err %d/%d/%d", {2, 3, 4}, "e.cpp", 7 },
  { ""        , "The End" }
};
struct mex_hlog_field mex_hlog_fields[MEX_HLOG_FIELD_COUNT] =
{
  { 1, "hl_isolated_standby" },
  { 2, "hl_power_ups" }
};
'''


def make_cli_inputs(work):
    """
    Creates the dump files / PEL files used for the CLI runs.  Returns a list
    of (case_name, argv_tail, kind) where kind is 'dump' or 'peltool'.
    """
    rnd = random.Random(4242)
    ptes = [0x01040000, 0x01000005, 0x0101AB43, 0xE3087704, 0xE30C7704,
            0xE1010203, 0xE1050203, 0x12345678, 0, 0xFFFFFFFF, 0x15A00000,
            0x02004445, 0x0210051F, 0x10010002, 0x20650103]
    ptes += [rnd.getrandbits(32) for _ in range(40)]
    ilog = b''.join(ilog_rec(rnd.choice([0, 59, 3600, 0xFFFE, 0xFFFF,
                                         rnd.getrandbits(16)]), i, p)
                    for i, p in enumerate(ptes))
    ilog += bytes(16)
    rand_blob = bytes(rnd.getrandbits(8) for _ in range(333))
    hlog = bytes([0, 1, 0, 2, 0, 0, 0xAB, 0xCD] + [0] * 20 +
                 [rnd.getrandbits(8) for _ in range(60)])
    trace = trace_buf('POWR', rand_blob[:96])

    dumps = {
        'ilog_only': ilog,
        'ilog_trace': ilog + trace + trace_buf('INFO', rand_blob[100:180]),
        'rand': rand_blob,
        'short': ilog[:5],
    }
    cases = []

    def put(name, content, binary=False):
        path = os.path.join(work, name)
        with open(path, 'wb' if binary else 'w') as f:
            f.write(content)
        return path

    hdr = put('cli_std.h', STD_HEADER)
    bad_hdr = put('cli_bad.h', b'\xff\xfe\x00\x01' * 100, binary=True)
    for dname, d in dumps.items():
        p_bmc = put(f'dump_{dname}_bmc.txt', hexdump_bmc(d))
        p_old = put(f'dump_{dname}_old.txt', hexdump_old(d))
        for fmt, p in (('bmc', p_bmc), ('old', p_old)):
            for t in ('mex', 'nimitz'):
                cases.append((f'dumpcli[{dname}][{fmt}][{t}]',
                              [p, '-t', t], 'dump'))
            cases.append((f'dumpcli[{dname}][{fmt}][custom]',
                          [p, '-t', 'mex', '-d', hdr], 'dump'))
        cases.append((f'dumpcli[{dname}][missing_hdr]',
                      [p_bmc, '-t', 'nimitz', '-d',
                       os.path.join(work, 'nope.h')], 'dump'))
        cases.append((f'dumpcli[{dname}][bad_hdr]',
                      [p_bmc, '-t', 'mex', '-d', bad_hdr], 'dump'))
    cases.append(('dumpcli[nofile]', [os.path.join(work, 'nofile.txt'),
                                      '-t', 'mex'], 'dump'))
    cases.append(('dumpcli[badtype]', [os.path.join(work, 'nofile.txt'),
                                       '-t', 'zzz'], 'dump'))
    garbage = put('dump_garbage.txt', 'this is not a hex dump\n' * 5)
    cases.append(('dumpcli[garbage]', [garbage, '-t', 'mex'], 'dump'))

    # PELs with I/O drawer (creator 'M', component 0x2C00) user data
    pels = {}
    for version in (1, 2, 3):
        pels[f'all_v{version}'] = build_pel('M', [
            ('UD', version, 72, 0x2C00, hlog),
            ('UD', version, 73, 0x2C00, ilog),
            ('UD', version, 84, 0x2C00, trace),
            ('UD', version, 1, 0x2C00, rand_blob[:40]),
        ])
    pels['ilog_rand'] = build_pel('M', [('UD', 1, 73, 0x2C00, rand_blob)])
    pels['ilog_short'] = build_pel('M', [('UD', 2, 73, 0x2C00, ilog[:5])])
    pels['ilog_odd'] = build_pel('M', [('UD', 2, 73, 0x2C00, ilog[:83])])
    pels['ilog_empty'] = build_pel('M', [('UD', 1, 73, 0x2C00, b''),
                                         ('UD', 1, 72, 0x2C00, b'')])
    pels['hlog_short'] = build_pel('M', [('UD', 1, 72, 0x2C00, hlog[:3])])
    pels['hlog_rand'] = build_pel('M', [('UD', 2, 72, 0x2C00, rand_blob)])
    pels['other_creator'] = build_pel('O', [('UD', 1, 73, 0x2C00, ilog)])
    pels['other_comp'] = build_pel('M', [('UD', 1, 73, 0x2D00, ilog)])
    full = pels['all_v1']
    pels['truncated_mid_ud'] = full[:len(full) - 50]
    pels['truncated_hdr'] = full[:60]
    pels['count_too_big'] = build_pel('M', [('UD', 1, 73, 0x2C00, ilog)],
                                      section_count=5)
    corrupt = bytearray(full)
    for _ in range(30):
        corrupt[rnd.randrange(72, len(corrupt))] = rnd.getrandbits(8)
    pels['corrupt'] = bytes(corrupt)
    pels['random'] = bytes(rnd.getrandbits(8) for _ in range(500))
    pel_dir = os.path.join(work, 'pels')
    os.mkdir(pel_dir)
    for i, (pname, pdata) in enumerate(pels.items()):
        path = put(f'pel_{pname}.bin', pdata, binary=True)
        for opts in ([], ['-P'], ['-x'], ['-s'], ['-N']):
            if opts and pname not in ('all_v1', 'all_v2', 'corrupt',
                                      'ilog_rand'):
                continue
            cases.append((f'peltool[{pname}]{opts}', ['-f', path] + opts,
                          'peltool'))
    for i, pname in enumerate(('all_v1', 'all_v2', 'ilog_rand', 'hlog_rand',
                               'truncated_mid_ud')):
        eid = 0x50000010 + i
        data = pels[pname]
        data = data[:44] + struct.pack('>I', eid) + data[48:]
        put(os.path.join('pels', f'{eid:08X}.pel'), data, binary=True)
    cases.append(('peltool[dir -a]', ['-p', pel_dir, '-a', '-e', '.pel'],
                  'peltool'))
    cases.append(('peltool[dir -l]', ['-p', pel_dir, '-l', '-e', '.pel'],
                  'peltool'))
    cases.append(('peltool[dir -n]', ['-p', pel_dir, '-n', '-e', '.pel'],
                  'peltool'))
    cases.append(('peltool[dir -i]', ['-p', pel_dir, '-i', '50000011', '-e',
                                      '.pel'], 'peltool'))
    out_dir = os.path.join(work, 'json_out')
    cases.append(('peltool[dir -j -o]', ['-p', pel_dir, '-a', '-j', '-o',
                                         out_dir, '-e', '.pel'], 'peltool'))
    return cases


###############################################################################
# Runner
###############################################################################


def snapshot(path):
    """Returns {relative file name: content bytes} for all files below path."""
    result = {}
    for dirpath, dirnames, filenames in os.walk(path):
        dirnames.sort()
        for d in dirnames:
            result[os.path.relpath(os.path.join(dirpath, d), path) + '/'] = ''
        for f in sorted(filenames):
            full = os.path.join(dirpath, f)
            with open(full, 'rb') as fh:
                result[os.path.relpath(full, path)] = fh.read().hex()
    return result


def run_tree(root, optimize, scratch):
    """
    Runs driver and CLI cases against one tree.  Returns dict name -> output.
    """
    root = os.path.realpath(root)
    results = {}
    env = dict(os.environ)
    env['PYTHONPATH'] = os.path.join(root, 'modules')
    env['PYTHONDONTWRITEBYTECODE'] = '1'
    env['PYTHONHASHSEED'] = '0'
    env.pop('PYTHONOPTIMIZE', None)
    flags = ['-O'] if optimize else []

    def norm(text, work):
        return text.replace(root, '<ROOT>').replace(work, '<WORK>')

    # In-process driver
    work = tempfile.mkdtemp(prefix='drv_', dir=scratch)
    driver_path = os.path.join(scratch, 'driver.py')
    with open(driver_path, 'w') as f:
        f.write(DRIVER)
    proc = subprocess.run([PY] + flags + [driver_path, root, work],
                          env=env, cwd=work, capture_output=True, text=True,
                          timeout=1800)
    if proc.returncode != 0:
        results['driver_failed'] = [proc.returncode, norm(proc.stderr, work)]
        print(proc.stderr, file=sys.stderr)
    else:
        for name, out in json.loads(proc.stdout):
            assert name not in results, name
            results[name] = out
    results['driver_stderr'] = norm(proc.stderr, work)
    shutil.rmtree(work)

    # Command line tools
    work = tempfile.mkdtemp(prefix='cli_', dir=scratch)
    cases = make_cli_inputs(work)
    scripts = {
        'dump': os.path.join(root, 'modules', 'io_drawer', 'dump.py'),
        'peltool': os.path.join(root, 'modules', 'pel', 'peltool',
                                'peltool.py'),
    }
    for name, argv, kind in cases:
        proc = subprocess.run([PY] + flags + [scripts[kind]] + argv, env=env,
                              cwd=work, capture_output=True, timeout=600)
        assert name not in results, name
        results[name] = [proc.returncode,
                         norm(proc.stdout.decode('utf-8', 'replace'), work),
                         norm(proc.stderr.decode('utf-8', 'replace'), work)]
    results['cli_files_after'] = snapshot(work)
    shutil.rmtree(work)
    return results


def main():
    if len(sys.argv) != 3:
        print(__doc__)
        sys.exit(2)
    pristine, patched = sys.argv[1], sys.argv[2]
    scratch = tempfile.mkdtemp(prefix='diffcheck_')
    total = 0
    differences = []
    try:
        for optimize in (False, True):
            a = run_tree(pristine, optimize, scratch)
            b = run_tree(patched, optimize, scratch)
            if 'driver_failed' in a or 'driver_failed' in b:
                differences.append(('driver_failed', a.get('driver_failed'),
                                    b.get('driver_failed')))
            for name in sorted(set(a) | set(b)):
                total += 1
                if a.get(name) != b.get(name):
                    differences.append((f'O={int(optimize)} {name}',
                                        a.get(name), b.get(name)))
    finally:
        shutil.rmtree(scratch, ignore_errors=True)

    if differences:
        for name, x, y in differences[:40]:
            print(f'DIFFERENT: {name}')
            print(f'  pristine: {json.dumps(x)[:1500]}')
            print(f'  patched : {json.dumps(y)[:1500]}')
        print(f'DIFFERENT ({len(differences)} of {total} cases)')
        sys.exit(1)
    print(f'IDENTICAL ({total} cases)')
    sys.exit(0)


if __name__ == '__main__':
    main()
