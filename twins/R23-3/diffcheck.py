#!/usr/bin/env python
"""
Differential check for refactorings of

    modules/pel/datastream.py, modules/pel/hexdump.py and
    modules/pel/peltool/{private_header,user_header,extend_user_header,
        failing_mtms,imp_partition,default,user_data,ext_user_data,
        parse_user_data}.py

usage: diffcheck.py <pristine_root> <patched_root>

The script runs the very same set of cases against both source trees (each in
its own subprocess with PYTHONPATH pointing into the tree, with and without
`python -O`) and compares everything observable: return values, exception
type and text, the stream position afterwards, the attribute values of the
section objects, the plug-in cache, stdout / stderr / exit status of the
peltool CLI and the files it creates or removes.

Prints "IDENTICAL (<n> cases)" and exits 0 if nothing differs, exits 1
otherwise.
"""
import json
import os
import random
import shutil
import struct
import subprocess
import sys
import tempfile
from concurrent.futures import ThreadPoolExecutor

PY = sys.executable
SEED = 20261003


# --------------------------------------------------------------------------
# builders for binary PEL data (shared by driver and CLI part)
# --------------------------------------------------------------------------

def sec_header(sid, length, version=1, subtype=0, comp=0x2000):
    if isinstance(sid, str):
        sid = (ord(sid[0]) << 8) | ord(sid[1])
    return struct.pack('>HHBBH', sid, length & 0xffff, version, subtype, comp)


def bcd_time(rnd):
    return bytes([0x20, rnd.choice([0x21, 0x22, 0x99]), rnd.choice([1, 0x12]),
                  rnd.choice([1, 0x28]), rnd.choice([0, 0x23]),
                  rnd.choice([0, 0x59]), rnd.choice([0, 0x59]), 0x42])


def ph_body(rnd, creator=b'O', count=2, logid=1, plid=0x50000001,
            eid=0x50000001):
    return (bcd_time(rnd) + bcd_time(rnd) + creator + b'\x00\x00' +
            bytes([count & 0xff]) + struct.pack('>I', logid) +
            b'\x00\x00\x00\x00\x00\x00\x00\x07' + struct.pack('>II', plid, eid))


def uh_body(subsys=0x10, scope=3, sev=0x40, etype=0, domain=0, vector=0,
            flags=0xA000, states=0x0201):
    return struct.pack('>BBBBIBBHI', subsys, scope, sev, etype, 0, domain,
                       vector, flags, states)


def eh_body(rnd, symptom=b'BD8D1001_00000055\x00\x00\x00'):
    return (b'9105-22A' + b'SN1234567\x00\x00\x00' +
            b'fw1030.00-1\x00\x00\x00\x00\x00' + b'hb-abcdef\x00\x00\x00\x00\x00\x00\x00' +
            b'\x00\x00\x00\x00' + bcd_time(rnd) + b'\x00\x00\x00' +
            bytes([len(symptom)]) + symptom)


def mt_body():
    return b'9105-22A' + b'SN7654321\x00\x00\x00'


def lp_body(part=0x0102, name=b'lpar-one\x00\x00\x00\x00', lps=(1, 2, 3),
            logid=0x11223344):
    b = struct.pack('>HBBI', part, len(name), len(lps), logid) + name
    for lp in lps:
        b += struct.pack('>H', lp)
    if len(lps) % 2:
        b += b'\x00\x00'
    return b


def section(sid, body, version=1, subtype=0, comp=0x2000, length=None):
    if length is None:
        length = len(body) + 8
    return sec_header(sid, length, version, subtype, comp) + body


def build_pel(rnd, creator=b'O', sections=(), sev=0x40, flags=0xA000,
              logid=1, eid=0x50000001, plid=0x50000001, count=None,
              ph_comp=0x2000, uh_comp=0x2000):
    if count is None:
        count = 2 + len(sections)
    pel = section('PH', ph_body(rnd, creator, count, logid, plid, eid),
                  comp=ph_comp)
    pel += section('UH', uh_body(sev=sev, flags=flags), comp=uh_comp)
    for s in sections:
        pel += s
    return pel


def std_sections(rnd):
    txt = b'line one\nline\ttwo \x01\x7f~\n\nlast line\x00\x00'
    js = json.dumps({"Key": "Value", "N": 5, "L": [1, 2]}).encode() + b'\x00\x00'
    return [
        section('EH', eh_body(rnd)),
        section('MT', mt_body()),
        section('UD', js, subtype=1),
        section('UD', txt, subtype=3),
        section('UD', bytes(range(40)), subtype=2),
        section('UD', b'[1, 2, "x"]\x00', subtype=1),
        section('UD', b'{not json', subtype=1),
        section('UD', bytes(rnd.randrange(256) for _ in range(37)), subtype=4),
        section('UD', bytes(rnd.randrange(256) for _ in range(21)),
                subtype=9, comp=0x1234),
        section('ED', b'B\x00\x00\x00' + bytes(range(0x30, 0x50)), comp=0x0100),
        section('ED', b'O\x00\x00\x00' + b'{"a": {"b": 1}}', subtype=1),
        section('ED', b'M\x00\x00\x00' +
                bytes(rnd.randrange(256) for _ in range(64)), comp=0x2C00,
                subtype=1),
        section('UD', bytes(rnd.randrange(256) for _ in range(48)),
                comp=0xE500, subtype=1),
        section('LP', lp_body()),
        section('LP', lp_body(name=b'', lps=())),
        section('LP', lp_body(name=b'ab\x00\x00', lps=(7, 8))),
        section('XX', bytes(rnd.randrange(256) for _ in range(33))),
        section('DH', b'dump-location\x00\x00\x00'),
    ]


def pel_corpus(rnd):
    """Returns a list of (name, bytes)."""
    out = []
    secs = std_sections(rnd)
    good = build_pel(rnd, sections=secs)
    out.append(('good_all', good))
    out.append(('good_min', build_pel(rnd)))
    combos = [(0x00, 0x8000), (0x00, 0x0000), (0x40, 0xA000), (0x40, 0x6000),
              (0x40, 0x0000), (0x10, 0x2000), (0x51, 0xA000), (0x20, 0x4000),
              (0x71, 0xFFFF), (0x63, 0x2120)]
    for n, (sev, flags) in enumerate(combos):
        cre = [b'O', b'B', b'H', b'M', b'X'][n % 5]
        pick = [secs[i] for i in sorted(rnd.sample(range(len(secs)), 5))]
        out.append(('sev%02X_%04X' % (sev, flags),
                    build_pel(rnd, creator=cre, sections=pick, sev=sev,
                              flags=flags, logid=10 + n,
                              eid=0x50000010 + n, plid=0x50000010 + n // 2,
                              ph_comp=[0x2000, 0x4141, 0x4100, 0x0041,
                                       0xE500][n % 5])))
    # truncated
    for cut in (0, 1, 7, 8, 20, 47, 48, 49, 56, 60, 71, 72, 73, 80, 100, 150,
                len(good) - 1, len(good) - 30):
        out.append(('trunc%04d' % cut, good[:cut]))
    # section count too big / too small
    out.append(('count_big', build_pel(rnd, sections=secs[:3], count=9)))
    out.append(('count_small', build_pel(rnd, sections=secs[:5], count=4)))
    out.append(('count_one', build_pel(rnd, sections=secs[:5], count=1)))
    # bad section lengths
    out.append(('ud_len4', build_pel(rnd, sections=[section('UD', b'', length=4)])))
    out.append(('ud_len8', build_pel(rnd, sections=[section('UD', b'', length=8)])))
    out.append(('ed_len8', build_pel(rnd, sections=[section('ED', b'', length=8)])))
    out.append(('ed_len12', build_pel(rnd, sections=[section('ED', b'O\0\0\0', length=12)])))
    out.append(('xx_len8', build_pel(rnd, sections=[section('XX', b'', length=8)])))
    out.append(('ud_len_big', build_pel(rnd, sections=[section('UD', b'abc', length=200)])))
    out.append(('eh_sym0', build_pel(rnd, sections=[section('EH', eh_body(rnd, b''))])))
    out.append(('eh_symbig', build_pel(rnd, sections=[section('EH', eh_body(rnd, b'ab')[:-3] + b'\x40')])))
    out.append(('eh_utf8', build_pel(rnd, sections=[section('EH', b'\xff' + eh_body(rnd)[1:])])))
    out.append(('mt_utf8', build_pel(rnd, sections=[section('MT', b'9105\xc3\x28AA' + b'S' * 12)])))
    out.append(('mt_short', build_pel(rnd, sections=[section('MT', b'9105-22ASN')])))
    out.append(('lp_odd', build_pel(rnd, sections=[section('LP', lp_body(lps=(5,)))])))
    out.append(('lp_short', build_pel(rnd, sections=[section('LP', lp_body(lps=(5, 6, 7))[:-3])])))
    out.append(('lp_utf8', build_pel(rnd, sections=[section('LP', lp_body(name=b'\xfe\xfdxx'))])))
    out.append(('bad_ph', b'XX' + good[2:]))
    out.append(('bad_uh', good[:48] + b'ZZ' + good[50:]))
    out.append(('creator_utf8', good[:24] + b'\xff' + good[25:]))
    out.append(('empty', b''))
    # corrupted copies
    for n in range(14):
        b = bytearray(good)
        for _ in range(rnd.choice([1, 2, 5, 20])):
            b[rnd.randrange(len(b))] = rnd.randrange(256)
        out.append(('corrupt%02d' % n, bytes(b)))
    for n in range(4):
        out.append(('random%02d' % n,
                    bytes(rnd.randrange(256) for _ in range(rnd.randrange(10, 300)))))
    return out


# --------------------------------------------------------------------------
# driver: runs inside a subprocess with PYTHONPATH=<root>/modules
# --------------------------------------------------------------------------

def norm(x):
    from collections import OrderedDict
    if isinstance(x, memoryview):
        try:
            return ['mv', x.tobytes().hex()]
        except Exception as e:
            return ['mv?', repr(e)]
    if isinstance(x, (bytes, bytearray)):
        return [type(x).__name__, bytes(x).hex()]
    if isinstance(x, OrderedDict):
        return ['od', [[norm(k), norm(v)] for k, v in x.items()]]
    if isinstance(x, dict):
        return ['d', [[norm(k), norm(v)] for k, v in x.items()]]
    if isinstance(x, (list, tuple)):
        return [type(x).__name__, [norm(v) for v in x]]
    if x is None or isinstance(x, (bool, int, float, str)):
        return [type(x).__name__, x if not isinstance(x, float) else repr(x)]
    return ['obj', type(x).__name__, repr(x)]


def guarded(fn):
    try:
        return ['ok', norm(fn())]
    except SystemExit as e:
        return ['exit', repr(e.code)]
    except BaseException as e:
        return ['exc', type(e).__name__, str(e)]


def obj_state(o):
    d = {}
    for k, v in vars(o).items():
        if k == 'stream':
            continue
        d[k] = norm(v)
    return sorted(d.items())


def install_fake_plugins():
    import types
    import json as _json

    def mk(name, fn):
        full = 'udparsers.%s.%s' % (name, name)
        m = types.ModuleType(full)
        if fn is not None:
            m.parseUDToJson = fn
        pkg = types.ModuleType('udparsers.%s' % name)
        pkg.__path__ = []
        sys.modules['udparsers.%s' % name] = pkg
        sys.modules[full] = m

    def raiser(exc):
        def f(subType, version, mv):
            raise exc
        return f

    calls = []

    def good(subType, version, mv):
        calls.append((subType, version, len(mv)))
        return _json.dumps({"Sub": subType, "Ver": version,
                            "Hex": bytes(mv).hex(), "Calls": len(calls)})

    mk('b1111', good)
    mk('b2222', lambda s, v, mv: _json.dumps([s, v, bytes(mv).hex()]))
    mk('b3333', lambda s, v, mv: 'this is \u00e9 not json {' + bytes(mv).hex())
    mk('b4444', lambda s, v, mv: None)
    mk('b5555', lambda s, v, mv: 'null')
    mk('b6666', raiser(ValueError('boom \u2603 value')))
    mk('b7777', raiser(ImportError('late import error')))
    sys.modules['udparsers.b8888'] = types.ModuleType('udparsers.b8888')
    sys.modules['udparsers.b8888'].__path__ = []
    sys.modules['udparsers.b8888.b8888'] = None
    mk('b9999', None)
    mk('baaaa', lambda s, v, mv: {"already": "dict"})
    mk('bbbbb', lambda s, v, mv: b'{"from": "bytes"}')
    mk('bcccc', lambda s, v, mv: b'bytes not json')
    mk('bdddd', lambda s, v, mv: '"scalar"')
    mk('beeee', lambda s, v, mv: '')
    mk('bffff', lambda s, v, mv: ' null')
    mk('b0001', lambda s, v, mv: '\ud800')
    mk('b0002', raiser(KeyError('k')))
    mk('b0003', lambda s, v, mv: 17)
    mk('h4142', lambda s, v, mv: _json.dumps({"phyp": True}))
    mk('o2000', lambda s, v, mv: _json.dumps({"never": "used"}))
    mk('o2001', lambda s, v, mv: _json.dumps({"bmc other comp": v}))


PLUGIN_COMPS = [0x1111, 0x2222, 0x3333, 0x4444, 0x5555, 0x6666, 0x7777,
                0x8888, 0x9999, 0xAAAA, 0xBBBB, 0xCCCC, 0xDDDD, 0xEEEE,
                0xFFFF, 0x0001, 0x0002, 0x0003, 0x0004]


def driver(outfile):
    rnd = random.Random(SEED)
    res = []

    def rec(cid, val):
        res.append([cid, val])

    from pel.datastream import DataStream
    from pel import hexdump as hd
    from pel.peltool.config import Config

    def rbytes(n):
        return bytes(rnd.randrange(256) for _ in range(n))

    # ---------------------------------------------------------------- A
    datas = [b'', b'A', bytes(range(16)), bytes(range(17)), bytes(range(256)),
             b'hello world, this is text ~ \x7f\x80\x1f\x20', rbytes(31),
             rbytes(33), rbytes(64), rbytes(100), rbytes(5)]
    params = [(16, 4), (8, 2), (1, 1), (256, 256), (16, 3), (5, 7), (7, 5),
              (3, 1), (32, 8), (16, 16), (16, 1), (256, 1), (0, 4), (257, 2),
              (8, 0), (8, 257), (16, -4), (-16, 4), (16, 4.0), (16.0, 4),
              (16, 2.5), ('16', 4), (16, '4'), (None, 4), (16, None), (2, 3)]
    n = 0
    for d in datas:
        for p in params:
            for wrap in (memoryview, bytes):
                if wrap is bytes and p not in params[:4]:
                    continue
                rec('hexdump/%d' % n,
                    guarded(lambda: hd.hexdump(wrap(d), *p)))
                n += 1
    odd = [bytearray(b'xyz\x00\xff'), [65, 66, 300, 0x41], [1, -1, 2],
           [65, 0x110000, 66], [65, 'a'], 'abc', [1.5, 2], None, 5,
           memoryview(b'abcdefgh').cast('H'), memoryview(b'abcdefgh').cast('b'),
           memoryview(struct.pack('4f', 1, 2, 3, 4)).cast('f'),
           memoryview(bytes(range(200, 232))).cast('b'),
           [0x20, -1, 'a'], [0x20, 'a', -1], (1, 2, 3), range(40, 90),
           [True, False], [0x10ffff, 0x7e, 0x7f, 0x1f, 0x20]]
    for i, d in enumerate(odd):
        for p in [(16, 4), (4, 2), (2, 1)]:
            rec('hexdump-odd/%d/%s' % (i, p),
                guarded(lambda: hd.hexdump(d, *p)))
    rec('hexdump-default-fmt', norm(hd.DEFAULT_LINE_FORMAT))
    rec('hexdump-kw', guarded(lambda: hd.hexdump(
        data=memoryview(b'0123456789'), bytes_per_chunk=3, bytes_per_line=7)))

    # ---------------------------------------------------------------- B
    hexchars = '0123456789abcdefABCDEF'
    alphabet = hexchars + ' gGxX|.-:\t\n\u00e9\u0661\uff11'
    n = 0

    def p_case(lines, *fmt):
        nonlocal n
        rec('parse/%d' % n, guarded(lambda: hd.parse(lines, *fmt)))
        n += 1

    for d in datas:
        lines = hd.hexdump(memoryview(d))
        p_case(lines)
        p_case([ln + '\n' for ln in lines])
        p_case([ln.lower() for ln in lines])
        p_case([ln.rstrip() for ln in lines])
        p_case([ln[:rnd.randrange(len(ln) + 1)] for ln in lines])
        p_case([ln + ' extra' for ln in lines])
        p_case(['junk', ''] + lines + ['', 'more junk line that is long '
                                       'enough to exceed the format length by far'])
        for _ in range(6):
            mut = []
            for ln in lines:
                ln = list(ln)
                for _ in range(rnd.choice([0, 1, 1, 2, 4])):
                    if ln:
                        ln[rnd.randrange(len(ln))] = rnd.choice(alphabet)
                mut.append(''.join(ln))
            p_case(mut)
        l8 = hd.hexdump(memoryview(d), 8, 2)
        p_case(l8, 'AAAAAAAA     DDDD  DDDD  DDDD  DDDD     CCCCCCCC')
        p_case(l8)
    fmts = ['DD DD DD DD', 'AAAA: DDDD DDDD |CCCC|', 'D-D', 'D D', 'AD', '',
            'DDDDDDDD', 'XDDX', 'CCDD', 'DDD', 'A' * 4 + 'D' * 64,
            list('DD DD'), tuple('AADD'), 'dd', 'ADC' * 10]
    for f in fmts:
        for _ in range(25):
            ln = ''.join(rnd.choice(alphabet if rnd.random() < .3 else hexchars + ' ')
                         for _ in range(rnd.randrange(0, len(f) + 3)))
            p_case([ln], f)
        p_case(['12 34 56 78', 'ab cd ef 01\n', 'AB CD EF 0', 'AB CD EF', '1'], f)
        p_case(['0000: 1234 abcd |....|', '0004: 12'], f)
        p_case(['1-2', '1 2', '12', ' 12', 'X12X', '\n', '\n\n', '1\n2'], f)
    for _ in range(150):
        lines = [''.join(rnd.choice(alphabet) for _ in range(rnd.randrange(0, 80)))
                 for _ in range(rnd.randrange(0, 4))]
        p_case(lines)
    p_case([b'00000000     DEADBEEF'])
    p_case([None])
    p_case(None)
    p_case('00000000     DEADBEEF')
    p_case(['00000000     DEADBEEF'], None)
    p_case(['00000000     DEADBEEF'], 5)
    p_case(('00000000     DEADBEEF  0011', '00000010     AA'))
    p_case(iter(['00000000     DEADBEEF  0011']))
    p_case(['\u0661\u0662345678     DEADBEEF'])
    p_case(['00000000     \uff11\uff12ADBEEF'])
    p_case(['00000000     DEADBEEF  BADC0FFE  42414443  30464645     ........BADC0FFE\n\n'])

    # ---------------------------------------------------------------- C
    ds_data = bytes(range(0xf0, 0x100)) + bytes(range(0x10))
    ctor = [('big', False), ('little', False), ('big', True), ('little', True),
            (None, None), ('big', None), (None, False), ('middle', False),
            ('big', 0), ('big', 1)]
    nums = [1, 2, 4, 8, 3, 0, -1, 16, 31, 32, 33, 100, 1.0, 2.5, True]
    for ci, (bo, sg) in enumerate(ctor):
        for wrap in (bytes, memoryview, bytearray):
            for rep in range(4):
                s = DataStream(wrap(ds_data), bo, sg)
                log = []
                for step in range(14):
                    op = rnd.choice(['int', 'int', 'int2', 'mem', 'inc', 'chk'])
                    nb = rnd.choice(nums)
                    if op == 'int':
                        r = guarded(lambda: s.get_int(nb))
                    elif op == 'int2':
                        kw = {}
                        if rnd.random() < .7:
                            kw['byte_order'] = rnd.choice(['big', 'little', None, 'x'])
                        if rnd.random() < .7:
                            kw['is_signed'] = rnd.choice([True, False, None])
                        r = guarded(lambda: s.get_int(nb, **kw))
                        op = 'int2%r' % sorted(kw.items())
                    elif op == 'mem':
                        r = guarded(lambda: s.get_mem(nb))
                    elif op == 'inc':
                        r = guarded(lambda: s.inc_index(nb))
                    else:
                        r = guarded(lambda: s.check_range(nb))
                        if r[0] == 'ok':
                            r.append(guarded(lambda: type(s.check_range(nb)).__name__))
                    log.append([op, repr(nb), r, s.index, s.size])
                rec('datastream/%d/%s/%d' % (ci, wrap.__name__, rep), log)
    s = DataStream(ds_data, byte_order='little', is_signed=True)
    rec('datastream-attrs', [norm(s.data), s.size, s.index, s.byte_order,
                             s.is_signed])
    rec('datastream-posargs', guarded(lambda: DataStream(memoryview(ds_data), 'big', False).get_int(4, 'little', True)))
    rec('datastream-nolen', guarded(lambda: DataStream(5)))

    # ---------------------------------------------------------------- D
    from pel.peltool.private_header import PrivateHeader, getTimestamp
    from pel.peltool.user_header import UserHeader
    from pel.peltool.extend_user_header import ExtendedUserHeader
    from pel.peltool.failing_mtms import FailingMTMS
    from pel.peltool.imp_partition import ImpactedPartition
    from pel.peltool.default import Default
    from pel.peltool.user_data import UserData
    from pel.peltool.ext_user_data import ExtUserData
    from pel.peltool import parse_user_data as pud
    import pel.peltool.comp_id as comp_id

    # a deterministic component id table (the registry package is absent)
    comp_id.attemptedToParseCompIDs = True
    comp_id.componentIDs['O'] = {"2000": "bmc-logging", "E500": "hwdiags"}
    comp_id.componentIDs['B'] = {"0100": "hb-comp"}

    install_fake_plugins()

    def streams_for(payload):
        yield 'bytes-big-u', DataStream(payload, 'big', False)

    def streams_all(payload):
        yield 'bytes-big-u', DataStream(payload, 'big', False)
        yield 'bytes-little-s', DataStream(payload, 'little', True)
        yield 'mv-big-u', DataStream(memoryview(payload), 'big', False)
        yield 'bytes-none', DataStream(payload)
        yield 'bytearray-big-s', DataStream(bytearray(payload), 'big', True)

    creators = ['O', 'B', 'H', 'M', 'X', '', '\u00e9', 'o']
    comps = [0x2000, 0x0100, 0x4142, 0x4100, 0x0041, 0, 0xE500, 0xFFFF, 0xabc]

    def hdr(i):
        return dict(sectionID=0x5544 + (i % 3), sectionLen=0,
                    versionID=[1, 2, 0, 255][i % 4], subType=[0, 1, 3, 170][(i // 2) % 4],
                    componentID=comps[i % len(comps)])

    def run_section(cid, cls, stream, kw, jsonargs=(), twice=False,
                    extra=None):
        out = []
        holder = {}

        def make():
            holder['o'] = cls(stream, **kw)
            return None
        r = guarded(make)
        out.append(['ctor', r, stream.index])
        if 'o' in holder:
            o = holder['o']
            out.append(['state0', obj_state(o)])
            for rep in range(2 if twice else 1):
                out.append(['toJSON', guarded(lambda: o.toJSON(*jsonargs)),
                            stream.index, obj_state(o)])
                if extra:
                    out.append(['extra', extra(o)])
        rec(cid, out)

    # getTimestamp
    for i in range(40):
        payload = rbytes(rnd.randrange(0, 20))
        for sn, st in streams_all(payload):
            rec('getTimestamp/%d/%s' % (i, sn),
                [guarded(lambda: getTimestamp(st)), st.index])
    rec('getTimestamp-fixed', guarded(lambda: getTimestamp(
        DataStream(bytes.fromhex('2022030818402799ff'), 'big', False))))

    # PrivateHeader
    for i in range(120):
        full = ph_body(rnd, creator=rnd.choice([b'O', b'B', b'H', b'M', b'Z', b'\xff', b'\x00', b'\xc3']),
                       count=rnd.randrange(256), logid=rnd.randrange(2 ** 32),
                       plid=rnd.randrange(2 ** 32), eid=rnd.randrange(2 ** 32))
        if i % 3 == 1:
            full = rbytes(40)
        if i % 3 == 2:
            full = full[:rnd.randrange(0, 41)]
        if i % 10 == 0:
            full = full + full + rbytes(7)
        kw = hdr(i)
        gen = streams_all(full) if i % 4 == 0 else streams_for(full)
        for sn, st in gen:
            run_section('PrivateHeader/%d/%s' % (i, sn), PrivateHeader, st, kw,
                        twice=(i % 10 == 0))
    for cut in range(0, 41):
        st = DataStream(ph_body(rnd)[:cut], 'big', False)
        run_section('PrivateHeader-cut/%d' % cut, PrivateHeader, st, hdr(cut))

    # UserHeader
    def uh_extra(o):
        return [guarded(o.isHidden), guarded(o.isServiceable)]
    sevs = [0x00, 0x10, 0x20, 0x40, 0x51, 0x63, 0x71, 0xff, 0x01]
    flagv = [0, 0x8000, 0x4000, 0x2000, 0x6000, 0xA000, 0xC000, 0xE000,
             0xFFFF, 0x1D20, 0x0001]
    i = 0
    for sev in sevs:
        for fl in flagv:
            body = uh_body(subsys=rnd.randrange(256), scope=rnd.randrange(6),
                           sev=sev, etype=rnd.choice([0, 1, 2, 4, 8, 0x10, 0x55]),
                           domain=rnd.randrange(256), vector=rnd.randrange(256),
                           flags=fl, states=rnd.choice([0, 1, 0x0201, 0x0303, 0xffffffff, 0x00020500]))
            kw = hdr(i)
            kw['creatorID'] = creators[i % len(creators)]
            gen = streams_all(body) if i % 5 == 0 else streams_for(body)
            for sn, st in gen:
                run_section('UserHeader/%d/%s' % (i, sn), UserHeader, st, kw,
                            extra=uh_extra, twice=(i % 7 == 0))
            i += 1
    for cut in range(0, 17):
        kw = hdr(cut)
        kw['creatorID'] = 'O'
        st = DataStream(uh_body()[:cut], 'big', False)
        run_section('UserHeader-cut/%d' % cut, UserHeader, st, kw, extra=uh_extra)
    for i in range(60):
        kw = hdr(i)
        kw['creatorID'] = creators[i % len(creators)]
        st = DataStream(rbytes(rnd.choice([16, 16, 16, 20, 40, 12])), 'big', False)
        run_section('UserHeader-rnd/%d' % i, UserHeader, st, kw, extra=uh_extra,
                    twice=(i % 4 == 0))
    # isHidden / isServiceable on fresh objects with set attributes
    o = UserHeader(DataStream(b'', 'big', False), 1, 2, 3, 4, 5, 'O')
    rec('UserHeader-fresh', [obj_state(o), uh_extra(o)])
    for sev in sevs:
        for fl in flagv:
            o.eventSeverity = sev
            o.actionFlags = fl
            rec('UserHeader-flags/%x/%x' % (sev, fl), uh_extra(o))

    # ExtendedUserHeader
    for i in range(120):
        sym = rnd.choice([b'', b'A', b'BD8D1001_00000055\x00\x00\x00',
                          b'\x00\x00\x00\x00', b'\xffabc', rbytes(8),
                          b'x' * 80, b' sp \x00'])
        full = eh_body(rnd, sym)
        if i % 4 == 1:
            full = rbytes(len(full))
        if i % 4 == 2:
            full = full[:rnd.randrange(0, len(full) + 1)]
        if i % 4 == 3:
            b = bytearray(full)
            b[rnd.randrange(len(b))] = rnd.randrange(256)
            full = bytes(b)
        if i % 9 == 0:
            full = full + eh_body(rnd, b'second\x00\x00')
        kw = hdr(i)
        kw['creatorID'] = creators[i % len(creators)]
        gen = streams_all(full) if i % 6 == 0 else streams_for(full)
        for sn, st in gen:
            run_section('ExtUserHeader/%d/%s' % (i, sn), ExtendedUserHeader, st,
                        kw, twice=(i % 9 == 0))
    base = eh_body(rnd)
    for cut in range(0, len(base) + 1):
        kw = hdr(cut)
        kw['creatorID'] = 'O'
        run_section('ExtUserHeader-cut/%d' % cut, ExtendedUserHeader,
                    DataStream(base[:cut], 'big', False), kw)

    # FailingMTMS
    for i in range(80):
        full = rnd.choice([mt_body(), rbytes(20), b'\x00' * 20,
                           b'\x00AB\x00CD\x00\x00' + b'\x00S\x00N' + b'\x00' * 8,
                           b'9105\xc3\x28AA' + b'S' * 12,
                           b'9105-22A' + b'S' * 10 + b'\xe2\x82'])
        if i % 3 == 2:
            full = full[:rnd.randrange(0, 21)]
        if i % 8 == 0:
            full = full + mt_body()
        kw = hdr(i)
        kw['creatorID'] = creators[i % len(creators)]
        gen = streams_all(full) if i % 6 == 0 else streams_for(full)
        for sn, st in gen:
            run_section('FailingMTMS/%d/%s' % (i, sn), FailingMTMS, st, kw,
                        twice=(i % 8 == 0))

    # ImpactedPartition
    i = 0
    for name in [b'', b'a', b'lpar\x00\x00', b'\x00\x00', b'\xff\xfe', b'n' * 255,
                 b' pad \x00\x00\x00']:
        for lps in [(), (1,), (1, 2), (0xffff, 0, 7), tuple(range(255)),
                    tuple(range(8))]:
            full = lp_body(part=rnd.randrange(65536), name=name, lps=lps,
                           logid=rnd.randrange(2 ** 32))
            variants = [full, full + rbytes(5), full[:-1], full[:-2],
                        full[:len(full) // 2], full[:9], full[:8], full[:7]]
            for vi, v in enumerate(variants):
                kw = hdr(i)
                kw['creatorID'] = creators[i % len(creators)]
                gen = streams_all(v) if i % 11 == 0 else streams_for(v)
                for sn, st in gen:
                    run_section('ImpPartition/%d/%d/%s' % (i, vi, sn),
                                ImpactedPartition, st, kw,
                                twice=(vi == 1 and len(lps) < 9))
                i += 1
    for i in range(80):
        kw = hdr(i)
        kw['creatorID'] = creators[i % len(creators)]
        run_section('ImpPartition-rnd/%d' % i, ImpactedPartition,
                    DataStream(rbytes(rnd.randrange(0, 60)), 'big', False), kw,
                    twice=(i % 5 == 0))

    # Default
    for i in range(60):
        payload = rbytes(rnd.randrange(0, 70))
        kw = hdr(i)
        kw['sectionLen'] = rnd.choice([len(payload) + 8, len(payload) + 8,
                                       8, 7, 0, 9, len(payload) + 9,
                                       max(9, len(payload))])
        gen = streams_all(payload) if i % 5 == 0 else streams_for(payload)
        for sn, st in gen:
            run_section('Default/%d/%s' % (i, sn), Default, st, kw,
                        twice=(i % 5 == 0))

    # ---------------------------------------------------------------- E
    def cfg(allow):
        c = Config()
        c.allow_plugins = allow
        return c

    def cache_state():
        return sorted((k, v is None) for k, v in pud.userDataParsers.items())

    text_datas = [
        b'', b'\x00', b'   ', b'{"a": 1}', b'  {"a": [1, 2, {"b": null}]}  \x00\x00',
        b'[1,2,3]\x00', b'"str"', b'null', b'17', b'{bad json\x00',
        b'line1\nline2\n', b'line1\nline2', b'\n\n\n', b'\nlead', b'a\n\nb\n \n',
        b'tab\there\x01\x02\x7f~ \n\x00end', b'caf\xc3\xa9 \xe2\x98\x83\nnext',
        b'\xff\xfe\x00', b'a\x00b\nc\x00\x00', b'trail  \n  \x00',
        b'\x00\x00lead nul', b'a\rb\r\nc\x0b\x0cd\x1c\x85e',
        b'x\xe2\x80\xa8y\xc2\x85z\n', bytes(range(0x20, 0x7f)),
        bytes(range(0, 0x80)), b'{"Data": "clash", "Section Version": 9}',
        b'NaN', b'{"a": NaN}', b'1e999', b'\xef\xbb\xbf{"bom": 1}',
        b' \t\n{"ws": 1}\n\t \x00\x00\x00', b'{"dup": 1, "dup": 2}',
    ] + [rbytes(rnd.randrange(1, 50)) for _ in range(10)] \
      + [bytes(rnd.choice(b'ab \n\n\t\x00~\x7f\x1f{}[]":,1') for _ in range(rnd.randrange(1, 30)))
         for _ in range(25)]

    n = 0
    for data in text_datas:
        for sub in (1, 2, 3, 4, 0, 5):
            for allow in (True, False):
                for wrap in ((bytes,) if n % 3 else (bytes, memoryview)):
                    p = pud.ParseUserData('O', 0x2000, sub, n % 4, wrap(data))
                    rec('pud-builtin/%d' % n,
                        [guarded(lambda: p.parse(cfg(allow))),
                         guarded(p.getBuiltinFormatJSON),
                         obj_state(p)])
                    n += 1
    n = 0
    plugin_datas = [b'', b'\x01\x02\x03', b'printable data 123', rbytes(40)]
    for rnd_round in range(2):
        for cre in ['B', 'b', 'O', 'H', 'X', '', 'BB']:
            for comp in PLUGIN_COMPS + [0x2000, 0x2001, 0x4142, 0x2C00, 0xE500]:
                if cre not in ('B', 'b') and comp in PLUGIN_COMPS[2:]:
                    continue
                for data in plugin_datas:
                    for allow in (True, False):
                        sub = rnd.choice([0, 1, 2, 3, 4, 0x55])
                        ver = rnd.choice([0, 1, 2])
                        p = pud.ParseUserData(cre, comp, sub, ver, data)
                        r1 = guarded(lambda: p.parse(cfg(allow)))
                        r2 = guarded(p.parseCustom)
                        rec('pud-plugin/%d' % n, [r1, r2, cache_state()])
                        n += 1
    # real plug-ins shipped with the package
    for comp, cre in ((0x2C00, 'M'), (0xE500, 'O')):
        for i in range(25):
            data = rbytes(rnd.randrange(0, 80))
            p = pud.ParseUserData(cre, comp, rnd.randrange(0, 6), rnd.randrange(3), data)
            rec('pud-real/%X/%d' % (comp, i),
                [guarded(lambda: p.parse(cfg(True))), cache_state()])
    rec('pud-get_value', [guarded(lambda: pud.get_value(memoryview(b'\x01\x02\x03\x04'), 1, 2)),
                          guarded(lambda: pud.get_value(b'\x01\x02', 0, 9))])
    rec('pud-enum', [[m.name, m.value] for m in pud.UserDataFormat])
    rec('pud-badcfg', guarded(lambda: pud.ParseUserData('B', 0x1111, 1, 1, b'x').parse(None)))
    rec('pud-badcfg2', guarded(lambda: pud.ParseUserData('O', 0x2000, 1, 1, b'{}').parse(None)))
    rec('pud-none-creator', guarded(lambda: pud.ParseUserData(None, 0x1111, 1, 1, b'x').parse(cfg(True))))
    rec('pud-str-comp', guarded(lambda: pud.ParseUserData('B', '1111', 1, 1, b'x').parse(cfg(True))))
    rec('pud-str-data', guarded(lambda: pud.ParseUserData('O', 0x2000, 1, 1, 'text').parse(cfg(True))))
    rec('pud-none-data', [guarded(lambda: pud.ParseUserData('O', 0x2000, s, 1, None).parse(cfg(True)))
                          for s in (1, 2, 3, 4)])
    rec('pud-none-data2', [guarded(lambda: pud.ParseUserData('B', 0x1111, 1, 1, None).parse(cfg(a)))
                           for a in (True, False)])

    # UserData / ExtUserData sections
    n = 0
    for rnd_round in range(2):
        for cre in ['B', 'O', 'H', 'X']:
            for comp in PLUGIN_COMPS + [0x2000, 0x2001, 0x4142]:
                if cre != 'B' and comp in PLUGIN_COMPS[3:]:
                    continue
                for data in [b'\x01\x02\x03', b'{"a": 1}\x00', b'l1\nl2\x00', b'']:
                    for allow in (True, False):
                        kw = dict(sectionID=0x5544, sectionLen=len(data) + 8,
                                  versionID=n % 3, subType=[1, 3, 2, 7][n % 4],
                                  componentID=comp, creatorID=cre)
                        st = DataStream(data + b'tail', 'big', False)
                        run_section('UserData/%d' % n, UserData, st, kw,
                                    jsonargs=(cfg(allow),), twice=(n % 6 == 0))
                        kw = dict(kw)
                        del kw['creatorID']
                        kw['sectionLen'] = len(data) + 12
                        st = DataStream(cre.encode() + bytes([n % 256, 0, n % 7]) + data + b'tail', 'big', False)
                        run_section('ExtUserData/%d' % n, ExtUserData, st, kw,
                                    jsonargs=(cfg(allow),), twice=(n % 6 == 0))
                        rec('cache/%d' % n, cache_state())
                        n += 1
    for data in text_datas:
        for sub in (1, 3):
            kw = dict(sectionID=0x5544, sectionLen=len(data) + 8, versionID=1,
                      subType=sub, componentID=0x2000, creatorID='O')
            run_section('UserData-bmc/%d' % n, UserData,
                        DataStream(data, 'big', False), kw, jsonargs=(cfg(True),))
            kw = dict(kw)
            del kw['creatorID']
            kw['sectionLen'] = len(data) + 12
            run_section('ExtUserData-bmc/%d' % n, ExtUserData,
                        DataStream(b'O\x00\x00\x00' + data, 'big', False), kw,
                        jsonargs=(cfg(True),))
            n += 1
    for i in range(60):
        payload = rbytes(rnd.randrange(0, 40))
        slen = rnd.choice([len(payload) + 8, len(payload) + 12, 8, 12, 0, 11,
                           13, len(payload) + 20, 4])
        for cls in (UserData, ExtUserData):
            kw = dict(sectionID=0x5544, sectionLen=slen, versionID=1,
                      subType=i % 5, componentID=comps[i % len(comps)])
            if cls is UserData:
                kw['creatorID'] = creators[i % len(creators)]
            gen = streams_all(payload) if i % 4 == 0 else streams_for(payload)
            for sn, st in gen:
                run_section('%s-rnd/%d/%s' % (cls.__name__, i, sn), cls, st, kw,
                            jsonargs=(cfg(i % 2 == 0),))
    run_section('UserData-nocfg', UserData, DataStream(b'abcd', 'big', False),
                dict(sectionID=1, sectionLen=12, versionID=1, subType=1,
                     componentID=0x1111, creatorID='B'), jsonargs=(None,))

    # ---------------------------------------------------------------- F
    # whole PELs through peltool.parsePEL / parsePELSummary in-process
    import io
    import contextlib
    from pel.peltool import peltool

    def run_pel(data, conf, summary=False):
        so, se = io.StringIO(), io.StringIO()
        st = DataStream(data, byte_order='big', is_signed=False)
        with contextlib.redirect_stdout(so), contextlib.redirect_stderr(se):
            if summary:
                r = guarded(lambda: peltool.parsePELSummary(st, conf))
            else:
                r = guarded(lambda: peltool.parsePEL(st, conf, False))
        return [r, st.index, so.getvalue(), se.getvalue()]

    crnd = random.Random(SEED + 1)
    corpus = pel_corpus(crnd)
    every = Config()
    every.every_pel = True
    noplug = Config()
    noplug.every_pel = True
    noplug.allow_plugins = False
    default = Config()
    for name, data in corpus:
        rec('pel/%s/every' % name, run_pel(data, every))
        rec('pel/%s/noplug' % name, run_pel(data, noplug))
        rec('pel/%s/default' % name, run_pel(data, default))
        rec('pel/%s/summary' % name, run_pel(data, every, summary=True))
    good = corpus[0][1]
    for cut in range(0, len(good), 1 if len(good) < 400 else 3):
        rec('pel-cut/%d' % cut, run_pel(good[:cut], every))
    for i in range(400):
        b = bytearray(good)
        for _ in range(rnd.choice([1, 1, 2, 3, 8])):
            b[rnd.randrange(len(b))] = rnd.randrange(256)
        rec('pel-flip/%d' % i, run_pel(bytes(b), every if i % 3 else noplug))
    for i in range(60):
        secs = std_sections(rnd)
        rnd.shuffle(secs)
        data = build_pel(rnd, creator=rnd.choice([b'O', b'B', b'H', b'M']),
                         sections=secs[:rnd.randrange(0, len(secs))],
                         sev=rnd.choice(sevs), flags=rnd.choice(flagv))
        rec('pel-shuffle/%d' % i, run_pel(data, every))
        rec('pel-shuffle-default/%d' % i, run_pel(data, default))

    with open(outfile, 'w') as f:
        json.dump(res, f)


# --------------------------------------------------------------------------
# parent
# --------------------------------------------------------------------------

def run_driver(root, opt, workdir, tag):
    outfile = os.path.join(workdir, 'api_%s.json' % tag)
    env = dict(os.environ)
    env['PYTHONPATH'] = os.path.join(root, 'modules')
    env['PYTHONHASHSEED'] = '0'
    env['PYTHONDONTWRITEBYTECODE'] = '1'
    cmd = [PY] + (['-O'] if opt else []) + [os.path.abspath(__file__),
                                             '--driver', outfile]
    p = subprocess.run(cmd, env=env, cwd=workdir, capture_output=True,
                       text=True)
    if p.returncode != 0:
        print('driver failed for %s:\n%s\n%s' % (tag, p.stdout, p.stderr))
        sys.exit(1)
    with open(outfile) as f:
        return json.load(f), p.stdout.replace(root, '<ROOT>'), \
            p.stderr.replace(root, '<ROOT>')


def norm_stderr(text, root):
    text = text.replace(root, '<ROOT>')
    if 'Traceback (most recent call last)' in text:
        text = '\n'.join(l for l in text.split('\n')
                         if not l.startswith(' '))
    return text


def snapshot(d):
    out = {}
    for base, _, files in os.walk(d):
        for f in files:
            p = os.path.join(base, f)
            with open(p, 'rb') as fd:
                out[os.path.relpath(p, d)] = fd.read().hex()
    return sorted(out.items())


def run_cli(root, opt, args, cwd, data_dirs=()):
    env = dict(os.environ)
    env['PYTHONPATH'] = os.path.join(root, 'modules')
    env['PYTHONHASHSEED'] = '0'
    env['PYTHONDONTWRITEBYTECODE'] = '1'
    cmd = [PY] + (['-O'] if opt else []) + \
        [os.path.join(root, 'modules', 'pel', 'peltool', 'peltool.py')] + args
    p = subprocess.run(cmd, env=env, cwd=cwd, capture_output=True)
    return [p.returncode, p.stdout.decode('utf-8', 'replace'),
            norm_stderr(p.stderr.decode('utf-8', 'replace'), root),
            [snapshot(d) for d in data_dirs]]


def main():
    if len(sys.argv) == 3 and sys.argv[1] == '--driver':
        driver(sys.argv[2])
        return 0
    if len(sys.argv) != 3:
        print(__doc__)
        return 2
    roots = [os.path.abspath(sys.argv[1]), os.path.abspath(sys.argv[2])]
    work = tempfile.mkdtemp(prefix='diffcheck_R23_')
    ncases = 0
    diffs = []
    try:
        # ---------------- API level
        jobs = {}
        with ThreadPoolExecutor(max_workers=4) as ex:
            for ri, root in enumerate(roots):
                for opt in (False, True):
                    jobs[(ri, opt)] = ex.submit(run_driver, root, opt, work,
                                                '%d_%d' % (ri, opt))
        for opt in (False, True):
            a, ao, ae = jobs[(0, opt)].result()
            b, bo, be = jobs[(1, opt)].result()
            if (ao, ae) != (bo, be):
                diffs.append('driver stdout/stderr differ (opt=%s)' % opt)
            if len(a) != len(b):
                diffs.append('number of driver cases differ (opt=%s)' % opt)
            for (ida, ra), (idb, rb) in zip(a, b):
                ncases += 1
                if ida != idb or ra != rb:
                    diffs.append('API case %s (opt=%s):\n   pristine: %s\n   patched:  %s'
                                 % (ida, opt, json.dumps(ra)[:600],
                                    json.dumps(rb)[:600]))

        # ---------------- CLI level
        crnd = random.Random(SEED + 1)
        corpus = pel_corpus(crnd)
        src_dir = os.path.join(work, 'corpus')
        os.mkdir(src_dir)
        for i, (name, data) in enumerate(corpus):
            ext = '.pel' if i % 4 else '.bin'
            with open(os.path.join(src_dir, name + ext), 'wb') as f:
                f.write(data)
        files = sorted(os.listdir(src_dir))

        # single file, read-only -> may run in parallel
        single = []
        for i, f in enumerate(files):
            p = os.path.join(src_dir, f)
            single.append(['-f', p])
            if i % 2 == 0:
                single.append(['-f', p, '-P'])
            if i % 3 == 0:
                single.append(['-f', p, '-x'])
            if i % 5 == 0:
                single.append(['-P', '-x', '-f', p])

        def both(args, opt):
            return [run_cli(r, opt, args, work) for r in roots]

        with ThreadPoolExecutor(max_workers=8) as ex:
            futs = []
            for opt in (False, True):
                for args in single:
                    if opt and len(args) > 2:
                        continue
                    futs.append((args, opt, ex.submit(both, args, opt)))
            for args, opt, fu in futs:
                ra, rb = fu.result()
                ncases += 1
                if ra != rb:
                    diffs.append('CLI %s (opt=%s):\n   pristine: %r\n   patched:  %r'
                                 % (args, opt, ra, rb))

        # directory based, possibly modifying -> fresh copy per run, same path
        pdir = os.path.join(work, 'pels')
        odir = os.path.join(work, 'out')
        dir_cmds = [
            ['-l'], ['-l', '-E'], ['-l', '-r', '-E'], ['-l', '-H', '-O'],
            ['-l', '-N'], ['-l', '-s', '-S', 'Informational'],
            ['-l', '-S', 'Unrecoverable', 'Predictive', '-O'], ['-l', '-t'],
            ['-l', '-E', '-x'], ['-l', '-e', '.bin', '-E'],
            ['-a'], ['-a', '-E'], ['-a', '-E', '-P'], ['-a', '-x'],
            ['-a', '-E', '-r', '-e', '.pel'], ['-a', '-H', '-O'],
            ['-n'], ['-n', '-E'], ['-n', '-H', '-O'], ['-n', '-N'],
            ['-n', '-S', 'Critical', 'Recovered'],
            ['-i', '0x50000001'], ['-i', '50000012', '-E'], ['-i', '1234'],
            ['--bmc-id', '1'], ['--bmc-id', '13', '-E'], ['--bmc-id', '999'],
            ['--bmc-id', '12', '-x', '-E'],
            ['--plid', '0x50000011', '-E'], ['--plid', '50000001'],
            ['--src', 'BD8D1001', '-E'],
            ['-j', '-o', odir], ['-j', '-o', odir, '-E', '-P'],
            ['-j', '-o', odir, '-c', '-E'], ['-j', '-c'], ['-j', '-E'],
            ['-j', '-o', odir, '-e', '.bin', '-E', '-c'],
            ['-j', '-o', os.path.join(work, 'missing')],
            ['-d', '50000001'], ['-D'],
        ]
        for opt in (False, True):
            for args in dir_cmds:
                if opt and args[0] not in ('-a', '-j', '-l'):
                    continue
                got = []
                for r in roots:
                    for d in (pdir, odir):
                        if os.path.exists(d):
                            shutil.rmtree(d)
                    shutil.copytree(src_dir, pdir)
                    os.mkdir(odir)
                    got.append(run_cli(r, opt, ['-p', pdir] + args, work,
                                       (pdir, odir)))
                ncases += 1
                if got[0] != got[1]:
                    diffs.append('CLI dir %s (opt=%s):\n   pristine: %r\n   patched:  %r'
                                 % (args, opt, str(got[0])[:1500],
                                    str(got[1])[:1500]))
        # -f with -c on a copy
        for name in ('good_all.bin', 'good_min.pel', 'trunc0100.pel',
                     'bad_ph.pel'):
            if name not in files:
                name = [f for f in files if f.startswith(name.split('.')[0])][0]
            got = []
            for r in roots:
                if os.path.exists(pdir):
                    shutil.rmtree(pdir)
                shutil.copytree(src_dir, pdir)
                got.append(run_cli(r, False, ['-f', os.path.join(pdir, name),
                                              '-c'], work, (pdir,)))
            ncases += 1
            if got[0] != got[1]:
                diffs.append('CLI -f -c %s differs' % name)
        for args in (['--help'], [], ['-f', os.path.join(work, 'nonexistent')],
                     ['-p', os.path.join(work, 'nonexistent'), '-l']):
            ra, rb = both(args, False)
            ncases += 1
            if ra != rb:
                diffs.append('CLI %s differs' % args)
    finally:
        shutil.rmtree(work, ignore_errors=True)

    if diffs:
        print('DIFFERENT: %d of %d cases' % (len(diffs), ncases))
        for d in diffs[:40]:
            print(' *', d)
        return 1
    print('IDENTICAL (%d cases)' % ncases)
    return 0


if __name__ == '__main__':
    sys.exit(main())
