#!/usr/bin/env python
"""
Differential check for refactorings of modules/pel/peltool/peltool.py and
modules/pel/peltool/config.py.

usage: diffcheck.py <pristine_root> <patched_root>

Every case is executed against both trees (each tree in its own subprocess
with PYTHONPATH=<root>/modules) and everything observable is compared:
stdout, stderr, exit status / escaping exception, return values and the
content of the working directory after the run.

Three groups of cases:
  * "main"  - peltool.main() driven in-process with a patched sys.argv
  * "unit"  - direct calls of the module level functions
  * "cli"   - the real script started as a subprocess (python and python -O)
"""
import contextlib
import hashlib
import io
import itertools
import json
import os
import random
import shutil
import struct
import subprocess
import sys

HERE = os.path.dirname(os.path.abspath(__file__))
WORK = os.path.join(HERE, "work")
CASE = os.path.join(WORK, "c")
PELS = os.path.join(CASE, "pels")
OUT = os.path.join(CASE, "out")
EXCL = os.path.join(CASE, "excl.txt")
EXCL_EMPTY = os.path.join(CASE, "excl_empty.txt")
BMC_PATH = "/var/lib/phosphor-logging/extensions/pels/logs/"

# --------------------------------------------------------------------------
# binary PEL builders
# --------------------------------------------------------------------------

TS1 = bytes.fromhex("2023031218402755")
TS2 = bytes.fromhex("2023031218402899")


def hdr(sid, length, ver=1, sub=0, comp=0x2000):
    return struct.pack(">HHBBH", sid & 0xFFFF, length & 0xFFFF, ver & 0xFF,
                       sub & 0xFF, comp & 0xFFFF)


def PH(nsec, creator=b"O", obmc=1, plid=0x50000001, eid=0x50000001,
       comp=0x2000, sid=0x5048):
    body = TS1 + TS2 + creator + b"\0\0" + bytes([nsec & 0xFF]) + \
        struct.pack(">IQII", obmc, 0x0102030405060708, plid, eid)
    return hdr(sid, 48, 1, 0, comp) + body


def UH(sev=0x40, flags=0xA000, subsystem=0x10, scope=3, etype=0, states=0,
       sid=0x5548, comp=0x2000):
    return hdr(sid, 24, 1, 0, comp) + struct.pack(
        ">BBBBIBBHI", subsystem, scope, sev, etype, 0, 0, 0, flags, states)


def fru(flags=0x1D, pn=b"PN12345\0", ccin=b"CCIN", sn=b"SN1234567890"):
    body = b""
    if flags & 0x0A:
        body += pn
    if flags & 0x04:
        body += ccin
    if flags & 0x01:
        body += sn
    return struct.pack(">HBB", 0x4944, 4 + len(body), flags) + body


def pce(name=b"PCENAME\0"):
    return struct.pack(">HBB", 0x5045, 24 + len(name), 0) + b"9105-22A" + \
        b"SERIAL000001" + name


def mru(ids=(0x11111111, 0x22222222)):
    body = b"".join(struct.pack(">II", 0x48, i) for i in ids)
    return struct.pack(">HBBI", 0x4D52, 8 + len(body), len(ids), 0) + body


def callout(loc=b"U78DA.ND1.1234567-P0\0\0\0\0", prio=b"H", subs=b""):
    size = 4 + len(loc) + len(subs)
    return bytes([size, 0x20]) + prio + bytes([len(loc)]) + loc + subs


def callouts(items):
    body = b"".join(items)
    return bytes([0xC0, 0]) + struct.pack(">H", (4 + len(body)) // 4) + body


DEFAULT_WORDS = (0x02000055, 0x2B150010, 0, 0x23000000, 0x11, 0x22, 0x33, 0x44)


def SRC(text="BD8D1001", flags=0, wordcount=9, words=DEFAULT_WORDS, co=b"",
        sid=0x5053, comp=0x2000, raw_ascii=None):
    asc = raw_ascii if raw_ascii is not None else text.encode().ljust(32, b" ")
    body = bytes([2, flags | (1 if co else 0), 0, wordcount]) + \
        struct.pack(">HH", 0, 72 + len(co)) + struct.pack(">8I", *words) + \
        asc + co
    return hdr(sid, 8 + len(body), 1, 1, comp) + body


def UD(data, comp=0x2000, sub=1, ver=1):
    return hdr(0x5544, 8 + len(data), ver, sub, comp) + data


def ED(data, creator=b"O", comp=0x2000, sub=1, ver=1):
    return hdr(0x4544, 12 + len(data), ver, sub, comp) + creator + b"\0\0\0" + data


def EH(sym=b"BD8D1001_2B150010\0\0\0"):
    body = b"9105-22A" + b"SERIAL000001" + b"fw1030.00-1".ljust(16, b"\0") + \
        b"fw1030.00-1-sub".ljust(16, b"\0") + b"\0\0\0\0" + TS1 + b"\0\0\0" + \
        bytes([len(sym)]) + sym
    return hdr(0x4548, 8 + len(body), 1, 0) + body


def MT():
    return hdr(0x4D54, 28, 1, 0) + b"9105-22A" + b"SERIAL000001"


def LP(name=b"lpar1\0\0\0", lps=(1, 2, 3)):
    body = struct.pack(">HBBI", 7, len(name), len(lps), 0x1234) + name + \
        b"".join(struct.pack(">H", x) for x in lps)
    if len(lps) % 2:
        body += b"\0\0"
    return hdr(0x4C50, 8 + len(body), 1, 0) + body


def RAW(sid, data=b"\x01\x02\x03\x04hello world 12345"):
    return hdr(sid, 8 + len(data), 1, 0, 0x3100) + data


def pel(sections, nsec=None, creator=b"O", obmc=1, plid=0x50000001,
        eid=0x50000001, sev=0x40, flags=0xA000, ph_sid=0x5048, uh_sid=0x5548,
        comp=0x2000, subsystem=0x10):
    n = 2 + len(sections) if nsec is None else nsec
    return PH(n, creator, obmc, plid, eid, comp, ph_sid) + \
        UH(sev, flags, sid=uh_sid, comp=comp, subsystem=subsystem) + \
        b"".join(sections)


def full_sections():
    co = callouts([
        callout(subs=fru(0x1D)),
        callout(loc=b"", prio=b"M", subs=fru(0x22, pn=b"BMC0001\0")),
        callout(loc=b"Ufcs-P0\0", prio=b"L", subs=fru(0x18) + pce() + mru()),
    ])
    return [
        SRC("BD8D1001", co=co),
        EH(), MT(),
        UD(b'{"Key {1}": "va\\"lue", "nested": {"a:b": [1, 2], "c\\\\": null}}', sub=1),
        UD(b"line one\nline \x01 two\n", sub=3),
        UD(b"\x00\x01\x02\x03", sub=2),
        ED(b'{"ext": true}', sub=1),
        LP(),
        SRC("BD8D2002", sid=0x5353),
        SRC("BD8D2003", sid=0x5353, wordcount=5),
        RAW(0x4448), RAW(0x5A5A),
    ]


def corpus_mixed():
    n = "2023031218402755_"
    good = pel(full_sections(), eid=0x50000001, plid=0x50000001, obmc=11)
    c = {}
    c[n + "50000001"] = good
    c[n + "50000002.pel"] = pel([SRC("BD8D1002")], eid=0x50000002, plid=0x50000001,
                                obmc=12, sev=0x40, flags=0x6000)
    c[n + "50000003.pel"] = pel([SRC("BD8D1003"), UD(b'"just a string"')],
                                eid=0x50000003, plid=0x50000003, obmc=13, sev=0x00, flags=0)
    c[n + "50000004.txt"] = pel([SRC("BD8D1004")], eid=0x50000004, plid=0x50000004,
                                obmc=14, sev=0x00, flags=0x8000)
    c[n + "50000005"] = pel([SRC("BD8D1005")], eid=0x50000005, plid=0x50000005,
                            obmc=15, sev=0x10, flags=0)
    c[n + "50000006.pel"] = pel([SRC("BC8A1234", comp=0x0100), UD(b"\x11" * 20, comp=0x0100, sub=7)],
                                creator=b"B", eid=0x90000006, plid=0x90000006, obmc=16,
                                sev=0x20, flags=0xA000, comp=0x0100)
    c[n + "50000007"] = pel([SRC("110015F0", wordcount=3)], eid=0x50000007, plid=0x50000001,
                            obmc=17, sev=0x50, flags=0x2000)
    c[n + "50000008.pel"] = pel([SRC("BD8D1008")], eid=0x50000008, plid=0x50000008,
                                obmc=18, sev=0x51, flags=0x6000)
    c[n + "50000009.txt"] = pel([SRC("BD8D1009")], eid=0x50000009, plid=0x50000009,
                                obmc=19, sev=0x60, flags=0)
    c[n + "5000000A"] = pel([SRC("B7001111", comp=0x4C50), UD(b"phyp-data", comp=0x4C50, sub=9)],
                            creator=b"H", eid=0x5000000A, plid=0x5000000A, obmc=20,
                            sev=0x70, flags=0x2000, comp=0x4C50)
    c[n + "5000000B.pel"] = pel([UD(b'{"only": "user data"}'), EH()], eid=0x5000000B,
                                plid=0x5000000B, obmc=21)
    c[n + "5000000C.pel"] = pel([SRC("BD8D100C"), UD(b'{"x": 1}')], eid=0x5000000C,
                                plid=0x5000000C, obmc=22, sev=0x51, flags=0xA000)
    c[n + "5000000D"] = pel([EH(), SRC("BD8D100D")], eid=0x5000000D, plid=0x5000000D,
                            obmc=23)
    c["truncated.pel"] = good[:len(good) // 2]
    c["trunc_in_uh"] = good[:60]
    c["trunc_in_ph"] = good[:20]
    c["garbage.bin"] = bytes(range(256)) * 2
    c["empty.pel"] = b""
    c["bad_uh.pel"] = pel([SRC()], eid=0x50000010, uh_sid=0x1234)
    c["bad_ph_50000001"] = pel([SRC()], eid=0x50000011, ph_sid=0x4242)
    c["too_many_sections.pel"] = pel([SRC("BD8D1012")], nsec=9, eid=0x50000012, obmc=24)
    c["too_few_sections"] = pel([SRC("BD8D1013")], nsec=2, eid=0x50000013, obmc=25)
    c["bad_creator.pel"] = pel([SRC()], creator=b"\xff", eid=0x50000014)
    c["bad_src_ascii.pel"] = pel([SRC(raw_ascii=b"\xfe" * 32)], eid=0x50000015, obmc=26)
    c["zz_copy_50000001.pel"] = good
    c["zero_len_section.pel"] = pel([SRC("BD8D1016"), RAW(0x4348, b""), UD(b"{}")], eid=0x50000016, obmc=27)
    c["archive/"] = None
    c["archive/inner_50000099.pel"] = pel([SRC("BD8D1099")], eid=0x50000099)
    return c


def corpus_small():
    n = "2024010100000000_"
    return {
        n + "60000001.pel": pel([SRC("BD8D6001"), UD(b'{"a": 1}'), UD(b'{"b": 2}'), UD(b'[1,2]')],
                                eid=0x60000001, plid=0x60000001, obmc=601),
        n + "60000002.pel": pel([SRC("BD8D6002")], eid=0x60000002, plid=0x60000001,
                                obmc=602, sev=0x20),
        n + "60000003.log": pel([SRC("BD8D6003")], eid=0x60000003, plid=0x60000003,
                                obmc=603, sev=0x00, flags=0x4000),
    }


def corpus_empty():
    return {}


def corpus_symlink():
    c = dict(corpus_small())
    c["aa_dangling.pel"] = ("symlink", "/nonexistent/target/of/symlink")
    c["dirlink"] = ("symlink", ".")
    return c


def corpus_random(seed):
    rnd = random.Random(seed)
    base = [pel(full_sections(), eid=0x70000001),
            pel([SRC("BD8D7002"), UD(b'{"q": [1, {"r": 2}]}')], eid=0x70000002,
                sev=rnd.choice([0, 0x10, 0x20, 0x40, 0x51]), flags=rnd.choice([0, 0x2000, 0x6000, 0x8000, 0xA000]))]
    c = {}
    for i in range(24):
        data = bytearray(rnd.choice(base))
        kind = rnd.randrange(4)
        if kind == 0:
            data = data[:rnd.randrange(len(data))]
        elif kind == 1:
            for _ in range(rnd.randrange(1, 6)):
                data[rnd.randrange(len(data))] = rnd.randrange(256)
        elif kind == 2:
            for _ in range(rnd.randrange(1, 4)):
                # corrupt the part behind the two fixed headers only
                data[rnd.randrange(72, len(data))] = rnd.randrange(256)
            data[63] = rnd.choice([0, 0x40, 0x51, 0x20])
        else:
            data = bytearray(rnd.randbytes(rnd.randrange(0, 200)))
        ext = rnd.choice(["", ".pel", ".txt"])
        c["r%02d_%08X%s" % (i, 0x70000000 + i, ext)] = bytes(data)
    return c


CORPORA = {
    "mixed": corpus_mixed,
    "small": corpus_small,
    "empty": corpus_empty,
    "symlink": corpus_symlink,
    "rand1": lambda: corpus_random(1),
    "rand2": lambda: corpus_random(2),
    "rand3": lambda: corpus_random(3),
}
_corpus_cache = {}


def materialize(name):
    """(Re)create the case directory with the given corpus in it."""
    shutil.rmtree(CASE, ignore_errors=True)
    os.makedirs(PELS)
    os.makedirs(OUT)
    if name not in _corpus_cache:
        _corpus_cache[name] = CORPORA[name]()
    for fname, data in _corpus_cache[name].items():
        path = os.path.join(PELS, fname)
        if data is None:
            os.makedirs(path, exist_ok=True)
        elif isinstance(data, tuple):
            os.symlink(data[1], path)
        else:
            with open(path, "wb") as fd:
                fd.write(data)
    with open(EXCL, "w") as fd:
        fd.write("BD8D1001\nBD8D1004 BD8D6001\n110015F0\n")
    with open(EXCL_EMPTY, "w") as fd:
        pass
    good = _corpus_cache.setdefault("mixed", CORPORA["mixed"]())
    singles = {
        "good.pel": good["2023031218402755_50000001"],
        "hidden.pel": good["2023031218402755_50000002.pel"],
        "info.pel": good["2023031218402755_50000003.pel"],
        "term.pel": good["2023031218402755_50000008.pel"],
        "nosrc.pel": good["2023031218402755_5000000B.pel"],
        "trunc.pel": good["truncated.pel"],
        "badph.pel": good["bad_ph_50000001"],
        "baduh.pel": good["bad_uh.pel"],
        "badcreator.pel": good["bad_creator.pel"],
        "empty.pel": b"",
    }
    for fname, data in singles.items():
        with open(os.path.join(CASE, fname), "wb") as fd:
            fd.write(data)


def snapshot():
    items = []
    for root, dirs, files in os.walk(CASE):
        dirs.sort()
        for d in dirs:
            p = os.path.join(root, d)
            items.append([os.path.relpath(p, CASE), "link:" + os.readlink(p) if os.path.islink(p) else "dir"])
        for f in sorted(files):
            p = os.path.join(root, f)
            if os.path.islink(p):
                items.append([os.path.relpath(p, CASE), "link:" + os.readlink(p)])
            else:
                with open(p, "rb") as fd:
                    items.append([os.path.relpath(p, CASE), hashlib.sha1(fd.read()).hexdigest()])
    items.sort()
    return hashlib.sha1(json.dumps(items).encode()).hexdigest(), len(items)


# --------------------------------------------------------------------------
# case lists
# --------------------------------------------------------------------------

FILTERS = [
    [], ["-E"], ["-s"], ["-N"], ["-H"], ["-t"], ["-O"], ["-s", "-O"], ["-N", "-O"],
    ["-H", "-O"], ["-t", "-O"], ["-sNH"], ["-sNHO"], ["-S", "Informational"],
    ["-S", "Critical", "Recovered"], ["-O", "-S", "Unrecoverable"],
    ["-O", "-S", "Predictive", "Critical"], ["-s", "-O", "-S", "Unrecoverable"],
    ["-N", "-O", "-S", "Informational", "Diagnostic"], ["-H", "-O", "-S", "Critical"],
    ["-H", "-S", "Symptom"], ["-N", "-H", "-S", "Recovered"], ["-t", "-S", "Symptom"],
    ["-E", "-O", "-S", "Critical"], ["-P"], ["-P", "-E"],
]
VIEWS = [[], ["-x"], ["-r"], ["-e", ".pel"], ["-e", ".txt", "-r"], ["-x", "-r", "-e", ".pel"],
         ["-e", ""], ["-e", ".nomatch"]]


def main_cases():
    cases = []

    def add(corpus, argv, bmc=False):
        cases.append({"corpus": corpus, "argv": argv, "bmc": bmc})

    D = ["-p", PELS]
    # list / count / all with every filter, on several corpora
    for mode in (["-l"], ["-n"], ["-a"]):
        for flt in FILTERS:
            add("mixed", D + mode + flt)
        for view in VIEWS:
            add("mixed", D + mode + view)
            add("mixed", D + mode + view + ["-E"])
            add("small", D + mode + view + ["-H"])
        for corpus in ("small", "empty", "symlink", "rand1", "rand2", "rand3"):
            for flt in ([], ["-E"], ["-E", "-x"], ["-N", "-H", "-r"], ["-O", "-S", "Unrecoverable"]):
                add(corpus, D + mode + flt)
    # combined short options and precedence between the modes
    for argv in (["-lna"], ["-an"], ["-l", "-D"], ["-n", "-d", "50000001"], ["-a", "-i", "50000001"],
                 ["-l", "--plid", "50000001"], ["-l", "--src", "BD8D"], ["-l", "-j"],
                 ["-i", "50000001", "--bmc-id", "12"], ["--bmc-id", "12", "--plid", "50000001"],
                 ["--plid", "50000001", "--src", "BD"], ["--src", "BD", "--src-exclude", EXCL],
                 ["--src-exclude", EXCL, "-l"], ["-D", "-d", "50000001"], [], ["-E"], ["-x"], ["-r", "-O"]):
        add("mixed", D + argv)
    # --id
    for pid in ("50000001", "0x50000001", "0X5000000a", "5000000A", "5000000a", "50000002", "50000003",
                "50000008", "90000006", "50000011", "50000014", "50000099", "5000", "500000011",
                "", "0x", "FFFFFFFF", "truncate", "_5000000", "0x_5000000"):
        for extra in ([], ["-x"], ["-E"], ["-O"]):
            add("mixed", D + ["-i", pid] + extra)
        add("empty", D + ["-i", pid])
        add("rand1", D + ["--id", pid])
    for i in range(0, 24, 3):
        add("rand2", D + ["-i", "%08X" % (0x70000000 + i)])
        add("rand3", D + ["-i", "%08x" % (0x70000000 + i), "-x"])
    add("symlink", D + ["-i", "60000002"])
    add("symlink", D + ["-i", "dangling"])
    # --bmc-id
    for bid in ("11", "12", "13", "18", "20", "21", "24", "25", "26", "1", "0", "999", "abc", "011", " 11"):
        for extra in ([], ["-x"], ["-E"], ["-H", "-O"]):
            add("mixed", D + ["--bmc-id", bid] + extra)
        add("empty", D + ["--bmc-id", bid])
    for corpus in ("small", "symlink", "rand1", "rand2", "rand3"):
        for bid in ("601", "602", "603", "1", "0", "16843009"):
            add(corpus, D + ["--bmc-id", bid])
            add(corpus, D + ["--bmc-id", bid, "-x"])
    # --plid
    for plid in ("50000001", "0x50000001", "50000003", "5000000a", "9000", "90000006", "12345678",
                 "0x1234567", "", "5000000B", "60000001"):
        for extra in ([], ["-x"], ["-r"], ["-E"], ["-e", ".pel"], ["-H", "-O"], ["-O", "-S", "Critical"]):
            add("mixed", D + ["--plid", plid] + extra)
        for corpus in ("small", "empty", "symlink", "rand1", "rand2"):
            add(corpus, D + ["--plid", plid])
    # --src and --src-exclude
    for src in ("BD8D1001", "BD", "BD8D100", "8D10", "110015F0", "BC8A", "B700", "bd8d", "X", " ",
                "B" * 32, "B" * 33, "BD8D1001" + " " * 30):
        for extra in ([], ["-x"], ["-r"], ["-E"], ["-e", ".pel"], ["-N", "-O"], ["-P"]):
            add("mixed", D + ["--src", src] + extra)
        for corpus in ("small", "empty", "symlink", "rand1", "rand3"):
            add(corpus, D + ["--src", src])
    for excl in (EXCL, EXCL_EMPTY, os.path.join(CASE, "missing.txt"), PELS, os.path.join(CASE, "good.pel")):
        for extra in ([], ["-x"], ["-r"], ["-E"], ["-e", ".txt"], ["-H"]):
            add("mixed", D + ["--src-exclude", excl] + extra)
        for corpus in ("small", "empty", "symlink", "rand2"):
            add(corpus, D + ["--src-exclude", excl])
    # delete
    for pid in ("50000001", "0x50000002", "5000000a", "50000099", "5000", "FFFFFFFF", "", "00000000"):
        add("mixed", D + ["-d", pid])
        add("empty", D + ["--delete", pid])
        add("small", D + ["-d", pid, "-E"])
    add("small", D + ["-d", "60000003"])
    add("symlink", D + ["-d", "60000001"])
    for corpus in CORPORA:
        add(corpus, D + ["-D"])
        add(corpus, D + ["--delete-all", "-e", ".pel"])
    # json
    for corpus in CORPORA:
        for extra in ([], ["-c"], ["-o", OUT], ["-o", OUT, "-c"], ["-e", ".pel"], ["-e", ".pel", "-c", "-o", OUT],
                      ["-E"], ["-E", "-c"], ["-H", "-O", "-c", "-o", OUT], ["-x"], ["-r"], ["-P", "-o", OUT],
                      ["-o", os.path.join(CASE, "no_such_dir")], ["-o", EXCL], ["-o", ""],
                      ["-N", "-S", "Critical", "-c"]):
            add(corpus, D + ["-j"] + extra)
    # -f
    for f in ("good.pel", "hidden.pel", "info.pel", "term.pel", "nosrc.pel", "trunc.pel", "badph.pel",
              "baduh.pel", "badcreator.pel", "empty.pel", "missing.pel", "pels", ""):
        path = os.path.join(CASE, f) if f else ""
        for extra in ([], ["-c"], ["-x"], ["-x", "-c"], ["-E"], ["-E", "-c"], ["-H", "-O", "-c"], ["-P"],
                      ["-l"], ["-p", PELS, "-a"], ["-t", "-c"], ["-S", "Informational", "-c"]):
            add("small", ["-f", path] + extra)
    # path handling, help and usage errors
    for argv in (["-l"], ["-p", os.path.join(CASE, "nope"), "-l"], ["-p", EXCL, "-l"], ["-p", "", "-l"],
                 ["-p", PELS + "/", "-l"], ["-p", PELS + "/", "-j", "-E"], ["-p", PELS + "//", "-i", "60000001"],
                 ["--help"], ["-h"], ["-S"], ["-S", "Bogus"], ["-l", "-S", "critical"], ["--bogus"], ["-A"],
                 ["-p"], ["-p", PELS, "--path", PELS, "-n"], ["-p", PELS, "-l", "extra"], ["-j"], ["-D"],
                 ["-p", PELS, "-S", "Critical", "Informational", "Critical", "-n"]):
        add("small", argv)
    # pretend to be on the BMC (the log directories do not exist here)
    for argv in (["-l"], ["-n"], ["-a"], ["-a", "-x"], ["-A", "-l"], ["-A", "-n", "-E"], ["-i", "50000001"],
                 ["--bmc-id", "3"], ["--plid", "50000001"], ["--src", "BD"], ["--src-exclude", EXCL],
                 ["-d", "50000001"], ["-D"], ["-A", "-D"], ["-j"], ["-A", "-j", "-o", OUT], ["--help"],
                 ["-p", PELS, "-l"], [], ["-A"], ["-f", os.path.join(CASE, "good.pel")],
                 ["-A", "-f", os.path.join(CASE, "hidden.pel"), "-H"]):
        add("small", argv, bmc=True)
    return cases


def cli_cases():
    D = ["-p", PELS]
    cases = []
    for argv in (["--help"], [], ["-l"], D + ["-l"], D + ["-l", "-E", "-r"], D + ["-n", "-H", "-O"],
                 D + ["-a", "-S", "Critical"], D + ["-a", "-x", "-e", ".pel"], D + ["-i", "50000001"],
                 D + ["-i", "123"], D + ["--bmc-id", "12", "-H"], D + ["--plid", "0x50000001"],
                 D + ["--src", "BD8D"], D + ["--src", "B" * 40], D + ["--src-exclude", EXCL],
                 D + ["--src-exclude", os.path.join(CASE, "nope")], D + ["-d", "50000002"], D + ["-D"],
                 D + ["-j", "-o", OUT, "-c"], D + ["-j", "-o", os.path.join(CASE, "nope")],
                 ["-f", os.path.join(CASE, "good.pel")], ["-f", os.path.join(CASE, "good.pel"), "-x", "-c"],
                 ["-f", os.path.join(CASE, "badph.pel"), "-c"], ["-f", os.path.join(CASE, "baduh.pel")],
                 ["-f", os.path.join(CASE, "trunc.pel"), "-c"], ["-f", os.path.join(CASE, "missing.pel")],
                 ["-f", os.path.join(CASE, "info.pel"), "-c"], ["-S", "Nope"], ["-p", EXCL, "-n"]):
        for opt in ([], ["-O"]):
            cases.append({"corpus": "mixed", "argv": argv, "pyopt": opt})
    for argv in (D + ["-l"], D + ["--plid", "60000001"], D + ["--src", "BD"], D + ["-n"], D + ["-a"],
                 D + ["-j"], D + ["-D"], D + ["--bmc-id", "602"], D + ["--src-exclude", EXCL]):
        for opt in ([], ["-O"]):
            cases.append({"corpus": "symlink", "argv": argv, "pyopt": opt})
    return cases


# --------------------------------------------------------------------------
# runner (executed in a subprocess with PYTHONPATH=<root>/modules)
# --------------------------------------------------------------------------

def describe_exc(e):
    if isinstance(e, SystemExit):
        return ["SystemExit", repr(e.code)]
    return [type(e).__name__, str(e)]


def capture(fn, *a, **kw):
    out, err = io.StringIO(), io.StringIO()
    exc, ret = None, None
    with contextlib.redirect_stdout(out), contextlib.redirect_stderr(err):
        try:
            ret = fn(*a, **kw)
        except BaseException as e:  # noqa
            exc = describe_exc(e)
    return {"out": out.getvalue(), "err": err.getvalue(), "exc": exc, "ret": canon(ret)}


def canon(v):
    """A JSON friendly, type revealing rendering of a returned value."""
    if v is None or isinstance(v, (bool, int, str)):
        return [type(v).__name__, v]
    if isinstance(v, (tuple, list)):
        return ["tuple" if isinstance(v, tuple) else "list", [canon(x) for x in v]]
    if isinstance(v, dict):
        return ["dict", [[canon(k), canon(x)] for k, x in v.items()]]
    if isinstance(v, (bytes, bytearray, memoryview)):
        return ["bytes", bytes(v).hex()]
    return ["obj", type(v).__name__]


def run_main_cases(pt, results):
    real_isdir = os.path.isdir
    real_walk = os.walk
    for idx, case in enumerate(main_cases()):
        materialize(case["corpus"])
        walked = []

        def fake_isdir(p, _r=real_isdir):
            return True if p == BMC_PATH else _r(p)

        def fake_walk(top, *a, _w=real_walk, **kw):
            walked.append(str(top))
            return _w(top, *a, **kw)

        sys.argv = ["peltool.py"] + list(case["argv"])
        os.environ["COLUMNS"] = "80"
        try:
            if case["bmc"]:
                os.path.isdir = fake_isdir
            os.walk = fake_walk
            rec = capture(pt.main)
        finally:
            os.path.isdir = real_isdir
            os.walk = real_walk
        rec["walked"] = walked
        rec["snap"] = snapshot()
        rec["id"] = "main[%d] %s %s%s" % (idx, case["corpus"], " ".join(case["argv"]), " (bmc)" if case["bmc"] else "")
        results.append(rec)


class FakeArgsConfig:
    pass


def make_config(pt, **kw):
    cfg = pt.Config()
    for k, v in kw.items():
        setattr(cfg, k, v)
    return cfg


def run_unit_cases(pt, results):
    from pel.datastream import DataStream
    from collections import OrderedDict

    def add(name, fn, *a, **kw):
        rec = capture(fn, *a, **kw)
        rec["id"] = "unit " + name
        results.append(rec)
        return rec

    def stream(data):
        return DataStream(data, byte_order="big", is_signed=False)

    # Config
    def config_facts():
        c1, c2 = pt.Config(), pt.Config()
        facts = [list(vars(c1).keys()), [canon(v) for v in vars(c1).values()],
                 c1 == c2, c1 != c2, c1 == c1, isinstance(hash(c1), int),
                 c1.severities is c2.severities, type(c1).__name__, type(c1).__module__,
                 repr(c1).startswith("<pel.peltool.config.Config object at"),
                 hasattr(c1, "__dict__"), type(c1).__mro__ == (type(c1), object)]
        c1.severities.append(3)
        facts.append(pt.Config().severities)
        c1.brand_new_attribute = 5
        facts.append(c1.brand_new_attribute)
        try:
            pt.Config(1)
            facts.append("positional accepted")
        except TypeError:
            facts.append("TypeError")
        return json.dumps(facts)
    add("Config facts", config_facts)

    # getSectionName / parseHeader
    add("getSectionName sweep", lambda: "|".join(pt.getSectionName(i) for i in range(0, 0x10000, 7)))
    for sid in (0x5048, 0x5548, 0x5053, 0x5353, 0x4548, 0x4D54, 0x4448, 0x5357, 0x4C50, 0x4C52, 0x484D,
                0x4550, 0x4945, 0x4D49, 0x4348, 0x5544, 0x4549, 0x4544, 0, -1, 0x15048, 0xFFFF):
        add("getSectionName %r" % sid, pt.getSectionName, sid)
    for n in range(0, 10):
        add("parseHeader len %d" % n, lambda n=n: pt.parseHeader(stream(bytes(range(0x41, 0x41 + n)))))

    # prettyPrint
    rnd = random.Random(99)
    alphabet = ['a', 'B', ' ', '"', '\\', ':', '{', '}', '[', ',', '\n', '\t', 'é', '\u2028', "'", '/']

    def rnd_str():
        return "".join(rnd.choice(alphabet) for _ in range(rnd.randrange(0, 12)))

    def rnd_obj(depth=0):
        k = rnd.randrange(6 if depth < 3 else 3)
        if k == 0:
            return rnd.randrange(-5, 1000)
        if k == 1:
            return rnd_str()
        if k == 2:
            return rnd.choice([None, True, False, 1.5])
        if k == 3:
            return [rnd_obj(depth + 1) for _ in range(rnd.randrange(0, 4))]
        return {rnd_str(): rnd_obj(depth + 1) for _ in range(rnd.randrange(0, 5))}

    for i in range(150):
        obj = {rnd_str(): rnd_obj() for _ in range(rnd.randrange(0, 6))}
        text = json.dumps(obj, indent=rnd.choice([4, 4, 2, 0, None]), ensure_ascii=rnd.choice([True, False]))
        add("prettyPrint rnd %d" % i, pt.prettyPrint, text)
        add("prettyPrint rnd %d w" % i, pt.prettyPrint, text, rnd.choice([29, 0, 5, -3, 60]))
        add("prettyPrint rnd %d kw" % i, pt.prettyPrint, Mdata=text, desiredSpace=rnd.choice([29, 34, 1]))
    for text in ("", "\n", "{}", '"a": 1', '    "a": 1,', '"a":1', '  "a" : 1', '"a": {', '"a": "{"', '"a\\": 1',
                 '"a\\"": 1', '"": ""', ' "x":', '"x":\r\n"y": 2', 'no quotes: here', '   "unterminated: 1',
                 '"k": "v": "w"', '\t"tab": 1', '"' + "k" * 50 + '": 1'):
        add("prettyPrint fixed %r" % text, pt.prettyPrint, text)
        add("prettyPrint fixed29 %r" % text, pt.prettyPrint, text, 29)
    add("prettyPrint non-str", pt.prettyPrint, None)
    add("prettyPrint bytes", pt.prettyPrint, b'"a": 1')

    # considerPEL / considerPELIfSeverityMatches - exhaustive
    def uh_with(sev, flags):
        uh = pt.UserHeader(None, 0x5548, 24, 1, 0, 0x2000, "O")
        uh.eventSeverity = sev
        uh.actionFlags = flags
        return uh

    uhs = [uh_with(s, f) for s in (0x00, 0x10, 0x20, 0x40, 0x51, 0x71, 0xFF)
           for f in (0, 0x2000, 0x4000, 0x6000, 0x8000, 0xA000, 0xC000, 0xE000)]
    sev_lists = ([], [4], [0, 5], [7, 15], [1, 2, 4, 5, 6, 7, 0])
    ids = ({}, {"plid": "50000001"}, {"src": "BD"}, {"bmcID": "1"}, {"pelID": "50000001"}, {"plid": ""},
           {"srcExcludeFile": "x"})
    for bits in itertools.product([False, True], repeat=6):
        names = ("every_pel", "critSysTerm", "serviceable", "non_serviceable", "hidden", "only")
        for si, sevs in enumerate(sev_lists):
            for ii, idkw in enumerate(ids):
                def sweep(bits=bits, sevs=sevs, idkw=idkw):
                    cfg = make_config(pt, severities=list(sevs), **dict(zip(names, bits)), **idkw)
                    res = []
                    for uh in uhs:
                        r1 = pt.considerPEL(uh, cfg)
                        r2 = pt.considerPELIfSeverityMatches(uh, cfg)
                        res.append("%s%s" % ("T" if r1 is True else "F" if r1 is False else repr(r1),
                                             "t" if r2 is True else "f" if r2 is False else repr(r2)))
                    return "".join(res)
                add("considerPEL %s sev%d id%d" % ("".join("01"[b] for b in bits), si, ii), sweep)
    # truthy non-bool option values
    add("considerPEL truthy objs", lambda: [
        pt.considerPEL(uh, make_config(pt, serviceable=1, only="yes", severities=(4,), hidden=[0]))
        for uh in uhs])
    add("considerPEL no isHidden", pt.considerPEL, object(), pt.Config())
    add("considerPEL every no uh", pt.considerPEL, None, make_config(pt, every_pel=True))
    add("considerPEL term no uh", pt.considerPEL, None, make_config(pt, critSysTerm=True))

    # processId
    for pid in ("50000001", "0x50000001", "0X50000001", "0x0x500000", "abcdefgh", "0xabcdefgh", "", "0x", "1234567",
                "123456789", "ß2345678", "0x5000000", "x0123456", "  500000", "0X0X0X0X", "ｘ0000000"):
        add("processId %r" % pid, pt.processId, pid)
    add("processId None", pt.processId, None)
    add("processId bytes", pt.processId, b"50000001")

    # buildOutput
    def bo(sections, preset=None):
        out = OrderedDict(preset or {})
        pt.buildOutput(sections, out)
        return out
    mk = lambda k, v: OrderedDict([(k, v)])  # noqa
    add("buildOutput empty", bo, [])
    add("buildOutput uniq", bo, [mk("A", 1), mk("B", 2)])
    add("buildOutput dup", bo, [mk("User Data", 1), mk("X", 9), mk("User Data", 2), mk("User Data", 3), mk("X", 10), mk("Y", 0)])
    add("buildOutput collide", bo, [mk("A", 1), mk("A", 2), mk("A 0", 3), mk("A 1", 4), mk("A 1", 5)])
    add("buildOutput preset", bo, [mk("Private Header", 1), mk("Z", 2), mk("Z", 3)], {"Private Header": 0, "Z 1": "old"})
    add("buildOutput multikey", bo, [OrderedDict([("A", 1), ("B", 2)]), OrderedDict([("A", 3), ("C", 4)])])
    add("buildOutput empty section", bo, [mk("A", 1), OrderedDict()])
    add("buildOutput empty section first", bo, [OrderedDict(), mk("A", 1)])
    add("buildOutput int keys", bo, [{1: "a"}, {1: "b"}])
    add("buildOutput int key single", bo, [{1: "a"}, {2: "b"}])
    add("buildOutput tuple input", bo, (mk("A", 1), mk("A", 2)))
    add("buildOutput not a dict", bo, [["A"]])
    add("buildOutput none", bo, None)

    # getFileList & the delete helpers (real directories)
    for corpus in ("mixed", "small", "empty", "symlink", "rand1"):
        materialize(corpus)
        for ext in (None, "", ".pel", ".txt", "pel", ".PEL", "."):
            for rev in (False, True, 0, 1, None):
                add("getFileList %s %r %r" % (corpus, ext, rev), pt.getFileList, PELS, ext, rev)
            add("getFileList %s %r default" % (corpus, ext), pt.getFileList, PELS, ext)
            add("getFileList %s %r kw" % (corpus, ext), pt.getFileList, path=PELS, extension=ext, rev=True)
        add("getFileList %s trailing slash" % corpus, pt.getFileList, PELS + "/", ".pel", True)
    materialize("small")
    add("getFileList missing", pt.getFileList, os.path.join(CASE, "nope"), None)
    add("getFileList on file", pt.getFileList, EXCL, None, True)
    add("getFileList empty path", pt.getFileList, "", ".pel")

    def fs_case(name, corpus, fn, *a):
        materialize(corpus)
        rec = add(name, fn, *a)
        rec["snap"] = snapshot()

    for corpus in CORPORA:
        fs_case("deleteAllPELs %s" % corpus, corpus, pt.deleteAllPELs, PELS)
        fs_case("deleteAllPELs %s slash" % corpus, corpus, pt.deleteAllPELs, PELS + "/")
        for pid in ("50000001", "0x60000002", "60000003", "7000000c", "5000", "dangling", "12345678"):
            fs_case("deletePELFromPELId %s %s" % (corpus, pid), corpus, pt.deletePELFromPELId, PELS, pid)
    fs_case("deleteAllPELs missing", "small", pt.deleteAllPELs, os.path.join(CASE, "nope"))
    fs_case("deleteAllPELs file", "small", pt.deleteAllPELs, EXCL)
    fs_case("deletePELFromPELId missing", "small", pt.deletePELFromPELId, os.path.join(CASE, "nope"), "60000001")

    # stream level functions
    mixed = CORPORA["mixed"]()
    blobs = {k: v for k, v in mixed.items() if isinstance(v, bytes)}
    for rname in ("rand1", "rand2", "rand3"):
        blobs.update({rname + "/" + k: v for k, v in CORPORA[rname]().items()})
    good = mixed["2023031218402755_50000001"]
    for cut in list(range(0, 90, 3)) + list(range(90, len(good), 17)):
        blobs["cut%04d" % cut] = good[:cut]
    cfgs = {
        "default": {}, "every": {"every_pel": True}, "noplug": {"allow_plugins": False, "every_pel": True},
        "hiddenonly": {"hidden": True, "only": True}, "sev": {"severities": [0, 5]},
        "plid": {"plid": "50000001"},
    }
    for bname, blob in sorted(blobs.items()):
        for cname, ckw in cfgs.items():
            add("parsePEL %s %s" % (bname, cname), lambda b=blob, k=ckw: pt.parsePEL(stream(b), make_config(pt, **k), False))
            add("parsePELSummary %s %s" % (bname, cname), lambda b=blob, k=ckw: pt.parsePELSummary(stream(b), make_config(pt, **k)))
        add("parsePEL exit %s" % bname, lambda b=blob: pt.parsePEL(stream(b), make_config(pt, every_pel=True), True))
        add("generatePH %s" % bname, lambda b=blob: canon_pair(pt.generatePH(stream(b), OrderedDict())))
        add("printPELInHexFormat %s" % bname, pt.printPELInHexFormat, blob)

    def gen_uh(b):
        s = stream(b)
        out = OrderedDict()
        ok, ph = pt.generatePH(s, out)
        r = pt.generateUH(s, ph.creatorID, out)
        return [ok, r[0], type(r[1]).__name__, out, s.index]
    for bname in ("2023031218402755_50000001", "bad_uh.pel", "trunc_in_uh", "bad_ph_50000001", "empty.pel"):
        add("generateUH %s" % bname, gen_uh, blobs[bname])

    # every section generator through sectionFun and directly
    secs = full_sections() + [RAW(0x5048), RAW(0x5548), RAW(0), RAW(0xFFFF), RAW(0x5357), RAW(0x4C52),
                              RAW(0x484D), RAW(0x4550), RAW(0x4945), RAW(0x4D49), RAW(0x4549)]
    for i, sec in enumerate(secs):
        for creator in ("O", "B", "H", "?"):
            for plug in (True, False):
                def sf(sec=sec, creator=creator, plug=plug):
                    s = stream(sec)
                    h = pt.parseHeader(s)
                    out = OrderedDict()
                    r = pt.sectionFun(s, out, *h, creator, make_config(pt, allow_plugins=plug))
                    return [list(h), type(h).__name__ if isinstance(h, tuple) else "?", r, out, s.index]
                add("sectionFun %d %s %s" % (i, creator, plug), sf)
        for cut in (8, 9, 20, len(sec) - 1):
            def sfcut(sec=sec, cut=cut):
                s = stream(sec[:cut])
                h = pt.parseHeader(s)
                out = OrderedDict()
                pt.sectionFun(s, out, *h, "O", pt.Config())
                return [out, s.index]
            add("sectionFun %d cut %d" % (i, cut), sfcut)

    def direct(fn, sec, *tail):
        s = stream(sec)
        h = pt.parseHeader(s)
        out = OrderedDict()
        r = fn(s, out, *h, *tail)
        return [r[0], type(r[1]).__name__, out, s.index, len(r), type(r).__name__]
    cfg = pt.Config()
    add("generateSRC", direct, pt.generateSRC, secs[0], "O", cfg)
    add("generateEH", direct, pt.generateEH, secs[1], "O")
    add("generateMT", direct, pt.generateMT, secs[2], "O")
    add("generateUD", direct, pt.generateUD, secs[3], "O", cfg)
    add("generateED", direct, pt.generateED, secs[6], cfg)
    add("generateIP", direct, pt.generateIP, secs[7], "O")
    add("generateDefault", direct, pt.generateDefault, secs[10])
    add("generateSRC short", direct, pt.generateSRC, secs[0][:30], "O", cfg)
    add("generateDefault short", direct, pt.generateDefault, secs[10][:10])

    # printPELInHexFormat with odd arguments
    for label, val in (("bytearray", bytearray(b"abc" * 9)), ("memoryview", memoryview(b"xyz" * 7)), ("empty", b""),
                       ("int", 5), ("str", "text"), ("none", None), ("list", [1, 2, 3])):
        add("printPELInHexFormat %s" % label, pt.printPELInHexFormat, val)

    # file level functions, called directly (return values matter)
    singles = ("good.pel", "hidden.pel", "info.pel", "term.pel", "nosrc.pel", "trunc.pel", "badph.pel", "baduh.pel",
               "badcreator.pel", "empty.pel", "missing.pel", "pels")
    for f in singles:
        for cname, ckw in (("default", {}), ("every", {"every_pel": True}), ("hex", {"hex": True, "every_pel": True}),
                           ("hexdef", {"hex": True})):
            for eoe in (False, True):
                fs_case("parseAndPrintPELFile %s %s %s" % (f, cname, eoe), "small", pt.parseAndPrintPELFile,
                        os.path.join(CASE, f), make_config(pt, **ckw), eoe)
            fs_case("extractAndSummarizePEL %s %s" % (f, cname), "small", pt.extractAndSummarizePEL,
                    os.path.join(CASE, f), make_config(pt, **ckw))
            for dele in (False, True):
                fs_case("parseAndWriteOutput %s %s %s" % (f, cname, dele), "small", pt.parseAndWriteOutput,
                        os.path.join(CASE, f), OUT, make_config(pt, **ckw), dele)
        fs_case("parseAndWriteOutput %s bad outdir" % f, "small", pt.parseAndWriteOutput,
                os.path.join(CASE, f), os.path.join(CASE, "nope"), make_config(pt, every_pel=True), True)

    # directory level functions called directly, incl. option mixes main() never produces
    for corpus in ("mixed", "small", "empty", "symlink", "rand1"):
        for cname, ckw in (("default", {}), ("every", {"every_pel": True}), ("hex", {"hex": True, "every_pel": True}),
                           ("rev.pel", {"rev": True, "extension": ".pel", "every_pel": True})):
            fs_case("listOption %s %s" % (corpus, cname), corpus, pt.listOption, PELS, make_config(pt, **ckw))
            fs_case("extractAllPELsData %s %s" % (corpus, cname), corpus, pt.extractAllPELsData, PELS, make_config(pt, **ckw))
            fs_case("printPELCount %s %s" % (corpus, cname), corpus, pt.printPELCount, PELS, make_config(pt, **ckw))
            fs_case("parsePelFromID %s %s" % (corpus, cname), corpus, pt.parsePelFromID, PELS,
                    make_config(pt, pelID="50000002", **ckw))
            fs_case("parsePelFromID none %s %s" % (corpus, cname), corpus, pt.parsePelFromID, PELS, make_config(pt, **ckw))
            fs_case("parsePelFromBmcID %s %s" % (corpus, cname), corpus, pt.parsePelFromBmcID, PELS,
                    make_config(pt, bmcID="602", **ckw))
            fs_case("parsePelFromBmcID none %s %s" % (corpus, cname), corpus, pt.parsePelFromBmcID, PELS, make_config(pt, **ckw))
            fs_case("parsePelFromBmcID int %s %s" % (corpus, cname), corpus, pt.parsePelFromBmcID, PELS,
                    make_config(pt, bmcID=12, **ckw))
            fs_case("parsePelFromPLID %s %s" % (corpus, cname), corpus, pt.parsePelFromPLID, PELS,
                    make_config(pt, plid="60000001", **ckw))
            fs_case("parsePelFromPLID none %s %s" % (corpus, cname), corpus, pt.parsePelFromPLID, PELS, make_config(pt, **ckw))
            fs_case("parsePelFromSRCID both %s %s" % (corpus, cname), corpus, pt.parsePelFromSRCID, PELS,
                    make_config(pt, src="BD8D", srcExcludeFile=EXCL, **ckw))
            fs_case("parsePelFromSRCID neither %s %s" % (corpus, cname), corpus, pt.parsePelFromSRCID, PELS,
                    make_config(pt, **ckw))
            fs_case("parsePelFromSRCID excl missing %s %s" % (corpus, cname), corpus, pt.parsePelFromSRCID, PELS,
                    make_config(pt, srcExcludeFile=os.path.join(CASE, "nope"), **ckw))
            fs_case("parsePelFromSRCID src empty %s %s" % (corpus, cname), corpus, pt.parsePelFromSRCID, PELS,
                    make_config(pt, src="", **ckw))
    for fn in ("listOption", "extractAllPELsData", "printPELCount", "parsePelFromPLID", "parsePelFromSRCID"):
        fs_case("%s missing dir" % fn, "small", getattr(pt, fn), os.path.join(CASE, "nope"),
                make_config(pt, plid="60000001", src="BD"))

    # CustomFormatter
    import argparse

    def fmt():
        p = argparse.ArgumentParser(prog="x", formatter_class=pt.CustomFormatter, description="d\n  e", epilog="f\n   g")
        p.add_argument("-S", "--sev", nargs="+", choices=["a", "b"], help="pick %(prog)s")
        p.add_argument("-T", "--tee", nargs="+", help="no choices")
        p.add_argument("-U", "--you", nargs="*", choices=["q"], help="star")
        p.add_argument("-V", "--vee", choices=["1", "2"], help="single")
        p.add_argument("pos", nargs="+", help="positional")
        return p.format_help()
    add("CustomFormatter", fmt)

    # the module surface
    add("public names", lambda: sorted(n for n in ("getSectionName parseHeader generatePH generateUH generateSRC "
                                                   "generateEH generateMT generateED generateUD generateIP generateDefault "
                                                   "sectionFun buildOutput KEY_PREFIX_RE prettyPrint considerPELIfSeverityMatches "
                                                   "considerPEL parsePEL parseAndWriteOutput deleteAllPELs processId "
                                                   "deletePELFromPELId parseAndPrintPELFile parsePelFromID parsePelFromBmcID "
                                                   "parsePelFromPLID parsePelFromSRCID parsePELSummary extractAndSummarizePEL "
                                                   "getFileList listOption extractAllPELsData printPELInHexFormat printPELCount "
                                                   "CustomFormatter main Config").split() if hasattr(pt, n)))
    import inspect
    add("signatures", lambda: [[n, str(inspect.signature(getattr(pt, n)))] for n in (
        "getSectionName parseHeader generatePH generateUH generateSRC generateEH generateMT generateED generateUD "
        "generateIP generateDefault sectionFun buildOutput prettyPrint considerPELIfSeverityMatches considerPEL parsePEL "
        "parseAndWriteOutput deleteAllPELs processId deletePELFromPELId parseAndPrintPELFile parsePelFromID "
        "parsePelFromBmcID parsePelFromPLID parsePelFromSRCID parsePELSummary extractAndSummarizePEL getFileList "
        "listOption extractAllPELsData printPELInHexFormat printPELCount main").split()])


def canon_pair(r):
    return [r[0], type(r[1]).__name__, len(r)]


def runner(outfile):
    import pel.peltool.peltool as pt
    results = []
    run_main_cases(pt, results)
    run_unit_cases(pt, results)
    with open(outfile, "w") as fd:
        json.dump(results, fd)


# --------------------------------------------------------------------------
# real command line
# --------------------------------------------------------------------------

def normalise_stderr(text, root):
    text = text.replace(root, "<ROOT>")
    if "Traceback (most recent call last):" in text:
        head, _, tail = text.partition("Traceback (most recent call last):")
        lines = [ln for ln in tail.splitlines() if ln and not ln.startswith(" ")]
        text = head + "<TRACEBACK> " + "\n".join(lines[-1:])
    return text


def run_cli_cases(root):
    results = []
    env = dict(os.environ, PYTHONPATH=os.path.join(root, "modules"), COLUMNS="80", PYTHONHASHSEED="0")
    script = os.path.join(root, "modules", "pel", "peltool", "peltool.py")
    for idx, case in enumerate(cli_cases()):
        materialize(case["corpus"])
        proc = subprocess.run([sys.executable] + case["pyopt"] + [script] + case["argv"], cwd=CASE, env=env,
                              stdin=subprocess.DEVNULL, capture_output=True)
        results.append({
            "id": "cli[%d] %s %s %s" % (idx, case["corpus"], " ".join(case["pyopt"]), " ".join(case["argv"])),
            "out": proc.stdout.decode("utf-8", "replace"),
            "err": normalise_stderr(proc.stderr.decode("utf-8", "replace"), root),
            "rc": proc.returncode,
            "snap": snapshot(),
        })
    return results


def collect(root):
    root = os.path.abspath(root)
    shutil.rmtree(WORK, ignore_errors=True)
    os.makedirs(WORK)
    outfile = os.path.join(WORK, "results.json")
    env = dict(os.environ, PYTHONPATH=os.path.join(root, "modules"), COLUMNS="80", PYTHONHASHSEED="0")
    proc = subprocess.run([sys.executable, os.path.abspath(__file__), "--runner", outfile], env=env,
                          stdin=subprocess.DEVNULL, capture_output=True, cwd=WORK)
    if proc.returncode != 0:
        sys.stderr.write(proc.stdout.decode() + proc.stderr.decode())
        raise SystemExit("runner failed for %s" % root)
    with open(outfile) as fd:
        results = json.load(fd)
    for rec in results:
        rec["err"] = rec["err"].replace(root, "<ROOT>")
        if rec.get("exc"):
            rec["exc"][1] = rec["exc"][1].replace(root, "<ROOT>")
    results.extend(run_cli_cases(root))
    shutil.rmtree(WORK, ignore_errors=True)
    return results


def main():
    if len(sys.argv) == 3 and sys.argv[1] == "--runner":
        runner(sys.argv[2])
        return 0
    if len(sys.argv) != 3:
        print(__doc__)
        return 2
    a = collect(sys.argv[1])
    b = collect(sys.argv[2])
    bad = 0
    if len(a) != len(b):
        print("different number of cases: %d vs %d" % (len(a), len(b)))
        bad += 1
    for ra, rb in zip(a, b):
        if ra != rb:
            bad += 1
            if bad <= 15:
                print("DIFFERENT: %s" % ra["id"])
                for key in sorted(set(ra) | set(rb)):
                    if ra.get(key) != rb.get(key):
                        print("   %s:\n      pristine: %r\n      patched:  %r" % (key, ra.get(key), rb.get(key)))
    if bad:
        print("DIFFERENT (%d of %d cases)" % (bad, len(a)))
        return 1
    print("IDENTICAL (%d cases)" % len(a))
    return 0


if __name__ == "__main__":
    sys.exit(main())
