#!/usr/bin/env python3
"""
Differential check for refactorings of io_drawer/* and pel/hexdump.py.

usage: diffcheck.py <pristine_root> <patched_root>

The script re-runs itself as a "driver" in sub-processes (once per root and
per interpreter mode) with PYTHONPATH pointing at <root>/modules, collects a
JSON map {case name: result} from every driver and compares the maps.  It also
runs the io_drawer/dump.py and peltool.py command line tools on generated
files and compares stdout / stderr / exit status.
"""

import json
import os
import random
import shutil
import struct
import subprocess
import sys
import tempfile

PY = sys.executable
SELF = os.path.abspath(__file__)


# --------------------------------------------------------------------------
# Input builders (shared by driver and CLI part; all deterministic)
# --------------------------------------------------------------------------

def rnd_bytes(rng, n):
    return bytes(rng.getrandbits(8) for _ in range(n))


def read_string_file(path):
    """Returns list of (hash, format, location) from a trace string file."""
    out = []
    with open(path) as f:
        for line in f:
            parts = line.rstrip('\n').split('||')
            if len(parts) == 3 and parts[0].strip().isdigit():
                out.append((int(parts[0]), parts[1], parts[2]))
    return out


def read_pte_patterns(path):
    pats = []
    with open(path) as f:
        for line in f:
            s = line.strip()
            if s.startswith('{ "') and len(s) > 12 and s[11] == '"':
                pats.append(s[3:11])
    return pats


def make_pte(rng, pattern):
    digits = '0123456789ABCDEF'
    s = ''.join(rng.choice(digits) if c == '*' else c for c in pattern)
    try:
        return int(s, 16)
    except ValueError:
        return rng.getrandbits(32)


def make_ilog(rng, patterns, count):
    out = bytearray()
    for _ in range(count):
        kind = rng.randrange(10)
        if kind == 0:
            out += bytes(8)
            continue
        ts = rng.choice([0, 1, 59, 60, 3599, 3600, 0xFFFE, 0xFFFF,
                         rng.getrandbits(16)])
        seq = rng.getrandbits(16)
        if kind < 7 and patterns:
            pte = make_pte(rng, rng.choice(patterns))
            if kind in (5, 6) and (pte & 0xF0000000) == 0xE0000000:
                pte |= 0x00040000
        elif kind == 7:
            pte = 0xE0000000 | rng.getrandbits(28)
        else:
            pte = rng.getrandbits(32)
        out += struct.pack('>HHI', ts, seq, pte)
    return bytes(out)


def make_trace_entry(rng, strings, corrupt=0):
    tbh = rng.choice([0, 61, 3700, 0xFFFF, rng.getrandbits(16)])
    tbl = rng.getrandbits(16)
    kind = rng.randrange(8)
    tag = 0x4654
    n_spec = None
    if strings:
        chosen = rng.choice(strings)
        hash_value = chosen[0]
        n_spec = chosen[1].count('%')
    else:
        hash_value = rng.getrandbits(32)
    if kind == 0:
        tag = 0x4644
    elif kind == 1:
        hash_value = (hash_value + 100000 * rng.randrange(1, 50)) & 0xFFFFFFFF
    elif kind == 2:
        hash_value = rng.getrandbits(32)
    elif kind == 3:
        tag = rng.getrandbits(16)
    length = rng.choice([0, 0, 4, 8, 12, 16, 20, 24, 1, 2, 3, 5, 7, 13, 33,
                         rng.randrange(0, 80)])
    if n_spec is not None and rng.randrange(3):
        length = 4 * n_spec
    if corrupt == 1:
        length = rng.choice([1024, 1025, 2000, 0xFFFF])
    data = rnd_bytes(rng, length if length <= 1100 else 64)
    if rng.randrange(3) == 0 and length >= 4:
        data = struct.pack('>I', rng.randrange(0, 300)) + data[4:]
    pad = b'\0' * ((4 - (len(data) % 4)) % 4)
    line = rng.randrange(0, 200000)
    fixed = struct.pack('>HHHHII', tbh, tbl, length, tag, hash_value, line)
    total = len(fixed) + len(data) + len(pad) + 4
    if corrupt == 2:
        total += rng.choice([-4, 1, 4, 100])
    if corrupt == 3:
        pad = b''
    return fixed + data + pad + struct.pack('>I', total & 0xFFFFFFFF)


def make_trace_buffer(rng, strings, name=None, n_entries=None, corrupt=0,
                      size_mode=0):
    names = ['IICS', 'IICM', 'POWR', 'FANS', 'INFO', 'ERRL']
    if name is None:
        name = rng.choice(names)
    if n_entries is None:
        n_entries = rng.randrange(0, 8)
    body = bytearray()
    for i in range(n_entries):
        c = 0
        if corrupt and i == n_entries - 1:
            c = corrupt
        body += make_trace_entry(rng, strings, c)
    comp = name.encode('latin-1')[:12]
    comp = comp + rng.choice([b'\0', b' ']) * (12 - len(comp))
    size = 32 + len(body)
    if size_mode == 1:
        size = 32 + len(body) // 2
    elif size_mode == 2:
        size = 0xFFFFFF
    elif size_mode == 3:
        size = 0
    hdr = (b'\x02\x20\x01\x42' + comp + rnd_bytes(rng, 4) +
           struct.pack('>III', size, rng.randrange(0, 1000),
                       rng.randrange(0, 5000)))
    return bytes(hdr + body)


def fmt_bmc(data):
    """'AAAA:  DDDDDDDD DDDDDDDD DDDDDDDD DDDDDDDD  <CCCCCCCCCCCCCCCC>'"""
    lines = []
    for i in range(0, len(data), 16):
        chunk = data[i:i + 16]
        hx = chunk.hex().upper()
        words = ' '.join(hx[j:j + 8] for j in range(0, len(hx), 8))
        txt = ''.join(chr(b) if 0x20 <= b < 0x7f else '.' for b in chunk)
        if len(chunk) == 16:
            lines.append('%04X:  %s  <%s>\n' % (i & 0xFFFF, words, txt))
        else:
            lines.append('%04X:  %s\n' % (i & 0xFFFF, words))
    return lines


def fmt_prebmc(data):
    """'DD DD ... DD CCCCCCCCCCCCCCCC'"""
    lines = []
    for i in range(0, len(data), 16):
        chunk = data[i:i + 16]
        hx = ' '.join('%02x' % b for b in chunk)
        txt = ''.join(chr(b) if 0x20 <= b < 0x7f else '.' for b in chunk)
        if len(chunk) == 16:
            lines.append('%s %s\n' % (hx, txt))
        else:
            lines.append('%s\n' % hx)
    return lines


def make_dump(rng, patterns, strings, n_buffers=None):
    names = ['IICS', 'IICM', 'POWR', 'FANS', 'INFO', 'ERRL']
    if n_buffers is None:
        n_buffers = rng.randrange(0, 5)
    data = bytearray(make_ilog(rng, patterns, rng.randrange(0, 30)))
    if rng.randrange(4) == 0:
        data += rnd_bytes(rng, rng.randrange(1, 8))
    chosen = [rng.choice(names) for _ in range(n_buffers)]
    for name in chosen:
        data += make_trace_buffer(rng, strings, name,
                                  corrupt=rng.choice([0, 0, 0, 1, 2, 3]),
                                  size_mode=rng.choice([0, 0, 0, 1, 2, 3]))
        if rng.randrange(3) == 0:
            data += rnd_bytes(rng, rng.randrange(0, 40))
    return bytes(data)


HEADER_VARIANTS = [
    # well formed small table
    ['// comment\n',
     'static struct pte_entry_struct static_pte_entry_table[PTE_TABLE_SIZE] = \n',
     '{\n',
     '  { "01040000", "Power on complete", {}, "states.cpp", 601 },\n',
     '  { "100100**", "PS%d - Faults Cleared", {4}, "mps.cpp", 759 },\n',
     '  { "0200****", "  This PEROM level = %c%c  ", {3, 4}, "states.cpp", 254 },\n',
     '  { "E2082690", "P1 IO Bay VRM in \\"N-Mode\\"", {}, "vrm_monitor.cpp", 145 },\n',
     '  { "E20A****", "Bad %d %d %d", {1, 2, 3, 4, 5, 0, 9}, "x.cpp", 1 },\n',
     '  { "E30B****", "Too many %d", {1, 2}, "x.cpp", 2 },\n',
     '  { "E40B****", "Too few %d %d", {1}, "x.cpp", 3 },\n',
     '  { "e50b**2*", "lower %s", {12}, "x.cpp", 4 },\n',
     '  { "E6(0|1)B***", "regex-ish", {}, "x.cpp", 5 },\n',
     '  { "F*******", "catch F 100%", {}, "x.cpp", 6 },\n',
     '  not an entry\n',
     '  { "AAAA0000", "missing line", {}, "x.cpp" },\n',
     '  { ""        , "The End" }\n',
     '  { "BBBB0000", "after the end", {}, "x.cpp", 7 },\n',
     '};\n',
     '\n',
     'static struct mex_hlog_field mex_hlog_fields[MEX_HLOG_FIELD_COUNT] =\n',
     '{\n',
     '  { 1, "hl_one" }, \n',
     '  { 2, "hl_two" },\n',
     '  { 3, "hl_bad_size" },\n',
     '  { 1, "hl_three" }\n',
     '  garbage\n',
     '  { 2, "hl_four" },\n',
     '};\n',
     '  { 2, "hl_after_end" },\n'],
    # brace on same line, second table re-opened later, no end markers
    ['struct pte_entry_struct static_pte_entry_table[] = {\n',
     '{ "1*******", "one %d %d %d %d", {1,2,3,4}, "a.cpp", 10 },\n',
     '{ "E*******", "err %02X", {4}, "a.cpp", 11 },\n',
     'struct mex_hlog_field mex_hlog_fields[3] = {\n',
     '{ 2, "f_a" },\n',
     '{ 2, "f_b" },\n',
     '{1,"f_c"}\n',
     '{ "2*******", "two", {}, "a.cpp", 12 },\n'],
    # empty file
    [],
    # only garbage, bad regex pattern in pte field
    ['static struct pte_entry_struct static_pte_entry_table[1] =\n',
     '{ "(((", "bad pattern", {}, "a.cpp", 1 },\n'],
    # no trailing newline on last entry line, 'The End' closing then reopening
    ['struct pte_entry_struct static_pte_entry_table[1] = {\n',
     '  { ""  , "The End" } trailing\n',
     '{ "3*******", "not in table", {}, "a.cpp", 1 },\n',
     'struct pte_entry_struct static_pte_entry_table[1] = {\n',
     '{ "4*******", "in table %c", {2}, "a.cpp", 99999999999999999999 },'],
]

STRING_VARIANTS = [
    ['#FSP_TRACE_v2|||Thu Sep 24 12:55:43 2020|||BUILD:Release\n',
     '32403714||E> Controller 0x%X: Failure count = %d||a.cpp(324)\n',
     '  38405017  || padded %d %s ||  b.cpp(384)  \n',
     '41406102||no args||c.cpp(414)\n',
     '41506102||partial twin of previous %u||c.cpp(415)\n',
     '45603949||five %d %d %d %d %d||d.cpp(456)\n',
     '45603950||six %d %d %d %d %d %d||d.cpp(457)\n',
     '99||percent 100% done||e.cpp(1)\n',
     '100099||x||y||z||e.cpp(2)\n',
     'abc||not a number||e.cpp(3)\n',
     '12345|single bar|e.cpp(4)\n',
     '\n',
     '32403714||duplicate hash %c||f.cpp(5)\n',
     '777||no newline at end %x||g.cpp(6)'],
    [],
    ['garbage only\n'],
]


# --------------------------------------------------------------------------
# Driver: runs inside a sub-process with PYTHONPATH=<root>/modules
# --------------------------------------------------------------------------

def driver(root, workdir):
    import importlib
    results = {}

    def norm(s):
        return s.replace(root, '<ROOT>')

    def run(name, func):
        try:
            value = func()
            res = ['ok', value]
        except BaseException as e:   # noqa
            res = ['exc', type(e).__name__, norm(str(e))]
        # must be JSON serialisable and deterministic
        res = json.loads(json.dumps(res, default=lambda o: ['<repr>', norm(repr(o))]))
        assert name not in results, name
        results[name] = res

    hexdump_mod = importlib.import_module('pel.hexdump')
    utils = importlib.import_module('io_drawer.utils')
    ilog = importlib.import_module('io_drawer.ilog')
    hlog = importlib.import_module('io_drawer.hlog')
    trace = importlib.import_module('io_drawer.trace')
    dump = importlib.import_module('io_drawer.dump')
    drawer_type = importlib.import_module('io_drawer.drawer_type')
    m2c00 = importlib.import_module('udparsers.m2c00.m2c00')
    from pel.datastream import DataStream

    rng = random.Random(20290)

    # ---- drawer types -----------------------------------------------------
    def dt_info():
        out = []
        for dt in drawer_type.DRAWER_TYPES:
            out.append([dt.name, dt.header_file_name, dt.string_file_name,
                        dt.user_data_version,
                        norm(dt.get_header_file_path()),
                        norm(dt.get_trace_string_file_path())])
        d = drawer_type.DrawerType('x', 'sub/h.h', '/abs/s', 7)
        out.append([d.name, d.header_file_name, d.string_file_name,
                    d.user_data_version, norm(d.get_header_file_path()),
                    norm(d.get_trace_string_file_path())])
        out.append(drawer_type.MEX_DRAWER_TYPE is drawer_type.DRAWER_TYPES[0])
        out.append(drawer_type.NIMITZ_DRAWER_TYPE is drawer_type.DRAWER_TYPES[1])
        return out
    run('drawer_type/info', dt_info)
    run('dump/type_names', lambda: dump._get_drawer_type_names())
    for nm in ['mex', 'nimitz', 'MEX', '', None, 'other', 5]:
        run('dump/get_type/%r' % (nm,),
            lambda: getattr(dump._get_drawer_type(nm), 'name', 'NONE'))

    # ---- utils ------------------------------------------------------------
    run('utils/all', lambda: [utils.format_timestamp(t)
                              for t in range(-3, 0x10003)])
    for t in [1.5, 3600.0, 7325.25, -0.5, 65534.5, 65535.0, True, 10**9,
              None, '12', 1 + 2j]:
        run('utils/odd/%r' % (t,), lambda: utils.format_timestamp(t))

    # ---- hexdump.hexdump --------------------------------------------------
    blob = rnd_bytes(rng, 600)
    n = 0
    for length in list(range(0, 40)) + [63, 64, 65, 255, 256, 257, 600]:
        data = blob[:length]
        for conv in ('bytes', 'mv', 'ba', 'list'):
            if conv == 'bytes':
                d = data
            elif conv == 'mv':
                d = memoryview(data)
            elif conv == 'ba':
                d = bytearray(data)
            else:
                d = list(data)
            run('hexdump/default/%d/%s' % (length, conv),
                lambda: hexdump_mod.hexdump(d))
        for (bpl, bpc) in [(16, 4), (8, 4), (16, 1), (1, 1), (5, 3), (3, 5),
                           (32, 8), (256, 256), (7, 7), (16, 16), (10, 4)]:
            if length % 3 == 0 or length > 60:
                n += 1
                run('hexdump/%d/%d/%d' % (length, bpl, bpc),
                    lambda: hexdump_mod.hexdump(memoryview(data), bpl, bpc))
    text = bytes(range(256))
    run('hexdump/allbytes', lambda: hexdump_mod.hexdump(memoryview(text)))
    run('hexdump/kw', lambda: hexdump_mod.hexdump(
        memoryview(text), bytes_per_chunk=2, bytes_per_line=12))
    for (bpl, bpc) in [(0, 4), (16, 0), (257, 4), (16, 257), (-1, 4),
                       (16, -4), (2.5, 1), (16, 1.5), ('16', 4), (None, 4)]:
        run('hexdump/badargs/%r/%r' % (bpl, bpc),
            lambda: hexdump_mod.hexdump(memoryview(text[:40]), bpl, bpc))
    for odd in ['abc', [1, 300, -1, 65], [1.5], [None], None, 5,
                [(65,)], memoryview(text[:32]).cast('H'),
                memoryview(text[:32]).cast('b'), memoryview(text)[::2],
                [65, 'a', 66], (1, 2, 3), range(70, 90)]:
        run('hexdump/odd/%r' % (odd if not isinstance(odd, memoryview)
                                  else ('mv', odd.format, len(odd)),),
            lambda: hexdump_mod.hexdump(odd))

    # ---- hexdump.parse ----------------------------------------------------
    fmts = [hexdump_mod.DEFAULT_LINE_FORMAT] + list(dump.HEX_DUMP_LINE_FORMATS) + [
        'DD', 'D', 'D D', 'DDD', 'A D', 'AADD|CC|', 'xDDx', '', 'CCCC', 'AAAA',
        'DD:DD:DD', 'D-D', 'DDDD DDDD', 'AAAA DD DD X']
    for length in [0, 1, 2, 15, 16, 17, 31, 32, 33, 48, 100]:
        data = blob[100:100 + length]
        srcs = {
            'std': [l + '\n' for l in hexdump_mod.hexdump(memoryview(data))],
            'stdnonl': list(hexdump_mod.hexdump(memoryview(data))),
            'bmc': fmt_bmc(data),
            'pre': fmt_prebmc(data),
        }
        for sname, lines in srcs.items():
            for fi, f in enumerate(fmts[:3]):
                run('parse/%d/%s/%d' % (length, sname, fi),
                    lambda: list(hexdump_mod.parse(lines, f)))
            run('parse/%d/%s/default' % (length, sname),
                lambda: list(hexdump_mod.parse(lines)))
    odd_lines = [
        '', '\n', '\n\n', 'A', 'AB', 'ABC', 'abcd', 'ab cd', 'a b', ' ab',
        'zz', 'az', 'za', '0G', '1:2:3', '12:34:56', '12:34:5', '12-34',
        '1 2', '1  2', 'A-B', '12345678', '1234 5678', '1234 567', '1234 56x8',
        '0000 12 34 X', '0000 12 34 Y', '00g0 12 34 X', '0000 12 3',
        'ab|cd', 'abcd|xy|', 'abcd|xyz', 'abcd|x', 'xabx', 'xabxx', 'yabx',
        '١٢', '１２', 'AB\r\n', 'AB\n\n', 'AB \n', '\tAB',
        '0000:  01020304 05060708 090A0B0C 0D0E0F10  <................>',
        '0000:  01020304 05060708 090A0B0C 0D0E0F1   <................>',
        '0000:  01020304 05060708 090A0B0C 0D0E0F10  <................> ',
        '0000:  0102030',
        '01 02 03 04 05 06 07 08 09 0a 0b 0c 0d 0e 0f 10 ................',
        '01 02 03 04 05 06 07 08 09 0a 0b 0c 0d 0e 0f 1',
        '01 02 03 04 05 06 07 08 09 0a 0b 0c 0d 0e 0f 10 ..........  xxxxxxxxxx',
        '00000000     01020304  05060708  090A0B0C  0D0E0F10     ................',
        '00000010     0102                                       ..              ',
    ]
    for fi, f in enumerate(fmts):
        run('parse/odd/all/%d' % fi,
            lambda: list(hexdump_mod.parse(odd_lines, f)))
        for li, l in enumerate(odd_lines):
            run('parse/odd/%d/%d' % (fi, li),
                lambda: list(hexdump_mod.parse([l], f)))
    prng = random.Random(5)
    alphabet = '0123456789abcdefABCDEFgG :|<>.\n-x'
    for i in range(300):
        f = prng.choice(fmts)
        lines = []
        for _ in range(prng.randrange(0, 5)):
            ln = prng.randrange(0, len(f) + 3)
            if prng.randrange(2):
                # mutate a line that fits the format
                s = ''.join(prng.choice('0123456789abcdefABCDEF')
                            if c in 'AD' else c for c in f)[:ln]
                if s and prng.randrange(2):
                    p = prng.randrange(len(s))
                    s = s[:p] + prng.choice(alphabet) + s[p + 1:]
            else:
                s = ''.join(prng.choice(alphabet) for _ in range(ln))
            lines.append(s + prng.choice(['', '\n']))
        run('parse/rand/%d' % i, lambda: list(hexdump_mod.parse(lines, f)))
    run('parse/type', lambda: type(hexdump_mod.parse(['AB'], 'DD')).__name__)
    for bad in [None, 5, [b'AB'], [None], [5], ['AB', None], 'ABCD', ('AB', 'CD'),
                iter(['AB', 'CD'])]:
        run('parse/badlines/%r' % (bad if not hasattr(bad, '__next__') else 'iter',),
            lambda: list(hexdump_mod.parse(bad, 'DD')))
    for badf in [None, 5, b'DD', ['D', 'D'], ('D', 'D')]:
        run('parse/badfmt/%r' % (badf,),
            lambda: list(hexdump_mod.parse(['AB', 'C'], badf)))

    # ---- header / string files -------------------------------------------
    mex_h = os.path.join(root, 'modules', 'io_drawer', 'mex_pte.h')
    nim_h = os.path.join(root, 'modules', 'io_drawer', 'nimitz_pte.h')
    mex_s = os.path.join(root, 'modules', 'io_drawer', 'mexStringFile')
    nim_s = os.path.join(root, 'modules', 'io_drawer', 'nimitzStringFile')
    header_files = [mex_h, nim_h]
    for i, lines in enumerate(HEADER_VARIANTS):
        p = os.path.join(workdir, 'hdr%d.h' % i)
        with open(p, 'w') as f:
            f.writelines(lines)
        header_files.append(p)
    missing = os.path.join(workdir, 'does_not_exist')
    header_files.append(missing)
    header_files.append(workdir)     # a directory
    string_files = [mex_s, nim_s]
    for i, lines in enumerate(STRING_VARIANTS):
        p = os.path.join(workdir, 'str%d' % i)
        with open(p, 'w') as f:
            f.writelines(lines)
        string_files.append(p)
    string_files.append(missing)
    binfile = os.path.join(workdir, 'binary.bin')
    with open(binfile, 'wb') as f:
        f.write(bytes(range(256)) * 4)
    header_files.append(binfile)
    string_files.append(binfile)

    def wn(p):
        return p.replace(workdir, '<WORK>')

    # ---- ilog ---------------------------------------------------------------
    def entry_info(e):
        return [e.pte_pattern, e.message_format, list(e.params), e.file,
                e.line, e.pte_re.pattern, e.pte_re.flags]

    def table_info(path):
        t = ilog.PTETable(path)
        return [wn(norm(t.header_file_path)), [entry_info(e) for e in t.entries]]

    for hi, h in enumerate(header_files):
        run('ilog/table/%d' % hi, lambda: table_info(h))
        run('hlog/fields/%d' % hi,
            lambda: [[f.name, f.size, type(f).__name__, list(f)]
                     for f in hlog.get_hlog_fields(h)])

    ptes_special = [0, 1, 0xFFFFFFFF, 0xE0040000, 0xE0000000, 0xE2082690,
                    0xE20C2690, 0xE20A1234, 0xE20E1234, 0xE30B0102, 0xE40F0102,
                    0xE50B0020, 0xE50F002A, 0xE60B0000, 0xF0040000, 0xF1234567,
                    0x01040000, 0x10010005, 0x02004142, 0x02000025, 0x12345678,
                    0xE1234567, 0x40410000, 0x4F004200, -1, 1 << 32,
                    (1 << 32) + 0x01040000, 0xE0040000 + (1 << 36)]
    for hi, h in enumerate(header_files[:7]):
        def probe():
            t = ilog.PTETable(h)
            out = []
            prng2 = random.Random(hi)
            pats = [e.pte_pattern for e in t.entries]
            ptes = list(ptes_special)
            for _ in range(150):
                if pats and prng2.randrange(3):
                    p = make_pte(prng2, prng2.choice(pats))
                    if prng2.randrange(2) and (p & 0xF0000000) == 0xE0000000:
                        p |= 0x40000
                else:
                    p = prng2.getrandbits(32)
                ptes.append(p)
            for p in ptes:
                e = t.get_entry(p)
                if e is None:
                    out.append([p, None])
                else:
                    out.append([p, t.entries.index(e), e.get_message(p),
                                e.matches(p), e._is_exact_match(p),
                                e._is_reported_error_pte(p)])
            # per entry checks
            for e in t.entries[:40]:
                for p in ptes[:40]:
                    out.append([e.matches(p), e._is_exact_match(p),
                                e._is_reported_error_pte(p), e.get_message(p)])
            return out
        run('ilog/probe/%d' % hi, probe)

    def direct_entries():
        out = []
        specs = [('0200****', 'lvl %c%c', (3, 4), 'f', 1),
                 ('E*******', 'e %d', (0, 5, 2, -1, 4), 'f', 2),
                 ('ABCDEF12', 'plain', (), 'f', 3),
                 ('abcdef12', '%s %s', (1,), 'f', 4),
                 ('E***', 'short', (), 'f', 5),
                 ('E.......', 'dots %(x)d', (1,), 'f', 6),
                 ('E0040000', 'pct %', (), 'f', 7),
                 ('********', '%c', [1], 'f', 8),
                 ('.*', '%x %X %o %i %u', (1, 2, 3, 4, 1), 'f', 9)]
        for spec in specs:
            e = ilog.PTETableEntry(*spec)
            row = [entry_info(e)]
            for p in [0x02004142, 0xE0040000, 0xE0000000, 0xABCDEF12,
                      0xE0041234, 0xE004, 0, 0xFFFFFFFF, 0x0A0B0C0D]:
                row.append([e.get_message(p), e.matches(p),
                            e._is_exact_match(p), e._is_reported_error_pte(p)])
            out.append(row)
        return out
    run('ilog/direct', direct_entries)
    for bad in [('(', 'm', (), 'f', 1), ('A', 'm', ('1',), 'f', 1),
                ('A', 'm', None, 'f', 1), (None, 'm', (), 'f', 1),
                (5, 'm', (), 'f', 1)]:
        run('ilog/badentry/%r' % (bad,),
            lambda: entry_info(ilog.PTETableEntry(*bad)))

    def add_entry_cases():
        t = ilog.PTETable(header_files[4])   # empty file
        out = []
        for fields in [('0200****', ' m %c ', '3, 4', 'f.cpp', '254'),
                       ('0200****', 'm', '3, 4', 'f.cpp'),
                       ('0200****', 'm', '3, 4', 'f.cpp', '1', 'x'),
                       ('A', 'q \\" q', '12 x3,,4', 'f', '007'),
                       ('A', 'm', '', 'f', ' 5 '),
                       ['B', 'm', '1', 'f', '6'],
                       ()]:
            t._add_entry(fields)
            out.append(len(t.entries))
        out.append([entry_info(e) for e in t.entries])
        return out
    run('ilog/add_entry', add_entry_cases)
    for fields in [('A', 'm', '1', 'f', 'x'), ('A', 'm', '1', 'f', None),
                   ('A', None, '1', 'f', '1'), ('A', 'm', None, 'f', '1'),
                   ('A', 'm', 5, 'f', '1'), None, 5]:
        def f_():
            t = ilog.PTETable(header_files[4])
            t._add_entry(fields)
            return [entry_info(e) for e in t.entries]
        run('ilog/add_entry_bad/%r' % (fields,), f_)

    mex_pats = read_pte_patterns(mex_h)
    nim_pats = read_pte_patterns(nim_h)
    var_pats = ['01040000', '100100**', '0200****', 'E2082690', 'E20A****',
                'E30B****', 'E40B****', 'e50b**2*', 'F*******', '1*******',
                'E*******', '4*******']
    ilog_inputs = []
    irng = random.Random(77)
    for i in range(40):
        pats = [mex_pats, nim_pats, var_pats][i % 3]
        d = make_ilog(irng, pats, irng.randrange(0, 40))
        cut = irng.choice([0, 0, 1, 3, 7])
        if cut:
            d = d[:-cut] if len(d) > cut else d
        ilog_inputs.append(d)
    ilog_inputs += [b'', b'\0', bytes(7), bytes(8), bytes(9), bytes(64),
                    b'\xff' * 8, b'\xff' * 17, rnd_bytes(irng, 1000)]
    for di, d in enumerate(ilog_inputs):
        for hi, h in enumerate(header_files):
            if hi >= 2 and di % 4 != (hi % 4) and di < 40:
                continue
            run('ilog/parse/%d/%d' % (di, hi),
                lambda: ilog.parse_ilog_data(memoryview(d), h))
    run('ilog/parse/bytes', lambda: ilog.parse_ilog_data(ilog_inputs[0], mex_h))
    run('ilog/parse/bytearray',
        lambda: ilog.parse_ilog_data(bytearray(ilog_inputs[3]), mex_h))
    run('ilog/parse/none', lambda: ilog.parse_ilog_data(None, mex_h))
    run('ilog/parse/str', lambda: ilog.parse_ilog_data('abcdefghijklmnop', mex_h))
    run('ilog/parse/list', lambda: ilog.parse_ilog_data([1] * 16, mex_h))

    # ---- hlog ---------------------------------------------------------------
    hrng = random.Random(99)
    hlog_inputs = [b'', b'\0', b'\1', bytes(300), b'\xff' * 300, b'\0\1\0\0\2']
    for i in range(25):
        ln = hrng.choice([1, 2, 3, 5, 10, 50, 100, 150, 200, 250, 400])
        d = bytearray(rnd_bytes(hrng, ln))
        for j in range(len(d)):
            if hrng.randrange(3):
                d[j] = 0
        hlog_inputs.append(bytes(d))
    for di, d in enumerate(hlog_inputs):
        for hi, h in enumerate(header_files):
            if hi >= 2 and (di + hi) % 3:
                continue
            run('hlog/parse/%d/%d' % (di, hi),
                lambda: hlog.parse_hlog_data(memoryview(d), h))
    run('hlog/parse/bytes', lambda: hlog.parse_hlog_data(hlog_inputs[7], mex_h))
    run('hlog/parse/none', lambda: hlog.parse_hlog_data(None, mex_h))
    run('hlog/parse/list', lambda: hlog.parse_hlog_data([1, 2, 3], mex_h))

    # ---- trace --------------------------------------------------------------
    def sf_info(path):
        sf = trace.TraceStringFile(path)
        return [wn(norm(sf.string_file_path)),
                [[s.hash_value, s.message_format, s.location]
                 for s in sf.trace_strings]]
    for si, s in enumerate(string_files):
        run('trace/stringfile/%d' % si, lambda: sf_info(s))

    def lookups(path, seed):
        sf = trace.TraceStringFile(path)
        prng3 = random.Random(seed)
        hashes = [s.hash_value for s in sf.trace_strings]
        out = []
        probes = [0, 1, 99, 100099, 200099, 777, 100777, 32403714, 32503714,
                  41406102, 41506102, 41606102, -1, 2 ** 32, 6102, 106102]
        for _ in range(120):
            if hashes and prng3.randrange(4):
                h = prng3.choice(hashes) + 100000 * prng3.choice([0, 0, 1, -1, 7])
            else:
                h = prng3.getrandbits(32)
            probes.append(h)
        for h in probes:
            ts = sf.get_trace_string(h)
            if ts is None:
                out.append([h, None])
            else:
                out.append([h, sf.trace_strings.index(ts), ts.is_match(h),
                            ts.is_partial_match(h),
                            ts.get_message((1, 2, 3, 4, 5)), ts.get_message(()),
                            ts.get_message((65,))])
        return out
    for si, s in enumerate(string_files[:5]):
        run('trace/lookup/%d' % si, lambda: lookups(s, si))

    def add_ts_cases():
        sf = trace.TraceStringFile(string_files[3])
        out = []
        for fields in [(' 12 ', ' m %d ', ' loc '), ('12', 'm'),
                       ('12', 'm', 'l', 'x'), ['13', 'n', 'k'], ()]:
            sf._add_trace_string(fields)
            out.append(len(sf.trace_strings))
        out.append([[s.hash_value, s.message_format, s.location]
                    for s in sf.trace_strings])
        return out
    run('trace/add_ts', add_ts_cases)
    for fields in [('x', 'm', 'l'), (None, 'm', 'l'), ('1', None, 'l'),
                   ('1', 'm', 5), None]:
        def f2():
            sf = trace.TraceStringFile(string_files[3])
            sf._add_trace_string(fields)
            return len(sf.trace_strings)
        run('trace/add_ts_bad/%r' % (fields,), f2)

    def ts_direct():
        out = []
        for (h, f) in [(12345678, 'a %d b %s'), (5, '%c'), (100005, '100%'),
                       (0, ''), (7, '%(k)s'), (8, '%d %d %d %d %d %d')]:
            ts = trace.TraceString(h, f, 'loc')
            row = [ts.hash_value, ts.message_format, ts.location]
            for args in [(), (1,), (1, 2), (65, 66, 67, 68, 69),
                         (0x110000,), (2 ** 32 - 1,) * 5]:
                row.append(ts.get_message(args))
            for hv in [h, h + 100000, h - 100000, h + 1, 5, 100005, 200005]:
                row.append([ts.is_match(hv), ts.is_partial_match(hv)])
            out.append(row)
        return out
    run('trace/ts_direct', ts_direct)

    def hdr_info(h):
        return [h.ver, h.hdr_len, h.time_flg, h.endian_flg,
                h.comp if not isinstance(h.comp, memoryview) else ['mv', bytes(h.comp).hex()],
                h.size, h.times_wrap, h.next_free]

    def ent_info(e):
        return [e.tbh, e.tbl, e.length, e.tag, e.hash_value, e.line,
                None if e.data is None else bytes(e.data).hex(),
                type(e.data).__name__, e.is_binary_trace(), list(e.get_args())]

    mex_strings = read_string_file(mex_s)
    nim_strings = read_string_file(nim_s)
    var_strings = read_string_file(string_files[2])
    trng = random.Random(4242)
    trace_inputs = []
    for i in range(60):
        strings = [mex_strings, nim_strings, var_strings][i % 3]
        d = make_trace_buffer(trng, strings,
                              corrupt=trng.choice([0, 0, 0, 1, 2, 3]),
                              size_mode=trng.choice([0, 0, 0, 1, 2, 3]))
        mode = trng.randrange(6)
        if mode == 0 and len(d) > 1:
            d = d[:trng.randrange(1, len(d))]
        elif mode == 1:
            d = d + rnd_bytes(trng, trng.randrange(1, 40))
        elif mode == 2:
            b = bytearray(d)
            for _ in range(3):
                b[trng.randrange(len(b))] = trng.getrandbits(8)
            d = bytes(b)
        trace_inputs.append(d)
    trace_inputs += [b'', b'\0', bytes(31), bytes(32), bytes(33), bytes(48),
                     b'\xff' * 32, b'\xff' * 64, rnd_bytes(trng, 500),
                     b'\x02\x20\x01\x42' + b'\xc3\xa9\x80\xff AB \0 \0 ' +
                     bytes(4) + struct.pack('>III', 32, 1, 2),
                     b'\x02\x20\x01\x42' + b'INFO \0 \0  \0\0' +
                     bytes(4) + struct.pack('>III', 32, 1, 2)]

    def header_read(d):
        h = trace.TraceBufferHeader()
        st = DataStream(memoryview(d), byte_order='big', is_signed=False)
        r = h.read(st)
        return [r, st.index, hdr_info(h)]

    def entry_read(d, off):
        e = trace.TraceEntry()
        st = DataStream(memoryview(d), byte_order='big', is_signed=False)
        if off and st.check_range(off):
            st.inc_index(off)
        r = e.read(st)
        return [r, st.index, ent_info(e)]

    def buffer_read(d):
        b = trace.TraceBuffer()
        st = DataStream(memoryview(d), byte_order='big', is_signed=False)
        r = b.read(st)
        return [r, st.index, hdr_info(b.header),
                [ent_info(e) for e in b.entries]]

    for di, d in enumerate(trace_inputs):
        run('trace/hdr/%d' % di, lambda: header_read(d))
        run('trace/entry/%d' % di, lambda: entry_read(d, 32))
        run('trace/entry0/%d' % di, lambda: entry_read(d, 0))
        run('trace/buffer/%d' % di, lambda: buffer_read(d))
        for si, s in enumerate(string_files):
            if si >= 2 and (di + si) % 3:
                continue
            run('trace/parse/%d/%d' % (di, si),
                lambda: trace.parse_trace_data(memoryview(d), s))
    erng = random.Random(31)
    for i in range(150):
        d = make_trace_entry(erng, var_strings, erng.choice([0, 0, 0, 1, 2, 3]))
        if erng.randrange(4) == 0:
            d = d[:erng.randrange(0, len(d))]
        run('trace/entry_only/%d' % i, lambda: entry_read(d, 0))

    def fresh_objects():
        h = trace.TraceBufferHeader()
        e = trace.TraceEntry()
        b = trace.TraceBuffer()
        return [hdr_info(h), ent_info(e), b.header, b.entries,
                trace.TraceBufferHeader.SIZE, trace.TraceBufferHeader.BUFFER_NAMES,
                trace.TraceEntry.FIXED_SIZE, trace.TraceEntry.MAX_DATA_LEN,
                trace.TraceEntry.TYPE_FIELDTRACE == 0x4654,
                trace.TraceEntry.TYPE_FIELDBIN == 0x4644,
                int(trace.TraceEntry.TYPE_FIELDTRACE),
                int(trace.TraceEntry.TYPE_FIELDBIN),
                trace.TraceEntry.MAX_ARGS, trace.TraceStringFile.LINE_RE.pattern]
    run('trace/fresh', fresh_objects)

    def get_args_cases():
        out = []
        for tag in [0x4654, 0x4644, 0, trace.TraceEntry.TYPE_FIELDBIN,
                    trace.TraceEntry.TYPE_FIELDTRACE]:
            for data in [None, b'', b'\1', bytes(range(3)), bytes(range(4)),
                         bytes(range(7)), bytes(range(8)), bytes(range(19)),
                         bytes(range(20)), bytes(range(21)), bytes(range(40)),
                         bytearray(range(9)), memoryview(bytes(range(12))),
                         memoryview(bytes(range(24)))[::2],
                         memoryview(bytes(range(24))).cast('H')]:
                e = trace.TraceEntry()
                e.tag = tag
                e.data = data
                try:
                    out.append([int(tag), list(e.get_args()),
                                type(e.get_args()).__name__,
                                e.is_binary_trace()])
                except Exception as ex:
                    out.append([int(tag), type(ex).__name__, str(ex)])
        return out
    run('trace/get_args', get_args_cases)

    def format_entry_cases():
        out = []
        sf = trace.TraceStringFile(string_files[2])
        for tag in [0x4654, 0x4644]:
            for hv in [32403714, 32503714, 41406102, 41506102, 1, 99, 100099,
                       45603949, 45603950, 777, 38405017]:
                for data in [None, b'', bytes(range(8)), bytes(range(21)),
                             memoryview(bytes(range(65, 90)))]:
                    for tbh in [0, 3661, 0xFFFF]:
                        e = trace.TraceEntry()
                        e.tbh = tbh
                        e.tbl = 0xAB
                        e.line = 123456 if tbh else 7
                        e.hash_value = hv
                        e.tag = tag
                        e.data = data
                        lines = ['pre']
                        trace._format_trace_entry(e, sf, lines)
                        out.append(lines)
        return out
    run('trace/format_entry', format_entry_cases)
    run('trace/parse/none', lambda: trace.parse_trace_data(None, mex_s))
    run('trace/parse/bytes', lambda: trace.parse_trace_data(trace_inputs[1], mex_s))
    run('trace/parse/bytes2', lambda: trace.parse_trace_data(bytes(10), mex_s))

    # ---- dump ---------------------------------------------------------------
    drng = random.Random(808)
    dump_inputs = [b'', b'\0', bytes(8), rnd_bytes(drng, 100)]
    for i in range(40):
        pats, strings = [(mex_pats, mex_strings), (nim_pats, nim_strings),
                         (var_pats, var_strings)][i % 3]
        dump_inputs.append(make_dump(drng, pats, strings))
    # two buffers with the same name, buffer at offset 0, adjacent headers
    dump_inputs.append(make_trace_buffer(drng, mex_strings, 'INFO', 2) +
                       make_trace_buffer(drng, mex_strings, 'INFO', 1) +
                       make_trace_buffer(drng, mex_strings, 'ERRL', 1))
    dump_inputs.append(b'\x02\x20\x01\x42FANS' + b'\x02\x20\x01\x42IICS' +
                       b'\x02\x20\x01\x42POWR')
    dump_inputs.append(bytes(16) + b'\x02\x20\x01\x42XXXX' + bytes(40))
    for di, d in enumerate(dump_inputs):
        for (hi, si) in [(0, 0), (1, 1), (2, 2), (4, 3), (9, 0), (0, 5)]:
            if (hi, si) != (0, 0) and (di + hi) % 3:
                continue
            run('dump/data/%d/%d/%d' % (di, hi, si),
                lambda: dump.parse_dump_data(memoryview(d), header_files[hi],
                                             string_files[si]))
    run('dump/data/bytes', lambda: dump.parse_dump_data(dump_inputs[5], mex_h, mex_s))
    run('dump/data/none', lambda: dump.parse_dump_data(None, mex_h, mex_s))
    run('dump/data/bytearray',
        lambda: dump.parse_dump_data(bytearray(dump_inputs[6]), mex_h, mex_s))

    def fmt_helpers():
        l1 = ['x']
        dump._format_ilog_data(memoryview(ilog_inputs[1]), l1, mex_h)
        l2 = ['y']
        dump._format_trace_data(memoryview(trace_inputs[3]), l2, mex_s)
        return [l1, l2, dump.DIVIDER_LINE, dump.HEX_DUMP_LINE_FORMATS,
                dump.TRACE_BUFFER_HEADER_START.hex()]
    run('dump/helpers', fmt_helpers)

    for di, d in enumerate(dump_inputs):
        for fname, fmt in (('bmc', fmt_bmc), ('pre', fmt_prebmc)):
            if (di % 2 == 0) != (fname == 'bmc') and di > 8:
                continue
            p = os.path.join(workdir, 'dump_%d_%s.txt' % (di, fname))
            lines = fmt(d)
            if di % 5 == 0:
                lines = ['IO drawer dump\n', '\n'] + lines + ['trailer\n']
            with open(p, 'w') as f:
                f.writelines(lines)
            run('dump/file/%d/%s' % (di, fname),
                lambda: dump.parse_dump_file(p, mex_h, mex_s))
    run('dump/file/missing', lambda: dump.parse_dump_file(missing, mex_h, mex_s))
    run('dump/file/dir', lambda: dump.parse_dump_file(workdir, mex_h, mex_s))
    run('dump/file/binary', lambda: dump.parse_dump_file(binfile, mex_h, mex_s))
    run('dump/file/badhdr', lambda: dump.parse_dump_file(
        os.path.join(workdir, 'dump_4_bmc.txt'), missing, mex_s))
    run('dump/file/badstr', lambda: dump.parse_dump_file(
        os.path.join(workdir, 'dump_5_bmc.txt'), mex_h, missing))

    # ---- m2c00 user data parser -------------------------------------------
    ud_inputs = [b'', ilog_inputs[0], ilog_inputs[5], hlog_inputs[8],
                 hlog_inputs[3], trace_inputs[1], trace_inputs[3],
                 trace_inputs[4], trace_inputs[62], rnd_bytes(drng, 50)]
    for ui, d in enumerate(ud_inputs):
        for sub in (72, 73, 84, 1):
            for ver in (1, 2, 3):
                run('m2c00/%d/%d/%d' % (ui, sub, ver),
                    lambda: m2c00.parseUDToJson(sub, ver, memoryview(d)))

    # ---- repeat a few decodes in the same process ---------------------------
    for rep in range(2):
        run('repeat/%d/ilog' % rep,
            lambda: ilog.parse_ilog_data(memoryview(ilog_inputs[2]), mex_h))
        run('repeat/%d/trace' % rep,
            lambda: trace.parse_trace_data(memoryview(trace_inputs[6]), nim_s))
        run('repeat/%d/hlog' % rep,
            lambda: hlog.parse_hlog_data(memoryview(hlog_inputs[9]), nim_h))
        run('repeat/%d/dump' % rep,
            lambda: dump.parse_dump_data(memoryview(dump_inputs[7]), mex_h, mex_s))
        run('repeat/%d/hexdump' % rep,
            lambda: hexdump_mod.hexdump(memoryview(blob[:77])))
        run('repeat/%d/parse' % rep,
            lambda: list(hexdump_mod.parse(fmt_bmc(blob[:77]),
                                           dump.HEX_DUMP_LINE_FORMATS[0])))

    json.dump(results, sys.stdout)


# --------------------------------------------------------------------------
# CLI cases
# --------------------------------------------------------------------------

def section_header(sid, length, ver, sub, comp):
    return sid + struct.pack('>HBBH', length, ver, sub, comp)


def make_pel(ud_sections, creator=b'M', severity=0x40, action=0x8000):
    n = 2 + len(ud_sections)
    ph = section_header(b'PH', 48, 1, 0, 0x2C00)
    ph += bytes.fromhex('2024010203040506') + bytes.fromhex('2024010203040607')
    ph += creator + b'\0\0' + bytes([n])
    ph += struct.pack('>I', 0x11) + b'\0' * 8
    ph += struct.pack('>II', 0x50000123, 0x50000124)
    assert len(ph) == 48
    uh = section_header(b'UH', 24, 1, 0, 0x2C00)
    uh += bytes([0x1E, 0x03, severity, 0x00]) + bytes(4)
    uh += bytes([0, 0]) + struct.pack('>H', action) + bytes(4)
    assert len(uh) == 24
    out = ph + uh
    for (sub, ver, comp, data) in ud_sections:
        out += section_header(b'UD', 8 + len(data), ver, sub, comp) + data
    return out


def build_cli_files(workdir, root_for_data):
    """Creates all files used by the CLI cases. Returns list of cli cases."""
    mods = os.path.join(root_for_data, 'modules', 'io_drawer')
    mex_pats = read_pte_patterns(os.path.join(mods, 'mex_pte.h'))
    nim_pats = read_pte_patterns(os.path.join(mods, 'nimitz_pte.h'))
    mex_strings = read_string_file(os.path.join(mods, 'mexStringFile'))
    nim_strings = read_string_file(os.path.join(mods, 'nimitzStringFile'))
    rng = random.Random(1234)
    cases = []
    hdr = os.path.join(workdir, 'cli_hdr.h')
    with open(hdr, 'w') as f:
        f.writelines(HEADER_VARIANTS[0])
    sfile = os.path.join(workdir, 'cli_str')
    with open(sfile, 'w') as f:
        f.writelines(STRING_VARIANTS[0])
    var_strings = read_string_file(sfile)
    var_pats = ['01040000', '100100**', '0200****', 'E2082690', 'E20A****']
    for i in range(10):
        kind = i % 3
        pats, strings, tname = [(mex_pats, mex_strings, 'mex'),
                                (nim_pats, nim_strings, 'nimitz'),
                                (var_pats, var_strings, 'mex')][kind]
        d = make_dump(rng, pats, strings)
        p = os.path.join(workdir, 'cli_dump_%d.txt' % i)
        with open(p, 'w') as f:
            f.writelines((fmt_bmc if i % 2 else fmt_prebmc)(d))
        args = [p, '-t', tname]
        if kind == 2:
            args += ['-d', hdr, '-s', sfile]
        cases.append(('dump', args))
        if i == 1:
            cases.append(('dump', [p, '--drawer-type', 'nimitz', '-s', sfile]))
            cases.append(('dump', [p, '-t', 'mex', '--header-file', hdr]))
    empty = os.path.join(workdir, 'cli_empty.txt')
    open(empty, 'w').close()
    cases.append(('dump', [empty, '-t', 'mex']))
    junk = os.path.join(workdir, 'cli_junk.txt')
    with open(junk, 'w') as f:
        f.write('hello\nworld\n')
    cases.append(('dump', [junk, '-t', 'nimitz']))
    cases.append(('dump', [os.path.join(workdir, 'nope.txt'), '-t', 'mex']))
    cases.append(('dump', [workdir, '-t', 'mex']))
    cases.append(('dump', [cases[0][1][0], '-t', 'mex', '-d',
                           os.path.join(workdir, 'nope.h')]))
    cases.append(('dump', [cases[0][1][0], '-t', 'mex', '-s',
                           os.path.join(workdir, 'nope.s')]))
    cases.append(('dump', [cases[0][1][0], '-t', 'bogus']))
    cases.append(('dump', [cases[0][1][0]]))
    cases.append(('dump', []))
    cases.append(('dump', ['-h']))
    binf = os.path.join(workdir, 'cli_bin.txt')
    with open(binf, 'wb') as f:
        f.write(bytes(range(256)))
    cases.append(('dump', [binf, '-t', 'mex']))

    # PEL files for peltool
    prng = random.Random(555)
    for i in range(8):
        ver = 1 + (i % 2)
        pats, strings = [(mex_pats, mex_strings), (nim_pats, nim_strings)][i % 2]
        uds = [(73, ver, 0x2C00, make_ilog(prng, pats, prng.randrange(1, 12))),
               (84, ver, 0x2C00, make_trace_buffer(
                   prng, strings, corrupt=prng.choice([0, 0, 1, 2]),
                   size_mode=prng.choice([0, 0, 1]))),
               (72, ver, 0x2C00, bytes(prng.choice([0, 0, 0, 1, 200])
                                       for _ in range(prng.randrange(1, 260)))),
               (5, ver, 0x2C00, rnd_bytes(prng, prng.randrange(1, 50))),
               (73, 9, 0x2C00, rnd_bytes(prng, 16)),
               (84, ver, 0x2C00, rnd_bytes(prng, prng.randrange(1, 70))),
               (1, 1, 0x9999, rnd_bytes(prng, prng.randrange(0, 37)))]
        pel = make_pel(uds)
        if i == 6:
            pel = pel[:len(pel) - 11]
        if i == 7:
            pel = pel[:60]
        p = os.path.join(workdir, 'pel_%d' % i)
        with open(p, 'wb') as f:
            f.write(pel)
        cases.append(('peltool', ['-f', p]))
        if i < 3:
            cases.append(('peltool', ['-f', p, '-x']))
            cases.append(('peltool', ['-f', p, '-P']))
    return cases


def run_cli(root, kind, args, opt, workdir):
    env = dict(os.environ)
    env['PYTHONPATH'] = os.path.join(root, 'modules')
    env['PYTHONDONTWRITEBYTECODE'] = '1'
    env['PYTHONHASHSEED'] = '0'
    env['COLUMNS'] = '80'
    if kind == 'dump':
        script = os.path.join(root, 'modules', 'io_drawer', 'dump.py')
    else:
        script = os.path.join(root, 'modules', 'pel', 'peltool', 'peltool.py')
    cmd = [PY] + (['-O'] if opt else []) + [script] + args
    p = subprocess.run(cmd, env=env, cwd=workdir, stdout=subprocess.PIPE,
                       stderr=subprocess.PIPE, timeout=300)
    out = p.stdout.decode('utf-8', 'replace').replace(root, '<ROOT>')
    err = p.stderr.decode('utf-8', 'replace').replace(root, '<ROOT>')
    return [p.returncode, out, err]


def run_driver(root, opt, workdir):
    env = dict(os.environ)
    env['PYTHONPATH'] = os.path.join(root, 'modules')
    env['PYTHONDONTWRITEBYTECODE'] = '1'
    env['PYTHONHASHSEED'] = '0'
    cmd = [PY] + (['-O'] if opt else []) + [SELF, '--driver', root, workdir]
    p = subprocess.run(cmd, env=env, cwd=workdir, stdout=subprocess.PIPE,
                       stderr=subprocess.PIPE, timeout=1800)
    if p.returncode != 0:
        sys.stderr.write(p.stderr.decode('utf-8', 'replace'))
        raise SystemExit('driver failed for %s (opt=%s)' % (root, opt))
    res = json.loads(p.stdout.decode('utf-8'))
    # SyntaxWarnings etc. written while importing the modules
    res['__stderr__'] = p.stderr.decode('utf-8', 'replace').replace(root, '<ROOT>')
    return res


def listing(workdir):
    out = []
    for dirpath, dirnames, filenames in os.walk(workdir):
        dirnames.sort()
        for fn in sorted(filenames):
            p = os.path.join(dirpath, fn)
            out.append((os.path.relpath(p, workdir), os.path.getsize(p)))
    return out


def main():
    if len(sys.argv) >= 2 and sys.argv[1] == '--driver':
        driver(os.path.abspath(sys.argv[2]), sys.argv[3])
        return 0
    if len(sys.argv) != 3:
        print(__doc__)
        return 2
    pristine = os.path.abspath(sys.argv[1])
    patched = os.path.abspath(sys.argv[2])
    base = tempfile.mkdtemp(prefix='diffcheck_R29_')
    n_cases = 0
    n_diff = 0
    try:
        # the same work directory path is used for both roots (one after the
        # other) so that file names in messages are identical
        workdir = os.path.join(base, 'work')
        for opt in (False, True):
            outs = []
            for root in (pristine, patched):
                shutil.rmtree(workdir, ignore_errors=True)
                os.mkdir(workdir)
                res = run_driver(root, opt, workdir)
                res['__files__'] = listing(workdir)
                outs.append(json.loads(json.dumps(res)))
            a, b = outs
            for key in sorted(set(a) | set(b)):
                n_cases += 1
                if a.get(key) != b.get(key):
                    n_diff += 1
                    if n_diff <= 15:
                        print('DIFF [%s] %s' % ('-O' if opt else 'dbg', key))
                        print('   pristine:', json.dumps(a.get(key))[:600])
                        print('   patched :', json.dumps(b.get(key))[:600])
        # CLI
        for opt in (False, True):
            outs = []
            for root in (pristine, patched):
                shutil.rmtree(workdir, ignore_errors=True)
                os.mkdir(workdir)
                cases = build_cli_files(workdir, pristine)
                res = {}
                for ci, (kind, args) in enumerate(cases):
                    if opt and ci % 3:
                        continue
                    res['%s/%d' % (kind, ci)] = run_cli(root, kind, args, opt,
                                                        workdir)
                res['__files__'] = listing(workdir)
                outs.append(json.loads(json.dumps(res)))
            a, b = outs
            for key in sorted(set(a) | set(b)):
                n_cases += 1
                if a.get(key) != b.get(key):
                    n_diff += 1
                    if n_diff <= 15:
                        print('DIFF CLI [%s] %s' % ('-O' if opt else 'dbg', key))
                        print('   pristine:', json.dumps(a.get(key))[:800])
                        print('   patched :', json.dumps(b.get(key))[:800])
    finally:
        shutil.rmtree(base, ignore_errors=True)
    if n_diff:
        print('DIFFERENT (%d of %d cases differ)' % (n_diff, n_cases))
        return 1
    print('IDENTICAL (%d cases)' % n_cases)
    return 0


if __name__ == '__main__':
    sys.exit(main())
