#!/usr/bin/env python3
"""
Differential check for the hwdiags / oe500 / osrc / peltool-src refactorings.

usage: diffcheck.py <pristine_root> <patched_root>

Both trees are copied into a scratch directory (once per hw-diags data file
configuration), the same generated inputs are fed through both copies in
separate python subprocesses (with and without -O) and every observable
(return value, exception type + text, stdout, stderr, plugin cache state,
exit status, files created) is compared.

Prints "IDENTICAL (<n> cases)" and exits 0 when nothing differs, otherwise
prints the first differences and exits 1.
"""
import json
import os
import random
import shutil
import struct
import subprocess
import sys
import tempfile

PY = sys.executable

# --------------------------------------------------------------------------
# hw-diags data file configurations (written to pel/hwdiags/data/*.json)
# --------------------------------------------------------------------------

GOOD_P10 = {
    "model_ec": {"id": "20da0020", "type": "proc", "desc": "P10 2.0"},
    "attn_types": {"1": "CHECKSTOP", "2": "UNIT_CS", "3": "RECOVERABLE",
                   "4": "HOST_ATTN"},
    "signatures": {
        "1234": ["EQ_CORE_FIR", {"0": "first bit", "5": "fifth bit",
                                 "255": "last bit"}],
        "abcd": ["MC_FIR", {"1": "mc \u00e9rror \"quoted\""}],
        "00ff": ["", {}],
    },
    "registers": {
        "123456": ["A_REGISTER_NAME_LONGER_THAN_25_CHARACTERS_FOR_SURE",
                   {"0": "20018640", "1": "0x2001", "255": "ffffffff"}],
        "00abcd": ["SHORT", {"0": "1f", "7": "123456789a"}],
        "ffffff": ["EXACTLY_TWENTY_FIVE_CHARS", {"0": "0"}],
    },
}

GOOD_EXPLORER = {
    "model_ec": {"id": "60d20020", "type": "ocmb", "desc": "Explorer 2.0"},
    "attn_types": {"1": "CHECKSTOP"},
    "signatures": {"5555": ["OCMB_LFIR", {"119": "bit 119"}]},
    "registers": {"010203": ["OCMB_REG", {"4": "08011000"}]},
}

# Structurally odd (but syntactically valid) data.  Every oddity lives under
# its own chip / signature / register id.
WEIRD_A = {
    "model_ec": {"id": "aaaa0001"},              # no type, no desc
    "attn_types": ["x", "y"],                    # list instead of dict
    "signatures": {
        "0001": {"0": "dictname"},               # dict: [0] -> KeyError
        "0002": [],                              # [0] -> IndexError
        "0003": ["only_name"],                   # [1] -> IndexError
        "0004": ["name", ["a", "b"]],            # list[str] -> TypeError
        "0005": [["list", "name"], {"1": ["list", "desc"]}],
        "0006": [None, {"1": None}],
        "0007": [12.5, {"1": True}],
        "0008": "st",                            # str[0], str[1][..]
        "0009": [{"a": 1}, {"1": {"b": 2}}],
    },
    "registers": {
        "000001": ["BADHEX", {"0": "zz"}],       # ValueError
        "000002": ["NULLADDR", {"0": None}],     # TypeError
        "000003": ["INTADDR", {"0": 1234}],      # TypeError
        "000004": "str",                         # str indices
        "000005": [],                            # IndexError
        "000006": [["n", "a", "m", "e"], {"0": "10"}],  # list name
        "000007": [None, {"0": "10"}],           # None name
        "000008": [{"k": "v"}, {"0": "10"}],     # dict name
        "000009": ["NOADDRS"],                   # IndexError on [1]
        "00000a": ["NEGADDR", {"0": "-1"}],
        "00000b": ["WSADDR", {"0": " 1f "}],
        "00000c": [1234567, {"0": "10"}],        # int name
        "00000d": ["LISTADDRS", ["10", "20"]],   # list[str] -> TypeError
    },
}

WEIRD_B = {
    "model_ec": {"id": "aaaa0002", "type": ["t"], "desc": None},
    "attn_types": {"1": None, "2": ["l"], "3": {"d": 1}, "4": 44},
    "signatures": None,
    "registers": 17,
}

WEIRD_C = {
    "model_ec": {"id": "aaaa0003", "type": 5, "desc": {"x": "y"}},
    # everything else missing
}

WEIRD_D = {
    "model_ec": {"id": "AAAA0004", "type": "upper", "desc": "never found"},
    "attn_types": {"1": "x"},
}

DATA_CONFIGS = {
    "none": {},
    "good": {"p10_20.json": json.dumps(GOOD_P10),
             "explorer_20.json": json.dumps(GOOD_EXPLORER)},
    "weird": {"p10_20.json": json.dumps(GOOD_P10),
              "wa.json": json.dumps(WEIRD_A), "wb.json": json.dumps(WEIRD_B),
              "wc.json": json.dumps(WEIRD_C), "wd.json": json.dumps(WEIRD_D)},
    "badkey": {"nokey.json": json.dumps({"attn_types": {}})},
    "badjson": {"broken.json": "{ this is not json"},
    "badtype": {"list.json": "[1, 2, 3]"},
}

# --------------------------------------------------------------------------
# extra plugins / registry, made visible through a sitecustomize module
# --------------------------------------------------------------------------

REGISTRY = {"PELs": [
    {"SRC": {"ReasonCode": "0x2030", "Words6To9": {
        "6": {"Description": "word six", "AdditionalDataPropSource": "W6"},
        "7": {"AdditionalDataPropSource": "W7"},
        "9": {"Description": "word nine", "AdditionalDataPropSource": "W9"}}},
     "Documentation": {"Message": "msg %1 and %2 done",
                       "MessageArgSources": ["SRCWord6", "SRCWord9"]}},
    {"SRC": {"ReasonCode": "0xE510"},
     "Documentation": {"Message": "hw diags checkstop"}},
    {"SRC": {"ReasonCode": "0x1111", "Type": "11", "Words6To9": {}},
     "Documentation": {"Message": "power {thing"}},
    {"SRC": {"ReasonCode": "0x2222", "Type": "BC"},
     "Documentation": {"Message": "hostboot %1 %3",
                       "MessageArgSources": ["SRCWord2", "SRCWord5"]}},
    {"SRC": {"ReasonCode": "0x3333"},
     "Documentation": {"Message": ""}},
    {"SRC": {"Type": "BD"}, "Documentation": {"Message": "no reason code"}},
]}

EXTRA_FILES = {
    "sitecustomize.py": '''
import os
_here = os.path.dirname(os.path.abspath(__file__))
import srcparsers, calloutparsers
srcparsers.__path__.append(os.path.join(_here, "xsrc"))
calloutparsers.__path__.append(os.path.join(_here, "xcall"))
''',
    "pel_registry/__init__.py": '''
import os
def get_registry_path():
    return os.path.join(os.path.dirname(__file__), "message_registry.json")
''',
    "pel_registry/message_registry.json": json.dumps(REGISTRY),
    "pel_registry/O_component_ids.json": json.dumps(
        {"E500": "openpower-hw-diags", "2000": "bmc-comp"}),
    # ---- creator level SRC plugins (srcparsers.<c>src.<c>src) ----
    # 'c': import raises ValueError
    "xsrc/csrc/__init__.py": "",
    "xsrc/csrc/csrc.py": "raise ValueError('boom at import')\n",
    # 'k': import raises KeyboardInterrupt
    "xsrc/ksrc/__init__.py": "",
    "xsrc/ksrc/ksrc.py": "raise KeyboardInterrupt('kbd at import')\n",
    # 's': import raises SystemExit
    "xsrc/ssrc/__init__.py": "",
    "xsrc/ssrc/ssrc.py": "raise SystemExit(7)\n",
    # 'l': behaviour chosen by the refcode
    "xsrc/lsrc/__init__.py": "",
    "xsrc/lsrc/lsrc.py": '''
import json
calls = 0
def parseSRCToJson(refcode, w2, w3, w4, w5, w6, w7, w8, w9):
    global calls
    calls += 1
    mode = refcode[2:4]
    if mode == "EX":
        raise RuntimeError("plugin failed %d" % calls)
    if mode == "KI":
        raise KeyboardInterrupt("plugin kbd")
    if mode == "NU":
        return "null"
    if mode == "EM":
        return ""
    if mode == "BJ":
        return "{not json"
    if mode == "NO":
        return None
    if mode == "LI":
        return json.dumps([calls, w2, w9])
    return json.dumps({"calls": calls, "refcode": refcode,
                       "words": [w2, w3, w4, w5, w6, w7, w8, w9]})
''',
    # 'p': module without parseSRCToJson
    "xsrc/psrc/__init__.py": "",
    "xsrc/psrc/psrc.py": "x = 1\n",
    # ---- BMC component SRC plugins used through osrc ----
    # oaa00: ImportError (not ModuleNotFoundError) at import
    "xsrc/oaa00/__init__.py": "",
    "xsrc/oaa00/oaa00.py": "raise ImportError('plain import error')\n",
    # obb00: missing dependency -> ModuleNotFoundError
    "xsrc/obb00/__init__.py": "",
    "xsrc/obb00/obb00.py": "import a_module_that_does_not_exist_xyz\n",
    # occ00: works, counts calls
    "xsrc/occ00/__init__.py": "",
    "xsrc/occ00/occ00.py": '''
import json
calls = 0
def parseSRCToJson(refcode, w2, w3, w4, w5, w6, w7, w8, w9):
    global calls
    calls += 1
    if w9 == "DEADBEEF":
        raise ValueError("occ00 refuses DEADBEEF")
    return json.dumps({"occ00 calls": calls, "w": [w2, w9], "r": refcode})
''',
    # odd00: raises RuntimeError at import (first and every time)
    "xsrc/odd00/__init__.py": "",
    "xsrc/odd00/odd00.py": "raise RuntimeError('odd00 import')\n",
    # oee00: package exists, module does not (ModuleNotFoundError)
    "xsrc/oee00/__init__.py": "",
    # ---- callout plugins (calloutparsers.<c>callouts.<c>callouts) ----
    "xcall/lcallouts/__init__.py": "",
    "xcall/lcallouts/lcallouts.py": '''
import json
def getMaintProcDesc(name):
    if name.startswith("EXC"):
        raise RuntimeError("callout plugin failed")
    if name.startswith("KBD"):
        raise KeyboardInterrupt("callout kbd")
    if name.startswith("BAD"):
        return "{nope"
    if name.startswith("EMP"):
        return ""
    if name.startswith("NON"):
        return None
    return json.dumps(["desc for " + name])
''',
    "xcall/ccallouts/__init__.py": "",
    "xcall/ccallouts/ccallouts.py": "raise ValueError('callouts import')\n",
    "xcall/kcallouts/__init__.py": "",
    "xcall/kcallouts/kcallouts.py": "raise KeyboardInterrupt('kbd')\n",
    "xcall/pcallouts/__init__.py": "",
    "xcall/pcallouts/pcallouts.py": "y = 2\n",
}

# --------------------------------------------------------------------------
# the driver executed inside each tree
# --------------------------------------------------------------------------

DRIVER = r'''
import contextlib, io, json, sys

cases = json.load(open(sys.argv[1]))

def describe(fn):
    out, err = io.StringIO(), io.StringIO()
    res = {}
    try:
        with contextlib.redirect_stdout(out), contextlib.redirect_stderr(err):
            value = fn()
        res["ret"] = repr(value)
    except BaseException as e:
        res["exc"] = type(e).__name__ + ": " + str(e)
        if isinstance(e, SystemExit):
            res["code"] = repr(e.code)
    res["out"] = out.getvalue()
    res["err"] = err.getvalue()
    return res

def cache_state():
    st = {}
    for modname, attr in (("pel.peltool.src", "srcParsers"),
                          ("pel.peltool.src", "calloutParsers"),
                          ("srcparsers.osrc.osrc", "osrcParsers"),
                          ("pel.peltool.parse_user_data", "userDataParsers")):
        mod = sys.modules.get(modname)
        if mod is None:
            continue
        cache = getattr(mod, attr)
        st[attr] = [[k, None if v is None else getattr(v, "__name__", "?")]
                    for k, v in cache.items()]
    return st

def conv(v):
    """decode the tagged argument encoding used by the generator"""
    if isinstance(v, dict) and "__bytes__" in v:
        return memoryview(bytes.fromhex(v["__bytes__"]))
    if isinstance(v, dict) and "__rawbytes__" in v:
        return bytes.fromhex(v["__rawbytes__"])
    if isinstance(v, dict) and "__tuple__" in v:
        return tuple(conv(x) for x in v["__tuple__"])
    if isinstance(v, list):
        return [conv(x) for x in v]
    return v

def run_pd(case):
    from pel.hwdiags.parserdata import ParserData
    def fn():
        p = ParserData()
        return getattr(p, case["method"])(*conv(case["args"]))
    return describe(fn)

def run_ud(case):
    def fn():
        from udparsers.oe500 import oe500
        return oe500.parseUDToJson(conv(case["subtype"]), case["version"],
                                   conv(case["data"]))
    return describe(fn)

def run_udfn(case):
    def fn():
        from udparsers.oe500 import oe500
        return getattr(oe500, case["fn"])(case["version"], conv(case["data"]))
    return describe(fn)

def run_srcp(case):
    def fn():
        import importlib
        mod = importlib.import_module(case["module"])
        return mod.parseSRCToJson(*conv(case["args"]))
    return describe(fn)

def make_config(opts):
    from pel.peltool.config import Config
    c = Config()
    for k, v in opts.items():
        setattr(c, k, v)
    return c

def run_pel(case):
    def fn():
        from pel.peltool import peltool
        from pel.datastream import DataStream
        data = bytes.fromhex(case["data"])
        stream = DataStream(data, byte_order="big", is_signed=False)
        return peltool.parsePEL(stream, make_config(case["config"]),
                                case.get("exit_on_error", False))
    return describe(fn)

def run_summary(case):
    def fn():
        from pel.peltool import peltool
        from pel.datastream import DataStream
        data = bytes.fromhex(case["data"])
        stream = DataStream(data, byte_order="big", is_signed=False)
        return peltool.parsePELSummary(stream, make_config(case["config"]))
    return describe(fn)

def run_srcobj(case):
    def fn():
        from pel.peltool.src import SRC
        from pel.datastream import DataStream
        from collections import OrderedDict
        stream = DataStream(b"", byte_order="big", is_signed=False)
        s = SRC(stream, 0x5053, 72, 1, 1, 0xE500, case["creator"])
        s.asciiString = case.get("ascii", "")
        if case["op"] == "parse":
            return s.parse(conv(case["hexwords"]))
        if case["op"] == "proc":
            out = OrderedDict()
            r = s.getProcedureDesc(case["proc"], out)
            return (r, out)
        if case["op"] == "toJSON":
            data = bytes.fromhex(case["data"])
            s.stream = DataStream(data, byte_order="big", is_signed=False)
            r = s.toJSON(make_config(case["config"]))
            return (r, s.stream.index, s.hexData, s.srcType, s.version,
                    s.wordCount, s.flags, s.size)
        if case["op"] == "msg":
            s.hexData = case["hexdata"]
            return (s.buildMessage(case["details"]),
                    s.buildHexwordDescs(case["details"]))
        raise RuntimeError("bad op")
    return describe(fn)

def run_callout(case):
    def fn():
        from pel.peltool.src import Callout
        from pel.datastream import DataStream
        data = bytes.fromhex(case["data"])
        stream = DataStream(data, byte_order="big", is_signed=False)
        c = Callout(stream)
        def dump(o):
            return None if o is None else sorted(
                (k, repr(v) if not isinstance(v, list) else
                 [sorted(vars(m).items()) for m in v])
                for k, v in vars(o).items())
        return (c.size, c.flags, c.priority, c.locationCode,
                c.locationCodeSize, dump(c.fruIdentity), dump(c.pceIdentity),
                dump(c.mru), c.flattenedSize(), stream.index)
    return describe(fn)

RUNNERS = {"pd": run_pd, "ud": run_ud, "udfn": run_udfn, "srcp": run_srcp,
           "pel": run_pel, "summary": run_summary, "srcobj": run_srcobj,
           "callout": run_callout}

results = []
for case in cases:
    r = RUNNERS[case["kind"]](case)
    r["cache"] = cache_state()
    results.append(r)
json.dump(results, sys.stdout)
'''

# --------------------------------------------------------------------------
# binary builders
# --------------------------------------------------------------------------


def mv(b: bytes):
    return {"__bytes__": b.hex()}


def section_header(sid: int, length: int, ver: int, subtype: int,
                   comp: int) -> bytes:
    return struct.pack(">HHBBH", sid, length & 0xFFFF, ver, subtype, comp)


def private_header(creator: bytes, section_count: int, comp: int = 0xE500,
                   log_id: int = 0x12, plid: int = 0x50000001,
                   eid: int = 0x50000002) -> bytes:
    body = bytes.fromhex("2024031218402755") + bytes.fromhex(
        "2024031218402999")
    body += creator[:1] + b"\x00\x00" + bytes([section_count & 0xFF])
    body += struct.pack(">IQII", log_id, 0x0102030405060708, plid, eid)
    return section_header(0x5048, 48, 1, 0, comp) + body


def user_header(sev: int = 0x40, action: int = 0xA800,
                comp: int = 0xE500) -> bytes:
    body = struct.pack(">BBBBIBBHI", 0x7A, 0x03, sev, 0x00, 0, 0x10, 0x20,
                       action, 0x00000201)
    return section_header(0x5548, 24, 1, 0, comp) + body


def fru_identity(flags: int, pn=b"PN123456", ccin=b"CCIN",
                 sn=b"SN0123456789") -> bytes:
    body = b""
    if flags & 0x08 or flags & 0x02:
        body += pn.ljust(8, b"\0")[:8]
    if flags & 0x04:
        body += ccin.ljust(4, b"\0")[:4]
    if flags & 0x01:
        body += sn.ljust(12, b"\0")[:12]
    return struct.pack(">HBB", 0x4944, 4 + len(body), flags) + body


def pce_identity(name=b"pcename\0", mtm=b"9105-22A", sn=b"SERIAL012345",
                 size=None) -> bytes:
    real = 4 + 8 + 12 + len(name)
    return struct.pack(">HBB", 0x5045, real if size is None else size, 0) + \
        mtm.ljust(8, b"\0")[:8] + sn.ljust(12, b"\0")[:12] + name


def mru(ids, flags=None, size=None) -> bytes:
    body = b"".join(struct.pack(">II", 0x48 + i, v) for i, v in enumerate(ids))
    real = 8 + len(body)
    return struct.pack(">HBBI", 0x4D52, real if size is None else size,
                       len(ids) if flags is None else flags, 0) + body


def callout(parts, loc=b"U78DA.ND0.1234567-P0\0\0\0\0", priority=ord("H"),
            size=None, flags=0x3C) -> bytes:
    body = b"".join(parts)
    real = 4 + len(loc) + len(body)
    return bytes([(real if size is None else size) & 0xFF, flags, priority,
                  len(loc)]) + loc + body


def callout_section(callouts, wordlen=None) -> bytes:
    body = b"".join(callouts)
    real = (4 + len(body)) // 4
    return struct.pack(">BBH", 0xC0, 0, real if wordlen is None else wordlen) \
        + body


def src_section(ascii_str: str, words, flags=0, word_count=9, callouts=b"",
                sid=0x5053, comp=0xE500, version=2, raw_ascii=None) -> bytes:
    asc = raw_ascii if raw_ascii is not None else \
        ascii_str.encode().ljust(32, b" ")[:32]
    body = bytes([version, flags, 0, word_count]) + struct.pack(
        ">HH", 0, 72 + len(callouts))
    body += b"".join(struct.pack(">I", w & 0xFFFFFFFF) for w in words)
    body += asc + callouts
    return section_header(sid, 8 + len(body), 1, 1, comp) + body


def user_data(data: bytes, subtype: int, comp: int = 0xE500, ver: int = 1,
              sid: int = 0x5544) -> bytes:
    return section_header(sid, 8 + len(data), ver, subtype, comp) + data


def ext_user_data(data: bytes, subtype: int, creator: bytes = b"O",
                  comp: int = 0xE500) -> bytes:
    return section_header(0x4544, 12 + len(data), 1, subtype, comp) + \
        creator + b"\0\0\0" + data


def build_pel(creator: bytes, sections, section_count=None, sev=0x40,
              action=0xA800) -> bytes:
    n = 2 + len(sections) if section_count is None else section_count
    return private_header(creator, n) + user_header(sev, action) + \
        b"".join(sections)


# ---- oe500 user data payloads ----

def ud_signature_list(sigs, count=None) -> bytes:
    out = struct.pack(">I", len(sigs) if count is None else count)
    for a, b, c in sigs:
        out += struct.pack(">III", a, b, c)
    return out


def ud_register_dump(chips, count=None) -> bytes:
    out = struct.pack(">I", len(chips) if count is None else count)
    for model_ec, chip_pos, node_pos, regs, nregs in chips:
        out += struct.pack(">IHBI", model_ec, chip_pos, node_pos,
                           len(regs) if nregs is None else nregs)
        for reg_id, inst, buf, size in regs:
            out += reg_id.to_bytes(3, "big") + bytes(
                [inst, len(buf) if size is None else size]) + buf
    return out


# --------------------------------------------------------------------------
# case generation
# --------------------------------------------------------------------------

MODEL_ECS = [0x20da0020, 0x60d20020, 0xaaaa0001, 0xaaaa0002, 0xaaaa0003,
             0xaaaa0004, 0x11111111, 0x00000000, 0xffffffff]
SIG_IDS = [0x1234, 0xabcd, 0x00ff, 0x5555, 1, 2, 3, 4, 5, 6, 7, 8, 9, 0x7777]
REG_IDS = [0x123456, 0x00abcd, 0xffffff, 0x010203, 0x424242] + list(
    range(1, 0x0e))


def gen_pd_cases(rnd):
    cases = []

    def add(method, *args):
        cases.append({"kind": "pd", "method": method, "args": list(args)})

    model_strs = ["20da0020", "20DA0020", "20Da0020", "60d20020", "aaaa0001",
                  "aaaa0002", "AAAA0002", "aaaa0003", "aaaa0004", "AAAA0004",
                  "23ABcdEf", "00000000", "", "1234567", "123456789",
                  "some_string", "1234567g", "20da0020\n", " 20da002", 12345678,
                  None, {"__rawbytes__": "3230646130303230"}, ["2", "0"], 1.5]
    for m in model_strs:
        add("query_model_ec", m)
        for t in (0, 1, 2, 3, 4, 5, 0x44, 255, 256, -1, "1", None, 1.0, True):
            add("get_attn_desc", m, t)
    ints1 = [0, 1, 5, 0x33, 255, 256, -1, 1.5, True, None, "7", 10 ** 30]
    ints2 = [0, 1, 0x2222, 65535, 65536, -1, 2.0, False, None, "3"]
    for m in model_strs:
        for n in ints1:
            for c in (ints2 if n in (0, 0x33) else ints2[:3]):
                add("get_chip_desc", m, n, c)
    sig_strs = ["1234", "ABCD", "abcd", "AbCd", "00ff", "5555", "0001", "0002",
                "0003", "0004", "0005", "0006", "0007", "0008", "0009",
                "7777", "", "123", "12345", "12g4", 1234, None]
    for m in model_strs[:12] + [None, 7]:
        for s in sig_strs:
            for inst, bit in ((0, 0), (1, 5), (0x66, 0x77), (255, 255), (3, 1),
                              (0, 1), (256, 0), (0, 256), (-1, 0), (0, -1),
                              (1.5, 1), (1, 1.0), (None, 1), (1, None),
                              (True, False), ("1", 1), (1, "1"), (2, 119)):
                add("get_sig_desc", m, s, inst, bit)
    reg_strs = ["123456", "00abcd", "00ABCD", "ffffff", "FFFFFF", "010203",
                "424242", "", "12345", "1234567", "12345g", 123456, None] + \
        ["%06x" % i for i in range(1, 0x0e)]
    for m in model_strs[:12] + [None]:
        for r in reg_strs:
            for inst in (0, 1, 4, 7, 255, 256, -1, 1.0, None, "0", True):
                add("get_reg_data", m, r, inst)
    words = ["20da0020", "20DA0020", "00010201", "12340005", "abcd0001",
             "ABCD0A01", "11111111", "22223344", "55556677", "60d20020",
             "aaaa0001", "00010005", "00020001", "00030101", "00040100",
             "00050001", "00060001", "00070001", "00080001", "00090001",
             "aaaa0002", "aaaa0003", "AAAA0004", "ffffffff", "00000000",
             "5555ff77", "", "1234", "123456789", "zzzzzzzz", "1234zz78",
             "zz345678", None, 12345678, ["1"], {"__rawbytes__": "3131313131313131"}]
    for _ in range(700):
        add("get_signature", rnd.choice(words), rnd.choice(words),
            rnd.choice(words))
    for a in words[:26]:
        for c in words[3:20]:
            add("get_signature", a, rnd.choice(words[2:12]), c)
    # wrong arity / attribute probing
    add("get_signature", "11111111", "22223344")
    add("_check_hex", "abcd", 2)
    add("_check_hex", "abcd", 5)
    add("_check_hex", "abcd", 0)
    add("_check_hex", "ab", 1)
    add("_check_hex", "abcdef", 3)
    add("_check_hex", "abcdeg", 3)
    add("_check_hex", {"__rawbytes__": "6162"}, 1)
    add("_check_int", 5, 1)
    add("_check_int", 256, 1)
    add("_check_int", 70000, 2)
    add("_check_int", -3, 4)
    add("_check_int", 1 << 40, 5)
    add("_check_int", 0, 0)
    add("_check_int", 1, -1)
    add("_check_int", "1", 1)
    return cases


def rand_bytes(rnd, n):
    return bytes(rnd.getrandbits(8) for _ in range(n))


def gen_sig_payloads(rnd):
    out = []
    sigs = []
    for _ in range(6):
        sigs.append((rnd.choice(MODEL_ECS),
                     (rnd.choice([0, 1, 0x2222, 0xffff]) << 16) |
                     (rnd.choice([0, 1, 0x33, 0xff]) << 8) |
                     rnd.choice([0, 1, 2, 3, 4, 5, 0x44, 0xff]),
                     (rnd.choice(SIG_IDS) << 16) |
                     (rnd.choice([0, 1, 0x66, 0xff]) << 8) |
                     rnd.choice([0, 1, 5, 119, 0x77, 0xff])))
    for n in range(0, 7):
        out.append(ud_signature_list(sigs[:n]))
    out.append(ud_signature_list(sigs, count=len(sigs) + 1))
    out.append(ud_signature_list(sigs, count=2))
    out.append(ud_signature_list(sigs[:1], count=0xFFFFFFFF))
    out.append(ud_signature_list(sigs[:3]) + b"\0\0\0trailing")
    out.append(ud_signature_list(sigs[:3])[:-1])
    out.append(ud_signature_list(sigs[:3])[:-5])
    out.append(ud_signature_list(sigs[:3])[:9])
    out.append(b"")
    out.append(b"\0\0")
    out.append(b"\0\0\0\0")
    out.append(b"\0\0\0\1")
    return out


def gen_reg_payloads(rnd):
    out = []

    def reg():
        size = rnd.choice([1, 2, 3, 4, 5, 7, 8, 8, 8, 9, 16, 17, 32, 255])
        return (rnd.choice(REG_IDS), rnd.choice([0, 1, 4, 7, 255]),
                rand_bytes(rnd, size), None)

    def chip(nregs):
        return (rnd.choice(MODEL_ECS), rnd.choice([0, 1, 0x2222, 0xffff]),
                rnd.choice([0, 1, 0x33, 0xff]), [reg() for _ in range(nregs)],
                None)

    for nchips in range(0, 4):
        for nregs in (0, 1, 3):
            out.append(ud_register_dump([chip(nregs) for _ in range(nchips)]))
    # every register id on every chip
    for m in MODEL_ECS:
        regs = [(r, i, rand_bytes(rnd, 8), None)
                for r in REG_IDS for i in (0, 1)]
        rnd.shuffle(regs)
        out.append(ud_register_dump([(m, 2, 1, regs[:12], None)]))
        out.append(ud_register_dump([(m, 2, 1, regs[12:24], None)]))
        out.append(ud_register_dump([(m, 2, 1, regs[24:], None)]))
        for r in REG_IDS:
            out.append(ud_register_dump(
                [(m, 3, 0, [(r, 0, b"\x12\x34\x56\x78\x9a", None)], None)]))
    good = [chip(2), chip(1)]
    base = ud_register_dump(good)
    out.append(ud_register_dump(good, count=3))
    out.append(ud_register_dump(good, count=1))
    out.append(ud_register_dump(good, count=0xFFFFFFFF))
    out.append(base + b"tail")
    for cut in (1, 2, 3, 5, 8, 12, 20):
        out.append(base[:-cut])
        out.append(base[:cut + 3])
    # zero sized data buffer -> DataStream assertion
    out.append(ud_register_dump(
        [(0x20da0020, 1, 1, [(0x123456, 0, b"", None)], None)]))
    out.append(ud_register_dump(
        [(0x20da0020, 1, 1, [(0x123456, 0, b"\1\2", 200)], None)]))
    out.append(ud_register_dump(
        [(0x20da0020, 1, 1, [(0x123456, 0, b"\1\2", None)], 5)]))
    out.append(ud_register_dump(
        [(0x20da0020, 1, 1, [(0x123456, 0, b"\1\2", None)], 0xFFFFFFFF)]))
    return out


def gen_ud_cases(rnd):
    cases = []

    def add(subtype, data, version=1):
        cases.append({"kind": "ud", "subtype": subtype, "version": version,
                      "data": mv(data)})

    for p in gen_sig_payloads(rnd):
        add(1, p)
    for p in gen_reg_payloads(rnd):
        add(2, p)
    ffdc = [b'{"Callout List": [{"LocCode": "P0", "Priority": "H"}]}\0',
            b'{"a": 1}', b'[1, 2, 3]\0\0\0\0', b'"str"\0', b'null\0', b'\0',
            b'', b'{"a": 1}\0garbage', b'{"a": \xff\xfe}\0', b'{broken\0',
            b'  {"sp": [true, false, null, 1.5e3]}  \0',
            '{"u": "\u00e9\u4e2d"}\0'.encode(), b'\0{"a":1}\0', b'NaN\0',
            b'{"dup": 1, "dup": 2}\0', b'123\0', b'{"a": 1}\0\0\0\0\0\0\0\0']
    for p in ffdc:
        add(3, p)
    for n in (0, 1, 4, 7, 8, 9, 15, 16, 23, 24, 25, 40):
        add(4, rand_bytes(rnd, n))
        add(5, rand_bytes(rnd, n))
    add(4, bytes(24))
    add(4, bytes.fromhex("00002809") * 6)
    add(5, bytes.fromhex("20da0020") + bytes.fromhex("12340005"))
    for st in (0, 6, 7, 100, 255, -1, 1.0, 2.0, True, None, "1", 3.5):
        add(st, ffdc[0])
        add(st, b"")
    add({"__tuple__": [1]}, b"abc")
    add([1], b"abc")
    for v in (0, 2, 255):
        add(1, gen_sig_payloads(rnd)[3], version=v)
        add(2, gen_reg_payloads(rnd)[4], version=v)
    # random fuzz
    for _ in range(150):
        st = rnd.choice([1, 1, 2, 2, 2, 3, 4, 5])
        n = rnd.choice([0, 1, 3, 4, 5, 8, 11, 12, 16, 20, 33, 64])
        data = rand_bytes(rnd, n)
        if rnd.random() < 0.6 and n >= 4:
            data = struct.pack(">I", rnd.choice([0, 1, 2, 3])) + data[4:]
        add(st, data)
    # mutate well-formed register dumps / signature lists
    seeds = gen_reg_payloads(rnd)[:12] + gen_sig_payloads(rnd)[:8]
    for _ in range(200):
        s = bytearray(rnd.choice(seeds))
        if not s:
            continue
        for _ in range(rnd.choice([1, 1, 2, 4])):
            s[rnd.randrange(len(s))] = rnd.getrandbits(8)
        if rnd.random() < 0.3:
            s = s[:rnd.randrange(len(s) + 1)]
        add(rnd.choice([1, 2]), bytes(s))
    # direct calls of the private helpers
    for fn in ("_parse_signature_list", "_parse_register_dump",
               "_parse_callout_ffdc", "_parse_hb_scratch_regs",
               "_parse_scratch_reg_sig", "_parse_default"):
        for data in (b"", b"\0\0\0\0", bytes(24), b'{"a": 1}\0',
                     ud_signature_list([(0x20da0020, 0x00010201, 0x12340005)])):
            cases.append({"kind": "udfn", "fn": fn, "version": 1,
                          "data": mv(data)})
    return cases


REFCODES = ["BD70E510", "BD70E500", "BD70E5FF", "BD8D2030", "BD70CC01",
            "BD70cc02", "BD70CC03", "BD70AA01", "BD70aa02", "BD70BB01",
            "BD70BB02", "BD70DD01", "BD70DD02", "BD70EE01", "BD70EE02",
            "BC8A2222", "BC70E510", "BC70CC01", "11001111", "BD", "", "BD70CC",
            "B", "BD70E51", "bd70e510", "BD70e510", "BD\u00e9\u00e900000",
            "BD../0001", "BD  0001"]
SRC_WORDS = ["00000000", "20DA0020", "20da0020", "00010201", "12340005",
             "ABCD0001", "60D20020", "5555FF77", "DEADBEEF", "AAAA0001",
             "00010005", "00030101", "00040100", "zzzzzzzz", "", "1234"]


def gen_srcp_cases(rnd):
    cases = []

    def add(module, refcode, words):
        cases.append({"kind": "srcp", "module": module,
                      "args": [refcode] + list(words)})

    for rc in REFCODES:
        for _ in range(3):
            w = [rnd.choice(SRC_WORDS[:9]) for _ in range(8)]
            add("srcparsers.osrc.osrc", rc, w)
    for rc in ("BD70E510", "BD70E500", "BD70E5", "", "BD70E5101", "1010101010",
               "BD70E5 10"):
        for a in SRC_WORDS:
            for c in SRC_WORDS[3:13]:
                w = ["00000000"] * 8
                w[4], w[5], w[6] = a, rnd.choice(SRC_WORDS[2:5]), c
                add("srcparsers.oe500.oe500", rc, w)
                if rnd.random() < 0.5:
                    add("srcparsers.osrc.osrc", rc, w)
    w = ["0"] * 8
    w[7] = "DEADBEEF"
    add("srcparsers.osrc.osrc", "BD70CC09", w)
    add("srcparsers.osrc.osrc", None, w)
    add("srcparsers.osrc.osrc", 12345678, w)
    add("srcparsers.osrc.osrc", {"__rawbytes__": "4244373045353130"}, w)
    add("srcparsers.osrc.osrc", ["B", "C", "x", "y", "C", "C"], w)
    add("srcparsers.osrc.osrc", "BD70CC09", w[:5])
    add("srcparsers.oe500.oe500", None, w)
    add("srcparsers.oe500.oe500", "BD70E510", w[:5])
    rnd.shuffle(cases)
    return cases


def sample_callouts(rnd, proc_names):
    """a selection of callout subsections (well formed and broken)"""
    res = []
    pn = rnd.choice(proc_names)
    res.append(callout_section([
        callout([fru_identity(0x20 | 0x08 | 0x04 | 0x01)]),
        callout([fru_identity(0x30 | 0x02, pn=pn)], loc=b"", priority=ord("M")),
        callout([fru_identity(0x90 | 0x08 | 0x02, pn=pn), mru([1, 0xABCDEF01]),
                 pce_identity()], priority=ord("L")),
    ]))
    res.append(callout_section([
        callout([pce_identity(name=b""), fru_identity(0x10)],
                loc=b"Ufcs-P1\0", priority=ord("X")),
        callout([mru([])], loc=b"\0\0\0\0"),
        callout([mru([5, 6, 7], flags=0xF3)]),
        callout([], loc=b"U1"),
    ]))
    res.append(callout_section([callout([fru_identity(0x22, pn=pn)])]))
    res.append(callout_section([callout(
        [fru_identity(0x0F, pn=pn, ccin=b"\0\0\0\0", sn=b"")])]))
    res.append(callout_section([]))
    res.append(callout_section([callout([fru_identity(0x28)])], wordlen=0))
    res.append(callout_section([callout([fru_identity(0x28)])], wordlen=1))
    res.append(callout_section([callout([fru_identity(0x28)])], wordlen=200))
    res.append(callout_section([callout([pce_identity(size=10)])]))
    res.append(callout_section([callout([pce_identity(size=24, name=b"")])]))
    res.append(callout_section([callout([pce_identity(mtm=b"")])]))
    res.append(callout_section([callout([fru_identity(0x28)], size=4)]))
    res.append(callout_section([callout([fru_identity(0x28)], size=255)]))
    res.append(callout_section([callout([b"ZZ\x04\x00"], size=40)]))
    res.append(callout_section([callout(
        [fru_identity(0x28, pn=b"\xff\xfe\xfd")])]))
    res.append(callout_section([callout([fru_identity(0x28)],
                                        loc=b"\xc3\x28bad")]))
    res.append(callout_section([callout([mru([1, 2], size=0)])]))
    res.append(callout_section([callout(
        [fru_identity(0x28), fru_identity(0x21), mru([9]), mru([8, 7])])]))
    return res


CREATOR_ASCII = {
    b"O": ["BD70E510", "BD70E500", "BD8D2030", "BD70CC01", "BD70AA01",
           "BD70BB01", "BD70DD01", "BD70EE01", "BC8A2222", "11001111",
           "BD8D3333", "BD8D4444", "XX000000"],
    b"B": ["BC8A2222", "BC70E510", "BC8A0001"],
    b"H": ["B7001111", "B2001234"],
    b"L": ["BDOK2030", "BDEX2030", "BDKI0000", "BDNU0000", "BDEM0000",
           "BDBJ0000", "BDNO0000", "BDLI0000", "11OK1111", "BCEX2222"],
    b"C": ["BD8D2030"], b"K": ["BD8D2030"], b"S": ["BD8D2030"],
    b"P": ["BD8D2030"], b"M": ["BD8D2030"], b"T": ["A1000000"],
    b"\xff": ["BD8D2030"], b"o": ["BD70E510"], b".": ["BD8D2030"],
    b"/": ["BD8D2030"], b"\0": ["BD8D2030"],
}
PROC_NAMES = [b"BMC0001", b"BMC0008", b"BMC9999", b"EXC0001", b"KBD0001",
              b"BAD0001", b"EMP0001", b"NON0001", b"FOO", b""]


def gen_src_sections(rnd, creator):
    """list of (SRC section bytes) for the creator"""
    out = []
    for asc in CREATOR_ASCII[creator]:
        for _ in range(2):
            words = [rnd.choice([0, 0x55, 0x000000E0, 0xABCD0000, 0x23000000,
                                 0x21000000, 0x20DA0020, 0x00010201,
                                 0x12340005, 0xDEADBEEF, 0xFFFFFFFF,
                                 rnd.getrandbits(32)]) for _ in range(8)]
            if asc.startswith("BD70E5") or rnd.random() < 0.3:
                words[4] = rnd.choice(MODEL_ECS)
                words[5] = rnd.choice([0x00010201, 0x22223344, 0xffff0005])
                words[6] = (rnd.choice(SIG_IDS) << 16) | rnd.choice(
                    [0x0005, 0x0101, 0x6677])
            flags = rnd.choice([0, 0, 0x80, 0x10, 0x04, 0x02, 0x08, 0x9E,
                                0xFE])
            wc = rnd.choice([9, 9, 9, 0, 1, 2, 5, 8])
            out.append(src_section(asc, words, flags=flags, word_count=wc))
            cos = sample_callouts(rnd, PROC_NAMES)
            co = rnd.choice(cos)
            out.append(src_section(asc, words, flags=flags | 1, word_count=wc,
                                   callouts=co))
    return out


def gen_pel_cases(rnd):
    cases = []

    def add(data, allow=True, kind="pel", **cfg):
        config = {"allow_plugins": allow, "every_pel": True}
        config.update(cfg)
        cases.append({"kind": kind, "data": data.hex(), "config": config})

    sig = ud_signature_list([(0x20da0020, 0x00010201, 0x12340005),
                             (0x60d20020, 0x00020001, 0x55550077),
                             (0x11111111, 0x22223344, 0x55556677)])
    regs = gen_reg_payloads(rnd)
    uds = [user_data(sig, 1), user_data(rnd.choice(regs), 2),
           user_data(b'{"Callout List": [1, 2]}\0', 3),
           user_data(bytes(range(24)), 4), user_data(bytes(range(8)), 5),
           user_data(b"abc", 9), user_data(sig[:-3], 1),
           user_data(b'{"k": "v"}', 1, comp=0x2000),
           user_data(sig, 1, comp=0x1234),
           ext_user_data(sig, 1), ext_user_data(rnd.choice(regs), 2, b"B")]
    for creator in CREATOR_ASCII:
        srcs = gen_src_sections(rnd, creator)
        for s in srcs:
            extra = [rnd.choice(uds) for _ in range(rnd.choice([0, 0, 1, 2]))]
            pel = build_pel(creator, [s] + extra)
            add(pel, allow=True)
            if rnd.random() < 0.35:
                add(pel, allow=False)
            if rnd.random() < 0.25:
                add(pel, kind="summary")
            if rnd.random() < 0.15:
                cut = rnd.randrange(72, len(pel))
                add(pel[:cut])
            if rnd.random() < 0.15:
                b = bytearray(pel)
                for _ in range(rnd.choice([1, 2, 5])):
                    b[rnd.randrange(72, len(b))] = rnd.getrandbits(8)
                add(bytes(b))
    # word counts that overflow the hex data array / secondary SRCs
    w = [1, 2, 3, 4, 5, 6, 7, 8]
    for wc in (10, 11, 12, 255):
        add(build_pel(b"O", [src_section("BD8D2030", w, word_count=wc)]))
    add(build_pel(b"O", [src_section("BD8D2030", w),
                         src_section("BD70E510", w, sid=0x5353),
                         src_section("BD70CC01", w, sid=0x5353)]))
    add(build_pel(b"O", [src_section("", w, raw_ascii=b"\xff" * 32)]))
    add(build_pel(b"O", [src_section("", w, raw_ascii=b"\0" * 32)]))
    add(build_pel(b"O", [src_section("", w, raw_ascii=b"BD70E510" + b"\0" * 24)]))
    add(build_pel(b"O", [src_section("BD8D2030", w)], section_count=5))
    add(build_pel(b"O", [user_data(sig, 1)] * 3))
    # filtering configs
    pel = build_pel(b"O", [src_section("BD70E510", w)], sev=0x00, action=0)
    add(pel, every_pel=False)
    add(pel, every_pel=False, hidden=True)
    add(pel, every_pel=False, severities=[0])
    add(b"")
    add(b"PH")
    add(pel[:40])
    add(b"XX" + pel[2:])
    add(pel[:48] + b"XX" + pel[50:])
    return cases


def gen_srcobj_cases(rnd):
    cases = []
    hw = ["00000000", "20DA0020", "00010201", "12340005", "0000E510",
          "00000001", "00000002", "DEADBEEF"]
    for creator in ("O", "B", "L", "C", "K", "S", "P", "H", "o", "l", "",
                    "..", "Oo", "\u00e9"):
        for asc in ("BD70E510", "BD70CC01", "BDEX0001", "BC8A2222", "",
                    "BDOK0001                        "):
            cases.append({"kind": "srcobj", "op": "parse", "creator": creator,
                          "ascii": asc, "hexwords": hw})
        for n in (0, 1, 7, 8, 9, 12):
            cases.append({"kind": "srcobj", "op": "parse", "creator": creator,
                          "ascii": "BDOK0001", "hexwords": (hw * 2)[:n]})
        for proc in ("BMC0001", "BMC0002", "BMC9999", "EXC1", "KBD1", "BAD1",
                     "EMP1", "NON1", "", "x"):
            cases.append({"kind": "srcobj", "op": "proc", "creator": creator,
                          "proc": proc})
    cases.append({"kind": "srcobj", "op": "parse", "creator": "O",
                  "ascii": "BD70E510", "hexwords": {"__tuple__": hw}})
    cases.append({"kind": "srcobj", "op": "parse", "creator": "O",
                  "ascii": "BD70E510", "hexwords": "0123456789"})
    # message building
    details = [
        {}, {"Message": "plain"}, {"Message": ""},
        {"Message": "a %1 b %2", "MessageArgSources": ["SRCWord6", "SRCWord9"]},
        {"Message": "a %1 b %2 c %3", "MessageArgSources": ["SRCWord6"]},
        {"Message": "a {0} %1 {x}", "MessageArgSources": ["SRCWord2"]},
        {"Message": "a %0 %10", "MessageArgSources": ["SRCWord3", "SRCWord4"]},
        {"Message": "m", "MessageArgSources": []},
        {"Message": "m %1", "MessageArgSources": ["SRCWord1"]},
        {"Message": "m %1", "MessageArgSources": ["SRCWordX"]},
        {"Message": "m %1", "MessageArgSources": [""]},
        {"Message": "m", "Words6To9": {}},
        {"Message": "m", "Words6To9": None},
        {"Message": "m", "Words6To9": {
            "6": {"Description": "six", "AdditionalDataPropSource": "S6"},
            "7": {"AdditionalDataPropSource": "S7"},
            "9": {"Description": "nine", "AdditionalDataPropSource": "S6"}}},
        {"Message": "m", "Words6To9": {"12": {"Description": "d",
                                               "AdditionalDataPropSource": "A"}}},
        {"Message": "m", "Words6To9": {"x": {"Description": "d",
                                              "AdditionalDataPropSource": "A"}}},
        {"Message": "m", "Words6To9": {"6": {"Description": "d"}}},
        {"Words6To9": {"6": {"Description": "d",
                             "AdditionalDataPropSource": "A"}}},
    ]
    for d in details:
        for hd in ([1, 2, 3, 4, 5, 6, 7, 0xFFFFFFFF], [], [1, 2]):
            cases.append({"kind": "srcobj", "op": "msg", "creator": "O",
                          "details": d, "hexdata": hd})
    # bare SRC sections (no section header)
    for creator in (b"O", b"L", b"B"):
        for s in gen_src_sections(rnd, creator)[:14]:
            body = s[8:]
            for allow in (True, False):
                cases.append({"kind": "srcobj", "op": "toJSON",
                              "creator": creator.decode(), "data": body.hex(),
                              "config": {"allow_plugins": allow}})
            cut = rnd.randrange(0, len(body))
            cases.append({"kind": "srcobj", "op": "toJSON",
                          "creator": creator.decode(), "data": body[:cut].hex(),
                          "config": {"allow_plugins": True}})
    # raw callout structures
    raw = [callout([fru_identity(f)]) for f in range(0, 16)]
    raw += [callout([fru_identity(0x28), pce_identity(), mru([1, 2, 3])]),
            callout([mru(list(range(15)))]), callout([mru([1], flags=0x35)]),
            callout([pce_identity(size=3)]), callout([pce_identity(size=0)]),
            callout([b"\0\0\0\0"], size=60), callout([], size=0),
            callout([fru_identity(0x28)], size=5),
            callout([fru_identity(0x28)], size=200), b"", b"\x10", b"\x10\0H",
            b"\x10\0H\x20short"]
    for r in raw:
        cases.append({"kind": "callout", "data": r.hex()})
        if len(r) > 6:
            cases.append({"kind": "callout",
                          "data": r[:rnd.randrange(4, len(r))].hex()})
    for _ in range(120):
        r = bytearray(rnd.choice(raw[:20]))
        for _ in range(rnd.choice([1, 2, 3])):
            r[rnd.randrange(len(r))] = rnd.getrandbits(8)
        cases.append({"kind": "callout", "data": bytes(r).hex()})
    return cases


# --------------------------------------------------------------------------
# orchestration
# --------------------------------------------------------------------------


def prepare_tree(src_root, dest, files):
    shutil.copytree(os.path.join(src_root, "modules"),
                    os.path.join(dest, "modules"),
                    ignore=shutil.ignore_patterns("__pycache__"))
    data_dir = os.path.join(dest, "modules", "pel", "hwdiags", "data")
    for name, text in files.items():
        with open(os.path.join(data_dir, name), "w") as f:
            f.write(text)


def write_extra(dest):
    for rel, text in EXTRA_FILES.items():
        p = os.path.join(dest, rel)
        os.makedirs(os.path.dirname(p), exist_ok=True)
        with open(p, "w") as f:
            f.write(text)


def run_driver(tree, extra, driver, casefile, optimize):
    env = dict(os.environ)
    env["PYTHONPATH"] = os.path.join(tree, "modules") + os.pathsep + extra
    env["PYTHONDONTWRITEBYTECODE"] = "1"
    env["PYTHONHASHSEED"] = "0"
    cmd = [PY] + (["-O"] if optimize else []) + [driver, casefile]
    p = subprocess.run(cmd, env=env, capture_output=True, text=True,
                       cwd=os.path.dirname(casefile))
    if p.returncode != 0:
        raise RuntimeError("driver failed in %s:\n%s" % (tree, p.stderr[-3000:]))
    text = p.stdout.replace(tree, "<ROOT>")
    return json.loads(text), p.stderr.replace(tree, "<ROOT>")


def strip_traceback(text):
    """
    Uncaught exceptions end in a traceback whose file / line / source lines
    legitimately differ between the trees.  Keep only the unindented lines
    (the "Traceback" banner and the final "Type: message" line).
    """
    if "Traceback (most recent call last)" not in text:
        return text
    return "\n".join(l for l in text.split("\n") if not l.startswith(" "))


def run_cli(tree, extra, args, cwd, optimize):
    env = dict(os.environ)
    env["PYTHONPATH"] = os.path.join(tree, "modules") + os.pathsep + extra
    env["PYTHONDONTWRITEBYTECODE"] = "1"
    env["PYTHONHASHSEED"] = "0"
    tool = os.path.join(tree, "modules", "pel", "peltool", "peltool.py")
    cmd = [PY] + (["-O"] if optimize else []) + [tool] + args
    p = subprocess.run(cmd, env=env, capture_output=True, cwd=cwd)
    listing = {}
    for root, _, files in os.walk(cwd):
        for f in sorted(files):
            full = os.path.join(root, f)
            with open(full, "rb") as fd:
                listing[os.path.relpath(full, cwd)] = fd.read().hex()
    return {"rc": p.returncode,
            "out": p.stdout.decode("utf8", "replace").replace(tree, "<ROOT>"),
            "err": strip_traceback(
                p.stderr.decode("utf8", "replace").replace(tree, "<ROOT>")),
            "files": listing}


def main():
    if len(sys.argv) != 3:
        print(__doc__)
        return 2
    pristine, patched = (os.path.abspath(a) for a in sys.argv[1:3])
    work = tempfile.mkdtemp(prefix="diffcheck_R45_")
    total = 0
    diffs = []
    try:
        extra = os.path.join(work, "extra")
        write_extra(extra)
        driver = os.path.join(work, "driver.py")
        with open(driver, "w") as f:
            f.write(DRIVER)

        trees = {}
        for cfg, files in DATA_CONFIGS.items():
            for side, root in (("A", pristine), ("B", patched)):
                dest = os.path.join(work, side, cfg)
                prepare_tree(root, dest, files)
                trees[side, cfg] = dest

        rnd = random.Random(20240545)
        batches = []        # (name, data configs, optimize flags, cases)
        pd_cases = gen_pd_cases(rnd)
        batches.append(("parserdata", ["none", "good", "weird"],
                        [False, True], pd_cases))
        batches.append(("parserdata-broken", ["badkey", "badjson", "badtype"],
                        [False, True], pd_cases[::37]))
        ud_cases = gen_ud_cases(rnd)
        batches.append(("ud-oe500", ["none", "good", "weird"], [False, True],
                        ud_cases))
        batches.append(("ud-oe500-broken", ["badkey", "badjson"], [False],
                        ud_cases[::9]))
        srcp = gen_srcp_cases(rnd)
        batches.append(("srcparsers", ["good", "weird"], [False, True], srcp))
        batches.append(("srcparsers-nodata", ["none", "badjson"], [False],
                        srcp[::3]))
        pel_cases = gen_pel_cases(rnd)
        batches.append(("pel", ["good"], [False, True], pel_cases))
        rev = list(reversed(pel_cases))
        batches.append(("pel-reversed", ["weird"], [False], rev))
        shuf = list(pel_cases)
        rnd.shuffle(shuf)
        batches.append(("pel-shuffled", ["none", "badjson"], [False, True],
                        shuf[::2]))
        so = gen_srcobj_cases(rnd)
        batches.append(("srcobj", ["good"], [False, True], so))
        so2 = list(so)
        rnd.shuffle(so2)
        batches.append(("srcobj-shuffled", ["none"], [False], so2))
        mixed = srcp[::5] + pel_cases[::4] + so[::4] + ud_cases[::6]
        rnd.shuffle(mixed)
        batches.append(("mixed", ["good", "weird"], [False, True], mixed))

        for name, cfgs, opts, cases in batches:
            casefile = os.path.join(work, "cases_%s.json" % name)
            with open(casefile, "w") as f:
                json.dump(cases, f)
            for cfg in cfgs:
                for opt in opts:
                    ra, ea = run_driver(trees["A", cfg], extra, driver,
                                        casefile, opt)
                    rb, eb = run_driver(trees["B", cfg], extra, driver,
                                        casefile, opt)
                    total += len(cases)
                    if len(ra) != len(rb):
                        diffs.append((name, cfg, opt, "result count", "", ""))
                    for i, (a, b) in enumerate(zip(ra, rb)):
                        if a != b:
                            diffs.append((name, cfg, opt, cases[i], a, b))
                    if ea != eb:
                        diffs.append((name, cfg, opt, "driver stderr", ea, eb))

        # ---- command line runs ----
        cli_pels = {}
        w = [0x55, 2, 3, 4, 0x20DA0020, 0x00010201, 0x12340005, 8]
        sig = ud_signature_list([(0x20da0020, 0x00010201, 0x12340005)])
        regdump = ud_register_dump([(0x20da0020, 1, 0, [
            (0x123456, 0, bytes(range(8)), None),
            (0x00abcd, 7, bytes(range(5)), None)], None)])
        co = sample_callouts(rnd, [b"BMC0002"])
        cli_pels["hwdiags.pel"] = build_pel(b"O", [
            src_section("BD70E510", w, flags=1, callouts=co[0]),
            user_data(sig, 1), user_data(regdump, 2),
            user_data(b'{"Callout List": []}\0', 3),
            user_data(bytes(range(24)), 4), user_data(bytes(range(8)), 5)])
        cli_pels["secondary.pel"] = build_pel(b"O", [
            src_section("BD70E500", w, flags=1, callouts=co[1]),
            user_data(sig[:-2], 1)])
        cli_pels["hostboot.pel"] = build_pel(b"B", [
            src_section("BC8A2222", w, flags=1, callouts=co[2])])
        cli_pels["bmc_bc.pel"] = build_pel(b"O", [
            src_section("BC8A2222", w), src_section("BD70CC01", w, sid=0x5353)])
        cli_pels["plugin_l.pel"] = build_pel(b"L", [
            src_section("BDOK2030", w, flags=1, callouts=callout_section(
                [callout([fru_identity(0x22, pn=b"EXC0001")]),
                 callout([fru_identity(0x22, pn=b"GOOD001")])]))])
        cli_pels["plugin_ex.pel"] = build_pel(b"L", [
            src_section("BDEX2030", w)])
        cli_pels["plugin_ki.pel"] = build_pel(b"L", [
            src_section("BDKI2030", w)])
        cli_pels["plugin_k.pel"] = build_pel(b"K", [
            src_section("BD8D2030", w, flags=1, callouts=co[2])])
        cli_pels["plugin_s.pel"] = build_pel(b"S", [
            src_section("BD8D2030", w)])
        cli_pels["importerr.pel"] = build_pel(b"O", [
            src_section("BD70AA01", w)])
        cli_pels["overflow.pel"] = build_pel(b"O", [
            src_section("BD8D2030", w, word_count=11)])
        cli_pels["trunc.pel"] = cli_pels["hwdiags.pel"][:150]
        cli_pels["short.pel"] = cli_pels["hwdiags.pel"][:30]
        cli_pels["garbage.pel"] = rand_bytes(rnd, 300)
        cli_pels["empty.pel"] = b""
        cli_pels["notes.txt"] = b"not a pel"

        cli_runs = []
        for name in cli_pels:
            cli_runs.append((["-f", name], "good", False))
            cli_runs.append((["-f", name, "-P"], "good", False))
        for name in ("hwdiags.pel", "plugin_l.pel", "secondary.pel",
                     "plugin_k.pel", "overflow.pel"):
            cli_runs.append((["-f", name], "weird", True))
            cli_runs.append((["-f", name], "none", False))
            cli_runs.append((["-f", name], "badjson", False))
            cli_runs.append((["-f", name, "-x"], "good", False))
        for args in (["-p", ".", "-a", "-E"], ["-p", ".", "-a"],
                     ["-p", ".", "-l", "-E"], ["-p", ".", "-l", "-E", "-r"],
                     ["-p", ".", "-n", "-E"], ["-p", ".", "-a", "-E", "-P"],
                     ["-p", ".", "-a", "-E", "-e", ".pel"],
                     ["-p", ".", "-a", "-E", "-x"],
                     ["-p", ".", "-j", "-E"], ["-p", ".", "-j", "-E", "-c"],
                     ["-p", ".", "-j", "-E", "-o", "outdir"],
                     ["-p", ".", "-j", "-E", "-e", ".pel", "-c"],
                     ["-p", ".", "--src", "BD70E5", "-E"],
                     ["-p", ".", "--plid", "0x50000001", "-E"],
                     ["-p", ".", "-i", "50000002"],
                     ["-p", ".", "--bmc-id", "18"]):
            cli_runs.append((args, "good", False))
        cli_runs.append((["-p", ".", "-a", "-E"], "weird", True))
        cli_runs.append((["-p", ".", "-a", "-E"], "none", True))
        cli_runs.append((["-p", ".", "-j", "-E"], "badjson", False))

        for idx, (args, cfg, opt) in enumerate(cli_runs):
            res = []
            for side in ("A", "B"):
                cwd = os.path.join(work, "cli", side, str(idx))
                os.makedirs(os.path.join(cwd, "outdir"))
                for name, data in cli_pels.items():
                    if name in ("plugin_ki.pel", "plugin_k.pel",
                                "plugin_s.pel") and "-f" not in args:
                        continue
                    with open(os.path.join(cwd, name), "wb") as f:
                        f.write(data)
                res.append(run_cli(trees[side, cfg], extra, args, cwd, opt))
            total += 1
            if res[0] != res[1]:
                diffs.append(("cli", cfg, opt, args, res[0], res[1]))
    finally:
        shutil.rmtree(work, ignore_errors=True)

    if diffs:
        print("DIFFERENT: %d of %d cases differ" % (len(diffs), total))
        for name, cfg, opt, case, a, b in diffs[:8]:
            print("-" * 70)
            print("batch=%s data=%s -O=%s" % (name, cfg, opt))
            print("case:", json.dumps(case)[:600])
            print("pristine:", json.dumps(a)[:1500])
            print("patched :", json.dumps(b)[:1500])
        return 1
    print("IDENTICAL (%d cases)" % total)
    return 0


if __name__ == "__main__":
    sys.exit(main())
